#!/venv/bin/python
"""import_neutral.py <Cxx> <dir-with-1,2,3>: confirm each behaviour-preserving change in a scratch copy of /repo (patch applies, repository tests pass, the
demonstration exits 0 WITHOUT and WITH the change and prints the same last line - its digest - both times) and keep it as neutral/<Cxx>-n<k>/.
These are the inputs of `selftest.py --neutral`: all twenty quick checks must stay quiet on them."""
import glob, json, os, shutil, subprocess, sys, tempfile
HERE = os.path.dirname(os.path.dirname(os.path.abspath(__file__)))
pid, src = sys.argv[1], sys.argv[2]
PY = '/venv/bin/python'


def run_demo(demo, repo):
    env = dict(os.environ, PYTHONPATH=repo, PYTHONDONTWRITEBYTECODE='1')
    r = subprocess.run([PY, demo], cwd=os.path.dirname(demo), env=env, capture_output=True, text=True, timeout=300)
    lines = [l for l in r.stdout.splitlines() if l.strip()]
    return r.returncode, (lines[-1] if lines else '')


existing = len(glob.glob(os.path.join(HERE, 'neutral', pid + '-n*')))
for d in sorted(glob.glob(os.path.join(src, '[0-9]*'))):
    patch, demo = os.path.join(d, 'patch.diff'), os.path.join(d, 'demo.py')
    if not (os.path.exists(patch) and os.path.exists(demo)):
        print('SKIP (incomplete)', d)
        continue
    scratch = tempfile.mkdtemp(prefix='vp-neutral-')
    try:
        repo = os.path.join(scratch, 'repo')
        shutil.copytree('/repo', repo, ignore=shutil.ignore_patterns('.git', '__pycache__', '*.egg-info'))
        rc0, last0 = run_demo(demo, repo)
        a = subprocess.run(['git', 'apply', '--unsafe-paths', '--directory', repo, patch], cwd='/', capture_output=True, text=True)
        if a.returncode:
            print('SKIP (patch does not apply)', d, a.stderr[-200:])
            continue
        t = subprocess.run([PY, '-m', 'pytest', '-q', '-p', 'no:cacheprovider', '-x', os.path.join(repo, 'tests')], cwd=repo,
                           env=dict(os.environ, PYTHONPATH=repo, PYTHONDONTWRITEBYTECODE='1'), capture_output=True, text=True)
        rc1, last1 = run_demo(demo, repo)
        ok = rc0 == 0 and rc1 == 0 and t.returncode == 0
        same = last0 == last1
        if not ok:
            print(f'SKIP (demo clean rc={rc0}, changed rc={rc1}, tests rc={t.returncode})', d)
            continue
        existing += 1
        out = os.path.join(HERE, 'neutral', f'{pid}-n{existing}')
        os.makedirs(out, exist_ok=True)
        shutil.copy(patch, out)
        shutil.copy(demo, out)
        notes = open(os.path.join(d, 'notes.txt')).read() if os.path.exists(os.path.join(d, 'notes.txt')) else ''
        json.dump({'id': f'{pid}-n{existing}', 'property': pid, 'origin': 'sub-agent (asked for behaviour-preserving changes; given only the property text)',
                   'what': ' '.join(notes.split())[:1500], 'demo_last_line_equal': same}, open(os.path.join(out, 'meta.json'), 'w'), indent=1)
        print('KEEP', out, 'digest-equal' if same else f'digest-differs ({last0[:40]} / {last1[:40]})')
    finally:
        shutil.rmtree(scratch, ignore_errors=True)

#!/usr/bin/env python3
"""Regenerates MANIFEST.json from the table below; a property appears under `checks` only when its check module exists."""
import glob
import json
import os

HERE = os.path.dirname(os.path.dirname(os.path.abspath(__file__)))
PY = '/venv/bin/python'

T = {
    'C01': ('M-INV invariant hook on Cell.__init__ + reference-model (R1) differential over all construction routes',
            'exploration', '4/C01',
            'Every cell any library path constructs is compared (mask, hash and depth at levels 0..3, content) with an independent '
            'spec model; all 1024 bit lengths x patterns x 0..4 refs, DAGs with sharing, depth 1023/1024 limits, equality/dict pool.',
            'R1 reference model (validated against the pinned main-net block hash), hashlib, bitarray'),
    'C02': ('M-INV invariant hook + R1 reference differential on exotic trees (two routes) + metamorphic pruning invariance',
            'exploration', '4/C02',
            'Random spec-valid exotic trees (all 7 pruned masks, library refs, Merkle proofs/updates nested to level 3) built via Builder(type_) '
            'and parsed from an independent encoding; every cell compared with R1 at levels 0..3; exhaustive prunings of small trees. Third route: a foreign encoding with stored hashes on exotic and ordinary cells (masks 0/1/3/7).',
            'R1 exotic semantics (validated on the main-net block and by pruning invariance inside the reference)'),
    'C03': ('metamorphic round-trip monitor (encode/decode = id) over DAG classes x options x forms x entry points, with M-INV on parsed cells',
            'exploration', '4/C03',
            'DAG classes incl. exotic trees, maximal sharing and header-width boundaries through all 6 option sets, 3 input forms and 4 entry points; '
            'parsed root compared by hash and recursively by (type, bits, refs). Sources built four ways: shared objects, equal cells as distinct objects, '
            'Cell(...) from plain / Tvm bit arrays, and a root that itself came out of the parser.', 'library hash trusted only via C01/C02 (checked again here against R1)'),
    'C04': ('reference-model monitor: strict independent BoC decoder (R2) on every emission',
            'exploration', '4/C04',
            'Every to_boc emission (6 option sets) is decoded by a strict decoder written from boc.tlb: widths, forward refs, distinct cells, index = '
            'cumulative end offsets (x2 with cache bits), CRC coverage, flags, level-mask byte, reachability; decoded DAG compared with the source. Also sequences of bags from the same objects and DAGs whose equal cells are distinct Python objects.',
            'R2 decoder validated on the pinned main-net block'),
    'C05': ('reference-model monitor (R2 encoder with all freedoms) + fault enumeration (all bit flips, truncations, extensions, reference rewrites)',
            'fault_enumeration', '4/C05',
            'Positive: conforming encodings under every encoder freedom must parse to the denoted roots. Negative: for bases <= 320 bytes every '
            'single-bit flip of CRC-protected input, every truncation, extensions, every reference slot rewritten (self/backward/dangling) must raise. Bags re-using the cell bytes of a bag parsed just before at shifted positions are judged differentially by the strict decoder.',
            'R2 encoder self-checked by the R2 decoder on every case; rejection = any Exception'),
    'C06': ('reference bit-writer differential (R3) + sequential shadow of slice position + preload/load postconditions',
            'exploration', '4/C06',
            'Typed field sequences packed to the cell limits; bits compared with an independent TL-B encoder after every store; every load compared '
            'in value and type, preload == load, position after each load, nothing left unread; exhaustive single-field sweeps over all widths.',
            'R3 field encodings written from block.tlb (MsgAddress, VarUInteger, Grams)'),
    'C07': ('sequential shadow model of builder capacity / slice remaining + M-INV capacity invariant on every constructed cell',
            'exploration', '4/C07',
            'Fill level 0..1023 x store kind x {room, exact, one too many}; ref fill x composite stores; out-of-range values; depth limit; every '
            'remaining length x read kind x over-read amounts x 10 slice origins; random histories with shadow re-sync after expected failures. Depth limit at every level: parents of pruned branches claiming depths 1022/1023 per level (all masks), Merkle cells over chains at the limit.',
            'shadow model = bit string + ref count; "refused" = any Exception'),
    'C08': ('M-SNAP snapshot registry re-validated after every operation of random histories + Cell.order postcondition + pure-call re-evaluation',
            'exploration', '4/C08',
            'Random operation histories (15 op kinds incl. mutation attempts on every derived container) over a small pool; after every operation '
            'every registered live cell is re-fingerprinted (hash, bits, ref identities, 6 serialisations).',
            'only derived objects are attacked; mutating cell.bits/cell.refs of the cell object itself is outside the property'),
    'C09': ('metamorphic round-trip monitor over 5 parse routes + independent Hashmap decoder (R4) + postcondition hook on HashMap.set_int_key + '
            'fault enumeration of unfit keys',
            'exploration', '4/C09',
            'Every non-empty key subset of widths 1..3 (width 4 in thorough) x insertion orders; hostile key shapes up to width 1011 / 2000 keys / 400 nested forks; '
            '7 value kinds, 6 key forms; parsed pairs, ascending order, order independence, empty map = no cell; unfit keys refused and map unchanged.',
            'R4 decoder written from hashmap.tlb; nesting beyond ~490 forks hits the recorded recursion-limit finding'),
    'C10': ('reference-model monitor: canonical Patricia-tree encoder (R4, dict.cpp label rule) vs library hash; any-label/pruned/augmented reference trees fed to '
            'every parser entry point',
            'exploration', '4/C10',
            'Label table (n, m, uniform/mixed): all pairs in thorough, all m<=48 plus tie-break bands in quick; random maps over hostile shapes; parser half: '
            'reference trees with random valid label kinds (incl. zero-length), HashmapAug extras, random pruned subtrees through 7 parser entry points. Augmentation values with and without a reference inside.',
            'R4 encoder/decoder validated on the pinned dictionary hash and by encoder/decoder identity'),
    'C11': ('reference-model monitor (R1 pruning + R3-encoded shard states) for completeness + fault enumeration over forgery operators for soundness, with M-INV on every cell built',
            'fault_enumeration', '4/C11',
            'Honest proofs: every pruning subset of small trees / random prunings of larger ones through check_proof, block-shaped trees through '
            'check_block_header_proof, reference-encoded ShardStateUnsplit + block through check_account_proof. Forgeries: other hash, non-Merkle roots (5 kinds), every '
            'bit flip and 7 structural mutations of unpruned cells, substituted pruned hash/depth (stale and recomputed Merkle cell), 16 account-proof operators. Trees embedding Merkle cells pruned at levels 2-3; account dictionaries with extra currencies and pruned branches; several accounts of one state in a row; every forgery with both return_account_descr values.',
            'R1/R3 references; a forgery the library refuses to construct counts as rejected; operators outside the list not covered'),
    'C12': ('reference-model monitor: independent acceptance predicate (R7, PyNaCl verification) beside check_block_signatures over real keys, with fault '
            'enumeration of invalid/duplicated/foreign signature operators',
            'fault_enumeration', '4/C12',
            'Validator sets of 0..100 real Ed25519 keys x 7 weight classes; honest subsets at/below/above 2/3 (exact 2/3 included), duplicates (x1, x7, xn, pushing '
            'over the line), 9 kinds of invalid entry at first/middle/last position, empty sets; verdict must equal R7 in both directions. Wrong-length signatures, ids in another hex case, the same keys re-weighted in the next call, 64-bit knife-edge margins.',
            'PyNaCl Ed25519; duplicate-with-supermajority lists are not judged (ambiguous in the property)'),
    'C13': ('metamorphic round-trip monitor + independent 36-byte layout/CRC-16 reference + fault enumeration of single-character substitutions',
            'fault_enumeration', '4/C13',
            'All 256 workchains x id patterns x 9 renderings round-trip with flags; for sampled addresses all 48x63 substitutions are rejected. Every parsed address is re-rendered in all 9 forms; every rejected string is presented twice.',
            'R6 CRC-16; substitution within the same 64-symbol alphabet'),
    'C14': ('reference-model monitor: independent .tl reader + TL binary codec (R5) beside TlSchemas.serialize/deserialize for every supported constructor, '
            'registry compared id by id, round-trip metamorphic check in both auto_deserialize modes',
            'exploration', '4/C14',
            'All 740 supported constructors of the three bundled schema files (47 skipped with reason): flag subsets, width boundaries incl. # >= 2^31, strings/bytes '
            'around the 253/254 and 4-byte padding boundaries up to 65540 bytes, multi-byte UTF-8, vectors of base and object types, polymorphic and nested objects; '
            'bytes equal R5, parse returns the same value and consumes all bytes; BlockId/BlockIdExt conversions, equality and hashing.',
            'R5 id rule validated on 4 well-known ids and pinned bytes; opaque payloads avoid registered ids'),
    'C15': ('reference-model monitor: independent block.tlb message encoder/decoder (R3) beside MessageAny.serialize/deserialize + metamorphic check over all valid '
            'Either placements, with M-INV on every cell built',
            'exploration', '4/C15',
            'Headers of the 3 kinds (addresses none/extern/std +- anycast, amounts at var-length boundaries, extra currencies), every state-init subset, bodies swept '
            'across the bit and reference budgets of each layout incl. headers tuned to leave -1..2 bits; serialize never raises, cell decodes under R3 to the same '
            'message, the parser returns it from its own cell and from every valid placement; stand-alone StateInit, currencies, wallet / NFT data, HashUpdate. Values built after another value was edited in place are unaffected.',
            'R3 written from the bundled block.tlb; addr_var not generated'),
    'C16': ('reference-model monitor: independent declarative transcription of block.tlb (R3, lib/tlbspec.py) encodes generated values, the parsed object is compared '
            'field by field (postcondition on the slice: exactly the sentinel bits and reference remain)',
            'exploration', '4/C16',
            '85 constructors of 45 types (transactions with the 7 description kinds and all phase variants, accounts, in/out message descriptors, envelopes, value flows, '
            'shard descriptors, validator sets, catchain config, block extra) plus hand-written BlockInfo (all 16 structure flag combinations), McStateExtra, ShardHashes over '
            'every BinTree shape up to 6 leaves, the ConfigParam 8/28/32-37 entry points, and the bundled main-net block compared down to every transaction (267 fields); '
            'integers at the boundaries of their width (>= 2^63 for uint64); every optional-field combination reachable by the generator.',
            'R3 transcription of the bundled block.tlb; attribute-name differences recorded in ALIAS/TAGS tables, not alarmed'),
    'C17': ('reference-model monitor (independent block.tlb VmStack encoder) + M-SNAP on caller values + double-serialisation metamorphic check',
            'exploration', '4/C17',
            'Stacks over all value kinds, integer boundaries, tuples to length 255 / nesting 6, all ten continuation kinds with control data; library '
            'cell compared with the reference cell; parsed back from own and reference cells; caller values fingerprinted before/after. Parsed values are used in place (tuples grown, builders stored into, slices read) and the same cell is parsed again.',
            'reference VmStack encoder; -2^63 excluded from bit-exact comparison (schema freedom)'),
    'C18': ('reference-model monitor: bitwise CRC definitions (R6) beside the table-driven implementation, with table-index coverage shadow',
            'exploration', '4/C18',
            'All 65536 two-byte inputs (every table index under every preceding byte), all lengths 0..300/2000, long buffers, both byte orders. Odd and even long inputs around 1k..64k (1 MiB+1 thorough), alternating byte-order call sequences.',
            'R6 validated on the catalogue check values'),
    'C19': ('M-STEP logical step counter (sys.monitoring LINE + backward-JUMP events of repository code) with a budget failpoint A + B*s^2 per call '
            'and fitted growth exponents per (family, operation)',
            'exploration', '4/C19',
            'build/hash, order, to_boc x options, from_boc, copy ... on chains, random DAGs, wide trees, 2-/4-way ladders, diamonds; BoC headers with every count/size '
            'field rewritten and headers assembled as the product of flag/width/count values; TL vectors with rewritten counts, nested bytes, object lists (also nested in '
            'object lists), rewritten lengths, random bytes after ids; canonical, shared-subtree and '
            'fuzzed dictionaries. "Terminates" is decided as bounded progress in logical steps.',
            'steps = LINE events + backward jumps in repository code; C-extension work not counted'),
    'C20': ('metamorphic peer-symmetry monitor with both endpoints constructed + postcondition contract on AdnlChannel.encrypt (packet layout) + '
            'signature negatives by fault enumeration (all 512 bit flips)',
            'exploration', '4/C20',
            'Key-pair/id pairs in both id orders, equal ids, ids differing in one byte; plaintext lengths 0..100000; each direction encrypted by one side and '
            'decrypted by the other, key id expected by the peer, SHA-256 of plaintext; 3 signing helpers, negatives; sampled mnemonics valid, derivation deterministic. A second local identity dialing the same peer; every PyNaCl encoder; bytes moved across the signature/message boundary.',
            'libsodium / x25519 / pycryptodome trusted; mnemonic_new sampled'),
}


# additions of the last rounds (DESIGN 8.4 "seventh round", 8.6, 8.7), appended to the texts above
EXTRA = {
    'C02': ' Later: the recomputed representation hash of every cell type (Merkle cells over pruned descendants included) through the M-INV hook. Round 9: the top cell rebuilt with its references as tuple / iterator / generator / map.',
    'C01': ' Later: bit arrays of little-endian storage order, bits handed out by load_bits, copy/deepcopy/pickle routes, second-order derivations of every product, recomputed representation hash of ordinary cells over exotic children. Round 8: M-INV compares calculate_representation_hash() with the hash for every cell of every type.',
    'C03': ' Later: the raw bytes in bytearray / memoryview / array containers. Round 8: a cell and its twin of another type in separate bags, both orders, every entry point.',
    'C05': ' Later: every rejection also through Slice / Builder entry points and Boc(data).deserialize(cls) for each class. Round 8: one- and two-cell bags whose descriptor announces 1..4 references (self / dangling), with and without CRC. Round 9: stored checksum replaced by particular values (all zero, all ones ...), one cell referenced 255..1000 times, a foreign bag of 65 600 cells with completely full cells.',
    'C06': ' Later: snake chains up to 130 048 bytes, wide-item buffers, texts outside the Unicode normal forms. Round 8: external addresses given as byte strings / hex text by their own length (leading zero bits), ExternalAddress(None), copies of anycast addresses. Round 9: every anycast depth stored with exactly its size left, store_bit of a bit read with load_bits / preload_bits.',
    'C07': ' Later: bits as iterators / generators / spaced bit strings, bytes-like objects with items wider than a byte (fits / one item too many) at every fill level. Round 8: 4..9 references through eight routes (constructors, Slice.to_cell, builder reference list edited, bags announcing 5-7 references), account ids that are not 256 bits, anycast depth 0 / 31, out-of-range values through every single-bit store. Round 9: capacity of builders derived four ways from cells of five origins (plain bit arrays of both storage orders included) at eleven fill levels.',
    'C08': ' Later: looking is not using (repr, str, hash, ==, copy / pickle protocols), the public Cell / Slice constructors over the cell\'s and the caller\'s own arrays. Round 8: public argument-less recompute methods inside the histories with per-level hashes / recomputed representation hash in the registry, every VM value serialiser called directly, plain-bit-array cells looked at through parents / slices / builders. Round 9: class-level helpers through Cell, two subclasses and a Slice subclass in the order-independence probes.',
    'C09': ' Later: keys entering through map_ / .map, anycast Address keys, combs nesting 450 / 600 / 1000 forks under the default recursion limit (recorded finding above ~490). Round 8: over-long bit-string / bytes keys whose extra leading bits are zero, anycast Address keys at 267 bits and at their own width, direct edits of .map between serialisations. Round 9: a dictionary of 2^17 entries (18 cells), hashed keys in maps narrower than a digest, bit-array keys refused or read in index order.',
    'C10': ' Later: trees nesting 450 / 600 / 1000 forks under the default recursion limit (recorded finding above ~490). Round 9: mirrored entries whose values compare equal but encode differently (anycast addresses, a user class with a loose __eq__).',
    'C11': ' Later: forgeries of the proof cell itself (all 16 depth bits, length, reference count), pruned masks without slots, roots of account proofs that are not Merkle proofs, proofs through copy / pickle. Round 8: check_shard_proof - masterchain block + state + BinTree of shard descriptors encoded from block.tlb, honest proofs accepted, ten forgeries (other hash / seqno / workchain, state of another block, unknown shard, root counts, swapped roots) rejected. Round 9: dictionaries hanging off the state\'s tail group pruned at their roots.',
    'C12': ' Later: validator set as tuple / generator / iterator / map / dict view; block id used before the check. Round 9: validator sets with two entries of one public key.',
    'C13': ' Later: out-of-domain addresses built and rendered between the valid round trips. Round 9: addresses whose checksum bits lie within one text character (found by search), every substitution.',
    'C14': ' Later: id-like bytes where they must stay bytes, bytes-like field values, damaged parses and a storm of failing nested payloads between valid calls on one schemas object. Round 8: several TL objects in one bytes field (parsed to a list; what the parser returns must serialise back). Round 9: vectors as tuple / deque / dict view / range, nested objects of 70 kB and 300 kB in a bytes field, a block id as a dictionary key among keys of other types.',
    'C15': ' Later: exotic bodies, NFT data from address text, highload wallet data with queries, damaged parses before valid ones. Round 8: exotic bodies when header and inline state-init take all four references.',
    'C16': ' Later: damaged versions of each cell parsed before the valid one. Round 8: McBlockExtra (key and non-key blocks, shard fees with and without extra currencies, signatures, recover / mint messages, config, sentinel). Round 9: a shard tree of 2^16 leaves (17 cells), the same key-block cell parsed twice with the first result consumed in between.',
    'C17': ' Later: re-serialisation of everything parsed, VmStackList directly, keyword order of continuations, failed-then-repaired serialisation, tuples / nesting / stacks up to 1000 (recorded finding above ~490 levels). Round 9: one continuation object (by identity) in two or three fields of another.',
    'C18': ' Later: inputs built around every 2..8-byte constant of the library source; valid calls right after calls with invalid arguments. Round 9: inputs of 2^20 +- 1, 2 x 2^20, 2^24 + 5 bytes against the table-driven reference; byte orders built at run time and str subclasses.',
    'C19': ' Later: leafless ladders ending in library / Merkle cells, equal DAGs made of distinct objects. Round 8: dictionary families measured against the input size n+e (three recorded findings: augmented parser on leafless ladders through both entry points, plain parser on shared subtrees that yield leaves). Round 9: allocation monitor (tracemalloc peak bounded by 8 MiB + 20 kB per input byte) on the BoC header product.',
    'C20': ' Later: the generator under a steered entropy source (rare digest contents, a run of 1500 rejected draws), word counts other than 24 (recorded finding). Round 9: messages given as PyNaCl SignedMessage / bytes subclasses.',
}


def main():
    checks = []
    for pid in sorted(T):
        if not glob.glob(os.path.join(HERE, 'checks', f'{pid.lower()}_*.py')):
            continue
        tech, cat, ref, text, note = T[pid]
        checks.append({
            'property_id': pid,
            'quick_cmd': f'{PY} run.py {pid} --tier quick',
            'thorough_cmd': f'{PY} run.py {pid} --tier thorough',
            'evidence_file': f'/verif/evidence/{pid}.json',
            'replay_cmd_template': f'{PY} run.py {pid} --replay {{path}}',
            'engine': 'pymon',
            'level_claimed': {'category': cat, 'text': text + EXTRA.get(pid, ''), 'design_ref': f'DESIGN.md section {ref} (plan) and section 8.4 (as built)'},
            'level_note': note,
            'technique': 'runtime monitoring: ' + tech,
        })
    claimed = {c['property_id'] for c in checks}
    props = [json.loads(l)['id'] for l in open(os.path.join(HERE, 'properties.jsonl'))]
    na = [{'property_id': p, 'reason': 'no check module present for this property; no claim is made'} for p in props if p not in claimed]
    m = {
        'version': 1,
        'setup_cmd': f'{PY} lib/selftest.py',
        'hooks': {
            'guard': 'PYTONIQ_CORE_VERIF',
            'enable': 'no source hooks: monitors attach from the harness by patching class/module attributes and sys.monitoring '
                      '(guard name reserved, unused); checks import /repo (or $VERIF_REPO) working tree directly',
            'baseline_off_cmd': 'cd /repo && /venv/bin/python -m pytest -ra -q -p no:cacheprovider --timeout=900 --continue-on-collection-errors',
            'source_commits': [],
            'add_only': True,
        },
        'engines': [{'name': 'pymon', 'path': 'run.py', 'serves_properties': sorted(claimed),
                     'kind_free_text': 'pure-Python runtime monitors (invariant hooks, pre/postcondition wrappers, reference-model '
                                       'and shadow-model oracles, sys.monitoring step counter) driving the real library'}],
        'checks': checks,
        'notes': 'Verdicts are three-valued: exit 0 held on what was observed, 1 violation (VIOLATION line + replay file), '
                 '2 inconclusive (monitor not reached / coverage floor missed). known_findings.txt lists recorded and fixed defects. '
                 'selftest.py applies mutants/ and seeded/ (deliberate breaks: each must be caught) and, with --neutral, neutral/ (behaviour-preserving changes: all twenty checks must stay quiet).',
        'not_applicable': na,
    }
    with open(os.path.join(HERE, 'MANIFEST.json'), 'w') as f:
        json.dump(m, f, indent=1)
    print('claimed', sorted(claimed), 'na', len(na))


if __name__ == '__main__':
    main()

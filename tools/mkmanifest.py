#!/usr/bin/env python3
"""Regenerates MANIFEST.json from the table below; a property appears under `checks` only when its check module exists."""
import glob
import json
import os

HERE = os.path.dirname(os.path.dirname(os.path.abspath(__file__)))
PY = '/venv/bin/python'

T = {
    'C01': ('M-INV invariant hook on Cell.__init__ + reference-model (R1) differential over all construction routes',
            'exploration', '4/C01',
            'Every cell any library path constructs is compared (mask, hash and depth at levels 0..3, content) with an independent '
            'spec model; all 1024 bit lengths x patterns x 0..4 refs, DAGs with sharing, depth 1023/1024 limits, equality/dict pool.',
            'R1 reference model (validated against the pinned main-net block hash), hashlib, bitarray'),
}


def main():
    checks = []
    for pid in sorted(T):
        if not glob.glob(os.path.join(HERE, 'checks', f'{pid.lower()}_*.py')):
            continue
        tech, cat, ref, text, note = T[pid]
        checks.append({
            'property_id': pid,
            'quick_cmd': f'{PY} run.py {pid} --tier quick',
            'thorough_cmd': f'{PY} run.py {pid} --tier thorough',
            'evidence_file': f'/verif/evidence/{pid}.json',
            'replay_cmd_template': f'{PY} run.py {pid} --replay {{path}}',
            'engine': 'pymon',
            'level_claimed': {'category': cat, 'text': text, 'design_ref': f'DESIGN.md section {ref}'},
            'level_note': note,
            'technique': 'runtime monitoring: ' + tech,
        })
    claimed = {c['property_id'] for c in checks}
    props = [json.loads(l)['id'] for l in open(os.path.join(HERE, 'properties.jsonl'))]
    na = [{'property_id': p, 'reason': 'check not built yet in this round (planned: DESIGN.md section 4); no claim is made'}
          for p in props if p not in claimed]
    m = {
        'version': 1,
        'setup_cmd': f'{PY} lib/selftest.py',
        'hooks': {
            'guard': 'PYTONIQ_CORE_VERIF',
            'enable': 'no source hooks: monitors attach from the harness by patching class/module attributes and sys.monitoring '
                      '(guard name reserved, unused); checks import /repo (or $VERIF_REPO) working tree directly',
            'baseline_off_cmd': 'cd /repo && /venv/bin/python -m pytest -ra -q -p no:cacheprovider --timeout=900 --continue-on-collection-errors',
            'source_commits': [],
            'add_only': True,
        },
        'engines': [{'name': 'pymon', 'path': 'run.py', 'serves_properties': sorted(claimed),
                     'kind_free_text': 'pure-Python runtime monitors (invariant hooks, pre/postcondition wrappers, reference-model '
                                       'and shadow-model oracles, sys.monitoring step counter) driving the real library'}],
        'checks': checks,
        'notes': 'Verdicts are three-valued: exit 0 held on what was observed, 1 violation (VIOLATION line + replay file), '
                 '2 inconclusive (monitor not reached / coverage floor missed). known_findings.txt lists recorded and fixed defects.',
        'not_applicable': na,
    }
    with open(os.path.join(HERE, 'MANIFEST.json'), 'w') as f:
        json.dump(m, f, indent=1)
    print('claimed', sorted(claimed), 'na', len(na))


if __name__ == '__main__':
    main()

#!/usr/bin/env python3
"""rebase_patches.py : after fixes were committed in /repo, re-express every seeded/ mutants/ neutral/ patch that no longer applies to /repo HEAD.
For each such patch: find the newest ancestor commit of HEAD on which it applies, apply it there in a scratch clone (outside /repo and /verif, removed
afterwards), commit, rebase that commit onto HEAD and write the resulting diff back.  Conflicts are reported and left for manual work."""
import glob, os, shutil, subprocess, sys, tempfile
HERE = os.path.dirname(os.path.dirname(os.path.abspath(__file__)))


def sh(*a, cwd=None, check=False):
    return subprocess.run(a, cwd=cwd, capture_output=True, text=True, check=check)


def applies(repo, patch):
    if sh('git', 'apply', '--check', patch, cwd=repo).returncode == 0:
        return 'git'
    if sh('patch', '-p1', '--dry-run', '-s', '-i', patch, cwd=repo).returncode == 0:
        return 'patch'
    return None


def main():
    patches = sorted(glob.glob(os.path.join(HERE, 'seeded', '*', 'patch.diff')) + glob.glob(os.path.join(HERE, 'mutants', '*.patch')) + glob.glob(os.path.join(HERE, 'neutral', '*', 'patch.diff')))
    stale = [p for p in patches if not applies('/repo', p)]
    print(len(stale), 'stale of', len(patches))
    if not stale:
        return
    tmp = tempfile.mkdtemp(prefix='vp-rebase-')
    try:
        clone = os.path.join(tmp, 'r')
        sh('git', 'clone', '-q', '/repo', clone, check=True)
        sh('git', 'config', 'user.email', 'x@x', cwd=clone)
        sh('git', 'config', 'user.name', 'x', cwd=clone)
        head = sh('git', 'rev-parse', 'HEAD', cwd=clone).stdout.strip()
        commits = sh('git', 'rev-list', '--max-count=40', 'HEAD', cwd=clone).stdout.split()
        bad = 0
        for p in stale:
            done = False
            for base in commits[1:]:
                sh('git', 'checkout', '-q', '-f', base, cwd=clone)
                sh('git', 'clean', '-fdq', cwd=clone)
                how = applies(clone, p)
                if not how:
                    continue
                if how == 'git':
                    sh('git', 'apply', p, cwd=clone, check=True)
                else:
                    sh('patch', '-p1', '-s', '-i', p, cwd=clone, check=True)
                sh('git', 'add', '-A', cwd=clone)
                sh('git', 'commit', '-qm', 'p', cwd=clone, check=True)
                r = sh('git', 'rebase', '-q', '--onto', head, base, 'HEAD', cwd=clone)
                if r.returncode:
                    sh('git', 'rebase', '--abort', cwd=clone)
                    print('CONFLICT', os.path.relpath(p, HERE), 'base', base[:7])
                    bad += 1
                else:
                    d = sh('git', 'diff', head, 'HEAD', cwd=clone).stdout
                    open(p, 'w').write(d)
                    print('rebased ', os.path.relpath(p, HERE), 'from', base[:7])
                done = True
                break
            if not done:
                print('NO-BASE ', os.path.relpath(p, HERE))
                bad += 1
        sys.exit(1 if bad else 0)
    finally:
        shutil.rmtree(tmp, ignore_errors=True)


main()

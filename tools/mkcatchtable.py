#!/usr/bin/env python3
"""mkcatchtable.py : regenerate the table in DESIGN.md between the markers <!-- CATCH-TABLE:BEGIN --> / <!-- CATCH-TABLE:END -->
from selftest_results.json (written by a full `selftest.py` run), seeded/*/meta.json and mutants/*.patch."""
import glob
import json
import os
import re

HERE = os.path.dirname(os.path.dirname(os.path.abspath(__file__)))


def first_sentence(txt, n=170):
    txt = ' '.join(txt.split())
    txt = re.sub(r'^(Change( \d)?\s*[:-]\s*|\d\.\s*)', '', txt)
    m = re.search(r'(?<=[a-z\)\]`"\'])\.\s', txt)
    if m and m.start() < n:
        txt = txt[:m.start() + 1]
    return (txt[:n] + '…') if len(txt) > n else txt


def key_of(line):
    m = re.search(r'key=(\S+)', line or '')
    return m.group(1) if m else ''


def main():
    res = json.load(open(os.path.join(HERE, 'selftest_results.json')))
    rows = []
    for d in sorted(glob.glob(os.path.join(HERE, 'seeded', '*', 'meta.json'))):
        sid = os.path.basename(os.path.dirname(d))
        meta = json.load(open(d))
        r = res.get(f'seeded/{sid}/patch.diff', {})
        checks = r.get('checks') if isinstance(r.get('checks'), list) else []
        caught = [c for c in checks if c['rc'] == 1 and c['violation_lines']]
        by = ', '.join(f"{c['property']} `{key_of(c['first'])[:60]}`" for c in caught) or ('**missed**' if r else 'not run')
        rows.append((sid, first_sentence(meta.get('needs_to_manifest', '')), by))
    out = ['| seeded change | what it is | caught by (quick tier; first violation class) |', '|---|---|---|']
    out += [f'| {a} | {b.replace("|", "/")} | {c} |' for a, b, c in rows]
    out.append('')
    muts = sorted(glob.glob(os.path.join(HERE, 'mutants', '*.patch')))
    per = {}
    missed = []
    for m in muts:
        name = os.path.basename(m)[:-6]
        pid = re.findall(r'C\d\d', name)[0]
        r = res.get(f'mutants/{name}.patch', {})
        ok = str(r.get('verdict', '')).startswith('CAUGHT')
        per.setdefault(pid, []).append(name.split(pid + '-', 1)[1] + ('' if ok else ' (**missed**)'))
        if not ok:
            missed.append(name)
    out.append('Own deliberate breaks (`mutants/`, file name = `m-<Cxx>-<what>` or `orig-<Cxx>-<what>` for a defect of the original tree re-introduced), '
               'each caught by the quick tier of its property with the repository tests still passing:')
    out.append('')
    for pid in sorted(per):
        out.append(f'* **{pid}** ({len(per[pid])}): ' + ', '.join(per[pid]))
    out.append('')
    total = len(rows) + len(muts)
    ncaught = sum(1 for r in rows if 'missed' not in r[2] and 'not run' not in r[2]) + len(muts) - len(missed)
    out.append(f'Totals at the last full `selftest.py` run: {ncaught}/{total} caught ({len(rows)} seeded by independent sub-agents, {len(muts)} own).')
    p = os.path.join(HERE, 'DESIGN.md')
    s = open(p).read()
    a, b = '<!-- CATCH-TABLE:BEGIN -->', '<!-- CATCH-TABLE:END -->'
    i, j = s.index(a) + len(a), s.index(b)
    open(p, 'w').write(s[:i] + '\n' + '\n'.join(out) + '\n' + s[j:])
    print(f'{len(rows)} seeded rows, {len(muts)} mutants, {ncaught}/{total} caught')


main()

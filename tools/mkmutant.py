#!/usr/bin/env python3
"""mkmutant.py <name> <file-relative-to-repo> <old> <new> [<file> <old> <new> ...]  -> mutants/<name>.patch (old must occur exactly once)"""
import os, shutil, subprocess, sys, tempfile
name, rest = sys.argv[1], sys.argv[2:]
tmp = tempfile.mkdtemp(prefix='vp-mut-')
try:
    a, b = os.path.join(tmp, 'a'), os.path.join(tmp, 'b')
    for i in range(0, len(rest), 3):
        f, old, new = rest[i:i + 3]
        for d in (a, b):
            os.makedirs(os.path.dirname(os.path.join(d, f)), exist_ok=True)
            if not os.path.exists(os.path.join(d, f)):
                shutil.copy(os.path.join('/repo', f), os.path.join(d, f))
        s = open(os.path.join(b, f)).read()
        old = old.encode().decode('unicode_escape'); new = new.encode().decode('unicode_escape')
        if s.count(old) != 1:
            sys.exit(f'{f}: old text occurs {s.count(old)} times')
        open(os.path.join(b, f), 'w').write(s.replace(old, new))
    r = subprocess.run(['diff', '-ruN', 'a', 'b'], cwd=tmp, capture_output=True, text=True)
    out = os.path.join(os.path.dirname(os.path.dirname(os.path.abspath(__file__))), 'mutants', name + '.patch')
    open(out, 'w').write(r.stdout)
    print(out, len(r.stdout.splitlines()), 'lines')
finally:
    shutil.rmtree(tmp)

#!/venv/bin/python
"""run_hunted.py : run every hunted/<Cxx>-h<i>/demo.py (demonstrations written by sub-agents that hunted for genuine defects on the then-unchanged tree;
each exits 0 when the library behaves as the property says, non-zero otherwise) against /repo's current tree and print one line per demonstration."""
import glob, os, subprocess, sys
HERE = os.path.dirname(os.path.dirname(os.path.abspath(__file__)))
repo = os.environ.get('VERIF_REPO', '/repo')
for d in sorted(glob.glob(os.path.join(HERE, 'hunted', '*', 'demo.py'))):
    try:
        r = subprocess.run(['/venv/bin/python', d], cwd='/', env=dict(os.environ, PYTHONPATH=repo, PYTHONDONTWRITEBYTECODE='1'), capture_output=True, text=True, timeout=180)
        rc, last = r.returncode, ((r.stdout + r.stderr).strip().splitlines() or [''])[-1][:140]
    except subprocess.TimeoutExpired:
        rc, last = 124, 'timeout'
    print(f'{os.path.basename(os.path.dirname(d)):10s} rc={rc:<3d} {last}')

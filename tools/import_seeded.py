#!/venv/bin/python
"""import_seeded.py <Cxx> <outdir> : verify sub-agent breaks in <outdir>/<i>/ and keep the confirmed ones as seeded/<Cxx>-s<k>/.

Confirmation (in a scratch copy of /repo outside /repo and /verif, removed afterwards): patch applies to the current /repo tree,
the repository's tests pass with it, demo.py exits 0 on the unchanged tree and non-zero with the patch."""
import glob
import json
import os
import shutil
import subprocess
import sys
import tempfile

HERE = os.path.dirname(os.path.dirname(os.path.abspath(__file__)))
PY = '/venv/bin/python'


def run(cmd, cwd, env=None, timeout=600):
    try:
        r = subprocess.run(cmd, cwd=cwd, env=env, capture_output=True, text=True, timeout=timeout)
        return r.returncode, (r.stdout + r.stderr)[-600:]
    except subprocess.TimeoutExpired:
        return 124, 'timeout'


def main():
    pid, outdir = sys.argv[1], sys.argv[2]
    existing = max([int(os.path.basename(g).split('-s')[1]) for g in glob.glob(os.path.join(HERE, 'seeded', f'{pid}-s*')) + glob.glob(os.path.join(HERE, 'seeded_retired', f'{pid}-s*'))] or [0])   # highest index ever used (retired ones leave gaps)
    for d in sorted(glob.glob(os.path.join(outdir, '*'))):
        patch, demo = os.path.join(d, 'patch.diff'), os.path.join(d, 'demo.py')
        if not (os.path.exists(patch) and os.path.exists(demo)):
            print('skip (incomplete)', d)
            continue
        scratch = tempfile.mkdtemp(prefix='vp-seed-')
        try:
            dst = os.path.join(scratch, 'repo')
            shutil.copytree('/repo', dst, ignore=shutil.ignore_patterns('.git', '__pycache__', '*.egg-info'))
            env = dict(os.environ, PYTHONPATH=dst, PYTHONDONTWRITEBYTECODE='1')
            shutil.copy(demo, os.path.join(scratch, 'demo.py'))
            rc_clean, out_clean = run([PY, os.path.join(scratch, 'demo.py')], dst, env)
            a = subprocess.run(['git', 'apply', '--unsafe-paths', '--directory', dst, patch], cwd='/', capture_output=True, text=True)
            if a.returncode:
                a = subprocess.run(['patch', '-p1', '-d', dst, '-i', patch], capture_output=True, text=True)
            if a.returncode:
                print('REJECT (patch does not apply)', d, a.stderr[-200:])
                continue
            rc_tests, out_tests = run([PY, '-m', 'pytest', '-q', '-p', 'no:cacheprovider', '-x', os.path.join(dst, 'tests')], dst, env)
            rc_demo, out_demo = run([PY, os.path.join(scratch, 'demo.py')], dst, env)
            ok = rc_clean == 0 and rc_tests == 0 and rc_demo != 0
            print(('KEEP  ' if ok else 'REJECT'), d, f'clean-demo rc={rc_clean} tests rc={rc_tests} patched-demo rc={rc_demo}')
            if not ok:
                print('   ', out_clean[-200:] if rc_clean else '', out_tests[-200:] if rc_tests else '')
                continue
            existing += 1
            tgt = os.path.join(HERE, 'seeded', f'{pid}-s{existing}')
            os.makedirs(tgt, exist_ok=True)
            shutil.copy(patch, os.path.join(tgt, 'patch.diff'))
            shutil.copy(demo, os.path.join(tgt, 'demo.py'))
            notes = open(os.path.join(d, 'notes.txt')).read() if os.path.exists(os.path.join(d, 'notes.txt')) else ''
            meta = {
                'property': pid,
                'source': 'independent sub-agent given only the property text and a scratch worktree',
                'needs_to_manifest': notes.strip(),
                'confirmed': {
                    'how': 'tools/import_seeded.py: scratch copy of /repo; demo.py on the unchanged tree, then patch applied, repository tests, demo.py again',
                    'demo_on_unchanged_tree_rc': rc_clean, 'repository_tests_with_patch_rc': rc_tests, 'demo_with_patch_rc': rc_demo,
                    'demo_output_with_patch': out_demo[-300:],
                },
            }
            with open(os.path.join(tgt, 'meta.json'), 'w') as f:
                json.dump(meta, f, indent=1)
        finally:
            shutil.rmtree(scratch, ignore_errors=True)


if __name__ == '__main__':
    main()

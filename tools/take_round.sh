#!/bin/bash
# take_round.sh <Cxx> <outdir-root> <worktree-prefix> : import confirmed seeded changes of one property, drop its scratch worktree, run selftest on the new ones
set -u
pid=$1; root=$2; wt=$3
cd /verif
before=$(ls seeded | grep -c "^$pid-")
/venv/bin/python tools/import_seeded.py $pid $root/$pid 2>&1 | grep -v WARNING
git -C /repo worktree remove --force $wt$pid 2>/dev/null
after=$(ls seeded | grep -c "^$pid-")
new=""
for i in $(seq $((before+1)) $after); do new="$new seeded/$pid-s$i/patch.diff"; done
[ -n "$new" ] && /venv/bin/python selftest.py $new 2>&1 | grep -v WARNING | tail -$((after-before+4))

#!/bin/bash
# take_round.sh <Cxx> <outdir-root> <worktree-prefix> : import confirmed seeded changes of one property, drop its scratch worktree, run selftest on the new ones
set -u
pid=$1; root=$2; wt=$3
cd /verif
ls seeded | grep "^$pid-" | sort > /tmp/.take_before_$pid
/venv/bin/python tools/import_seeded.py $pid $root/$pid 2>&1 | grep -v WARNING
git -C /repo worktree remove --force $wt$pid 2>/dev/null
new=""
for d in $(ls seeded | grep "^$pid-" | sort | comm -13 /tmp/.take_before_$pid -); do new="$new seeded/$d/patch.diff"; done
rm -f /tmp/.take_before_$pid
[ -n "$new" ] && /venv/bin/python selftest.py $new 2>&1 | grep -v WARNING | tail -8

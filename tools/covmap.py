#!/venv/bin/python
"""covmap.py <Cxx> [tier] : which statement lines of /repo/pytoniq_core does the check's workload execute?

Reach measurement for the monitors (not a verdict): sys.monitoring LINE events, each location reported once (DISABLE after the
first hit, so the cost is negligible).  Prints per file executed/executable lines and the unexecuted line ranges; writes
.work/cov-<Cxx>.json.  Uses tool id 4 (the step counter of C19 uses 3)."""
import importlib, json, os, random, sys, glob, collections
HERE = os.path.dirname(os.path.dirname(os.path.abspath(__file__)))
sys.path.insert(0, HERE)
os.environ.setdefault('VERIF_NO_EVIDENCE', '1')
from lib import mon

def executable_lines(path):
    src = open(path).read()
    code = compile(src, path, 'exec')
    lines = set()
    todo = [code]
    while todo:
        c = todo.pop()
        if c.co_flags & 0x1:          # function bodies only: module and class bodies ran at import, before monitoring starts
            for _, _, ln in c.co_lines():
                if ln and ln != c.co_firstlineno:
                    lines.add(ln)
        for k in c.co_consts:
            if hasattr(k, 'co_lines'):
                todo.append(k)
    return lines

def main():
    pid = sys.argv[1].upper(); tier = sys.argv[2] if len(sys.argv) > 2 else 'quick'
    root = os.path.join(mon.REPO, 'pytoniq_core') + os.sep
    hits = collections.defaultdict(set)
    m = sys.monitoring
    m.use_tool_id(4, 'verif-cov')
    def line(code, ln):
        f = code.co_filename
        if f.startswith(root):
            hits[f].add(ln)
        return m.DISABLE
    m.register_callback(4, m.events.LINE, line)
    mon.bind_repo()
    m.set_events(4, m.events.LINE)
    hit = glob.glob(os.path.join(HERE, 'checks', f'{pid.lower()}_*.py'))[0]
    mod = importlib.import_module('checks.' + os.path.basename(hit)[:-3])
    R = mon.Run(pid, tier, 0)
    R.rng = random.Random(17)
    mod.run(R)
    m.set_events(4, 0)
    rc = R.finish(getattr(mod, 'LEVEL', 'exploration'))
    out = {}
    for f in sorted(glob.glob(root + '**/*.py', recursive=True)):
        ex = executable_lines(f)
        got = hits.get(f, set()) & ex
        out[os.path.relpath(f, mon.REPO)] = {'executable': len(ex), 'executed': len(got), 'missed': sorted(ex - got)}
    os.makedirs(os.path.join(HERE, '.work'), exist_ok=True)
    json.dump(out, open(os.path.join(HERE, '.work', f'cov-{pid}.json'), 'w'))
    for f, v in out.items():
        if v['executed']:
            print(f"{f:50s} {v['executed']:5d}/{v['executable']:5d}")
    sys.exit(rc)

main()

#!/venv/bin/python
"""CLI of the runtime-monitoring harness:  run.py <Cxx> [--tier quick|thorough] [--replay path] [--shard i/n --out file]

exit 0 = held on everything explored, 1 = violation (VIOLATION line printed), 2 = inconclusive."""
import argparse
import glob
import importlib
import json
import os
import random
import subprocess
import sys
import time

HERE = os.path.dirname(os.path.abspath(__file__))
sys.path.insert(0, HERE)
os.environ.setdefault('PYTHONHASHSEED', '0')
os.environ.setdefault('PYTHONDONTWRITEBYTECODE', '1')

from lib import mon  # noqa: E402


def find_check(pid):
    hits = glob.glob(os.path.join(HERE, 'checks', f'{pid.lower()}_*.py'))
    if len(hits) != 1:
        print(f'INCONCLUSIVE property={pid} reason=no-check-module')
        sys.exit(2)
    return 'checks.' + os.path.basename(hits[0])[:-3]


def escaped(R, e, where=''):
    """an exception escaped the workload driver.  Raised by the library itself (innermost frame in the repository under test) during a use the driver
    makes unguarded because it is valid and succeeds on the unchanged tree: that is an observation - a valid operation was refused - and is reported as a
    violation with the traceback as witness.  Raised by the harness' own code: not an observation, the run is inconclusive."""
    import traceback
    tb = traceback.extract_tb(e.__traceback__)
    text = where + ''.join(traceback.format_exception(type(e), e, e.__traceback__))[-2500:]
    inner = tb[-1] if tb else None
    if inner is not None and os.path.realpath(inner.filename).startswith(mon.REPO + os.sep):
        fn = f'{os.path.basename(inner.filename)[:-3]}.{inner.name}'
        R.counters['oracle_evaluations'] += 1
        R.violation(f'library-raised-on-valid-use-{type(e).__name__}-{fn}', f'{type(e).__name__} raised by {fn} during an operation that is valid and succeeds on the '
                    f'unchanged tree: {e!r}', {'traceback': text})
        R.inconc('workload-cut-short-by-library-exception')
    else:
        R.inconc(f'harness-exception-{type(e).__name__}')
        R.extra['harness_traceback'] = [text]
    sys.stderr.write(text + '\n')


def main():
    ap = argparse.ArgumentParser()
    ap.add_argument('pid')
    ap.add_argument('--tier', default=os.environ.get('VERIF_TIER', 'quick'), choices=['quick', 'thorough'])
    ap.add_argument('--replay')
    ap.add_argument('--shard', default=None)
    ap.add_argument('--out', default=None)
    ap.add_argument('--shards', type=int, default=None)
    a = ap.parse_args()
    pid = a.pid.upper()
    seed = int(os.environ.get('VERIF_SEED', '0') or 0)
    if os.environ.get('PYTHONHASHSEED') != '0' or not sys.flags.dont_write_bytecode:
        # re-exec once so that hashing order is deterministic and nothing is written into the repo
        env = dict(os.environ, PYTHONHASHSEED='0', PYTHONDONTWRITEBYTECODE='1')
        os.execve(sys.executable, [sys.executable, '-X', 'faulthandler'] + sys.argv, env)
    import resource
    lim = int(os.environ.get('VERIF_MEM_GB', '12')) << 30
    resource.setrlimit(resource.RLIMIT_AS, (lim, lim))       # a runaway case must die, not take the machine down
    modname = find_check(pid)
    mon.bind_repo()
    mod = importlib.import_module(modname)
    level = getattr(mod, 'LEVEL', 'exploration')

    if a.replay:
        R = mon.Run(pid, a.tier, seed, replay=a.replay)
        R.rng = random.Random(seed)
        rec = json.load(open(a.replay))
        mod.replay(R, mon.unjson(rec.get('witness')), rec)
        R.counters['oracle_evaluations'] += 0
        sys.exit(R.finish(level))

    nshards = a.shards or (getattr(mod, 'SHARDS', 1) if a.tier == 'thorough' else 1)
    if a.shard is not None:
        i, n = map(int, a.shard.split('/'))
        R = mon.Run(pid, a.tier, seed, shard=i, nshards=n)
        R.rng = random.Random(seed * 1000003 + i * 7919 + 17)
        try:
            mod.run(R)
        except mon.Watchdog:
            R.inconc('watchdog')
        except Exception as e:
            escaped(R, e, f'shard {i}/{n}: ')
        with open(a.out, 'w') as f:
            json.dump(R.dump_state(), f, default=repr)
        sys.exit(0)

    if nshards == 1:
        R = mon.Run(pid, a.tier, seed)
        R.rng = random.Random(seed * 1000003 + 17)
        try:
            mod.run(R)
        except mon.Watchdog:
            R.inconc('watchdog')
        except Exception as e:
            escaped(R, e)
        sys.exit(R.finish(level))

    # fan out: fresh interpreter per shard, bounded by a generous wall-clock watchdog (inconclusive if it fires)
    work = os.path.join(HERE, '.work', f'{pid}-{os.getpid()}')
    os.makedirs(work, exist_ok=True)
    R = mon.Run(pid, a.tier, seed, nshards=nshards)
    timeout = getattr(mod, 'SHARD_TIMEOUT', 3600)
    procs = []
    maxpar = min(nshards, int(os.environ.get('VERIF_JOBS', '16')))
    pending = list(range(nshards))
    running = {}
    done = {}
    while pending or running:
        while pending and len(running) < maxpar:
            i = pending.pop(0)
            out = os.path.join(work, f'shard{i}.json')
            p = subprocess.Popen([sys.executable, '-X', 'faulthandler', os.path.abspath(__file__), pid, '--tier', a.tier,
                                  '--shard', f'{i}/{nshards}', '--out', out],
                                 stdout=subprocess.PIPE, stderr=subprocess.STDOUT, text=True)
            running[i] = (p, out, time.time())
        time.sleep(0.2)
        for i, (p, out, t0) in list(running.items()):
            rc = p.poll()
            if rc is None:
                if time.time() - t0 > timeout:
                    p.kill()
                    p.wait()
                    R.inconc(f'shard{i}-watchdog')
                    del running[i]
                continue
            txt = p.stdout.read()
            del running[i]
            if rc != 0 or not os.path.exists(out):
                R.inconc(f'shard{i}-died-rc{rc}')
                sys.stderr.write(txt[-3000:])
                continue
            R.merge_state(json.load(open(out)))
            os.remove(out)
    try:
        os.rmdir(work)
    except OSError:
        pass
    sys.exit(R.finish(level))


if __name__ == '__main__':
    main()

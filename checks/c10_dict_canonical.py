"""C10 - dictionaries use the canonical TON Hashmap encoding; the plain and augmented parsers accept every valid encoding
(any label kinds, pruned subtrees)."""
from lib import bridge, dictref, gen, mon, refcell as rc
from checks import c09_dict_roundtrip as c09

SHARDS = 16
SHARD_TIMEOUT = 7200
u = c09.u


def root_label_kind(bits):
    return 'short' if bits[:1] == '0' else ('long' if bits[:2] == '10' else 'same')


def region(n, m):
    """where (n, m) sits relative to TON's three decision boundaries (k = bitlen m): k<n, k<2n-1, n>1"""
    k = m.bit_length()
    return f'{"n>k" if n > k else "n=k" if n == k else "n<k"}|{"2n-1>k" if 2 * n - 1 > k else "2n-1=k" if 2 * n - 1 == k else "2n-1<k"}|{"n>1" if n > 1 else f"n={n}"}'


class Canon:
    def __init__(self, R):
        self.R = R
        from pytoniq_core.boc.hashmap.hashmap import HashMap
        self.HashMap = HashMap

    def one(self, m, keys_bits, vbits_of, why):
        """keys_bits: list of m-bit strings; value = vbits_of(key) bit string stored with store_bits"""
        R = self.R
        W = {'width': m, 'keys': keys_bits if m <= 80 else [k[:40] + '...' + k[-40:] for k in keys_bits], 'why': why}
        refmap = {k: (vbits_of(k), []) for k in keys_bits}
        log = []
        try:
            want = dictref.encode(refmap, m, kinds_log=log)
        except rc.RefError:
            R.count('canonical_skipped_does_not_fit')
            return
        hm = self.HashMap(m, value_serializer=lambda src, dest: dest.store_bits(src))
        st, e = mon.call(lambda: [hm.set_int_key(int(k, 2), vbits_of(k)) for k in keys_bits])
        if st == 'ok':
            st, e = mon.call(hm.serialize)
        if st == 'exc':
            R.exc(e)
            R.violation(f'canonical-serialize-raises-{type(e).__name__}', f'map that fits the canonical tree refused: {e!r}', W)
            return
        cell = e
        n, _, unif, kind = log[0]
        R.counters['oracle_evaluations'] += 1
        R.count('canonical_cases')
        got_kind = root_label_kind(cell.bits.to01())
        R.cover('root_kinds_by_region', (region(n, m), 'uniform' if unif else 'mixed', got_kind))
        if cell.hash != want.hash:
            if got_kind != kind:
                R.violation(f'label-kind-{kind}-written-as-{got_kind}-{region(n, m)}', f'root label (n={n}, m={m}, uniform={unif}) written as {got_kind}, '
                            f'TON writes {kind}', dict(W, n=n))
            else:
                R.violation('canonical-hash-differs', f'dictionary hash differs from the canonical Patricia tree (n={n}, m={m})', dict(W, n=n))


def label_cases(rng, n, m):
    """key sets of width m whose root label has length n: uniform-0, uniform-1 and mixed contents"""
    out = []
    rest = m - n
    pats = []
    if n == 0:
        pats.append(('', 'empty'))
    else:
        pats += [('0' * n, 'uniform0'), ('1' * n, 'uniform1')]
        if n >= 2:
            p = gen.rand_bits(rng, n)
            if p == p[0] * n:
                p = p[:-1] + ('1' if p[0] == '0' else '0')
            pats.append((p, 'mixed'))
    for p, name in pats:
        if rest == 0:
            out.append(([p], name))
        else:
            t0, t1 = gen.rand_bits(rng, rest - 1), gen.rand_bits(rng, rest - 1)
            out.append(([p + '0' + t0, p + '1' + t1], name))
    return out


def canonical_part(R, rng, quick):
    C = Canon(R)
    vb = lambda k: '1'
    todo = []
    if quick:
        for m in range(1, 49):
            for n in range(0, m + 1):
                todo.append((n, m))
        ms = sorted(set(range(49, 1024, 5)) | {2 ** i + d for i in range(5, 10) for d in (-1, 0, 1)} | {1020, 1021, 1022, 1023})
        for m in ms:
            k = m.bit_length()
            band = {0, 1, 2, 3, k - 1, k, k + 1, (k + 1) // 2 - 1, (k + 1) // 2, (k + 1) // 2 + 1, (k + 2) // 2 + 1, m - 1, m}
            for n in sorted(band):
                if 0 <= n <= m:
                    todo.append((n, m))
    else:
        i = 0
        for m in range(1, 1024):
            for n in range(0, m + 1):
                i += 1
                if i % R.nshards == R.shard:
                    todo.append((n, m))
    for n, m in todo:
        for keys, name in label_cases(rng, n, m):
            C.one(m, keys, vb, f'label n={n} m={m} {name}')
            R.case(mon.fp('canon', n, m, name))
        R.cover('k_classes', m.bit_length())
    if not quick:
        R.extra.setdefault('exhaustive_subspaces', []).append('every (n, m) with 0 <= n <= m <= 1023 as root label length / key width, uniform-0, uniform-1 and mixed contents')
    else:
        R.extra.setdefault('exhaustive_subspaces', []).append('every (n, m) with 0 <= n <= m <= 48; for sampled larger m the bands around the three tie-break boundaries')
    # mirrored subtrees whose values are EQUAL as Python objects but encode differently (Address.__eq__ ignores the anycast prefix; a user class with a loose __eq__):
    # the canonical tree is decided by the encodings, never by == of the values
    if R.shard == 0:
        from pytoniq_core.boc.address import Address
        from pytoniq_core.boc.hashmap.hashmap import HashMap
        B_ = bridge.lib()
        for w in (2, 3, 8, 16):
            for depth in (1, 7):
                plain = Address((0, rng.randbytes(32)))
                anyc = Address((plain.wc, plain.hash_part))
                anyc.set_anycast(depth, rng.getrandbits(depth) | 1)
                low = rng.getrandbits(w - 1)
                for first, second in ((anyc, plain), (plain, anyc)):
                    pairs = {low: first, low | (1 << (w - 1)): second}        # the same suffix under the root's left and right child
                    enc = lambda a: B_.Builder().store_address(a).end_cell().bits.to01()
                    want = dictref.encode({u(k, w): (enc(v), []) for k, v in pairs.items()}, w)
                    hm = HashMap(w).with_address_values()
                    for k, v in pairs.items():
                        hm.set_int_key(k, v)
                    st, cell = mon.call(hm.serialize)
                    R.counters['oracle_evaluations'] += 1
                    R.count('equal_but_differently_encoded_values')
                    R.check(st == 'ok' and cell.hash == want.hash, 'canonical-hash-differs-values-equal-but-encoded-differently',
                            f'two mirrored entries whose Address values compare equal but encode differently (anycast depth {depth}): the dictionary is not the canonical tree of the encodings',
                            {'width': w, 'anycast_depth': depth, 'anycast_first': first is anyc})

        class Loose:
            def __init__(self, n):
                self.n = n

            def __eq__(self, other):
                return True

            def __hash__(self):
                return 1
        for w in (2, 5):
            pairs = {1: Loose(3), 1 | (1 << (w - 1)): Loose(200)}
            want = dictref.encode({u(k, w): (u(v.n, 8), []) for k, v in pairs.items()}, w)
            hm = HashMap(w, value_serializer=lambda src, dest: dest.store_uint(src.n, 8))
            for k, v in pairs.items():
                hm.set_int_key(k, v)
            st, cell = mon.call(hm.serialize)
            R.count('equal_but_differently_encoded_values')
            R.check(st == 'ok' and cell.hash == want.hash, 'canonical-hash-differs-values-equal-but-encoded-differently',
                    'two mirrored entries whose values compare equal (a user class) but encode differently: the dictionary is not the canonical tree of the encodings', {'width': w})
    # random maps: whole-tree canonical hash incl. inner labels where m shrinks along the path
    vks = [v for v in c09.value_kinds()]
    M = c09.DictMonitor(R)
    try:
        widths = [1, 2, 3, 4, 5, 8, 9, 16, 31, 32, 64, 65, 128, 256, 267, 512, 700]
        for rnd in range(3 if quick else 40):
            for wi, w in enumerate(widths):
                if R.nshards > 1 and (wi + rnd) % R.nshards != R.shard:
                    continue
                for sname, keys in c09.key_shapes(rng, w, 40 if quick else 300).items():
                    vk = rng.choice(c09.fitting(vks, w))
                    m_ = {k: vk.gen(rng) for k in keys}
                    refmap = {u(k, w): (vk.bits(v), [bridge.from_lib(x) for x in M._value_refs(vk, v)]) for k, v in m_.items()}
                    try:
                        log = []
                        want = dictref.encode(refmap, w, kinds_log=log)
                    except rc.RefError:
                        R.count('canonical_skipped_does_not_fit')
                        continue
                    order = list(m_)
                    rng.shuffle(order)
                    st, hm = mon.call(M.build, w, [(k, m_[k]) for k in order], vk)
                    if st == 'ok':
                        st, hm = mon.call(hm.serialize)
                    W = {'width': w, 'keys': [str(k) for k in sorted(keys)[:40]], 'nkeys': len(keys), 'value_kind': vk.name, 'shape': sname}
                    if st == 'exc':
                        R.exc(hm)
                        R.violation(f'canonical-serialize-raises-{type(hm).__name__}', f'map that fits the canonical tree refused: {hm!r}', W)
                        continue
                    R.check(hm.hash == want.hash, 'canonical-hash-differs-random-map', 'dictionary hash differs from the canonical Patricia tree', W)
                    R.count('canonical_random_maps')
                    for (n, mm, unif, kind) in log:
                        R.cover('inner_label_regions', (region(n, mm), kind))
                    R.case(mon.fp('canonmap', w, tuple(sorted(keys)), vk.name), sample=W if len(keys) > 1 else None)
    finally:
        M.close()


def canonical_histories(R, rng, quick):
    """the cell produced must be the canonical tree of the map AS IT IS NOW: serialise, mutate (new key / overwrite, both mutators), serialise again"""
    from pytoniq_core.boc.hashmap.hashmap import HashMap
    for it in range(40 if quick else 800):
        w = rng.choice([1, 2, 4, 8, 16, 32, 64, 256])
        hm = HashMap(w).with_uint_values(8)
        model, steps = {}, []
        for step in range(rng.randint(3, 8)):
            op = rng.choice(['add-set_int_key', 'add-set', 'overwrite-set_int_key', 'overwrite-set', 'serialize'])
            if op != 'serialize':
                k = rng.choice(sorted(model)) if (op.startswith('overwrite') and model) else rng.getrandbits(w)
                v = rng.getrandbits(8)
                (hm.set_int_key if op.endswith('set_int_key') else hm.set)(k, v)
                model[k] = v
            steps.append(op)
            if not model:
                continue
            W = {'width': w, 'steps': list(steps), 'model': {str(k): v for k, v in sorted(model.items())[:20]}}
            st, cell = mon.call(hm.serialize)
            want = dictref.encode({u(k, w): (u(v, 8), []) for k, v in model.items()}, w)
            R.counters['oracle_evaluations'] += 1
            R.count('canonical_history_steps')
            if st == 'exc' or cell is None or cell.hash != want.hash:
                R.violation(f'canonical-stale-after-{op}', f'after {steps} serialize() does not return the canonical tree of the current map', W)
                break
        R.case(mon.fp('chist', w, tuple(steps), tuple(sorted(model.items()))))


# ------------------------------------------------------------------------------------------- parser half
def lib_slice_value(s):
    return s.bits.to01(), [r.hash for r in s.refs[s.ref_offset:]]


def parser_part(R, rng, quick):
    from pytoniq_core.boc import Builder
    from pytoniq_core.boc.hashmap.hashmap import HashMap
    from pytoniq_core.boc.hashmap.parse import parse_hashmap, parse_hashmap_aug
    widths = [1, 2, 3, 4, 5, 8, 9, 16, 31, 32, 33, 64, 128, 256, 267, 400]
    nrounds = 3 if quick else 40
    XB = 16
    for rnd in range(nrounds):
        for wi, w in enumerate(widths):
            if R.nshards > 1 and (wi + rnd) % R.nshards != R.shard:
                continue
            for sname, keys in c09.key_shapes(rng, w, 24 if quick else 120).items():
                vbits = {u(k, w): gen.rand_bits(rng, rng.choice([0, 1, 8, 33])) for k in keys}
                leafref = rc.RC(gen.rand_bits(rng, 12))
                refmap = {k: (b, [leafref] if rng.random() < 0.2 else []) for k, b in vbits.items()}
                for variant in ('plain', 'plain-pruned', 'aug', 'aug-pruned', 'aug-refs', 'aug-refs-pruned'):
                    aug = (lambda v: (len(v[0]) * 7 + 1) & 0xFFFF, lambda a, b: (a + b) & 0xFFFF, XB) if variant.startswith('aug') else None
                    aug_dec = XB if aug else None
                    if variant.startswith('aug-refs'):
                        # augmentation values that carry a reference when odd (as DepthBalanceInfo / CurrencyCollection do with extra currencies):
                        # in a leaf the extra's reference precedes the value's references, in a fork it follows the two children
                        aug = (lambda v: (len(v[0]) * 7 + len(v[1])) & 0xFFFF, lambda a, b: (a + b) & 0xFFFF,
                               lambda x: (u(x, XB), [rc.RC(u(x, XB) + '1')] if x & 1 else []))
                        aug_dec = lambda bits, pos, refs, ri: ((int(bits[pos:pos + XB], 2), refs[ri].hash if int(bits[pos:pos + XB], 2) & 1 else None),
                                                               pos + XB, ri + (int(bits[pos:pos + XB], 2) & 1))
                    prune = (lambda path, cell: rng.random() < 0.25) if variant.endswith('pruned') else None
                    chooser = lambda n, mm, un: rng.choice(dictref.valid_kinds(n, mm, un))
                    log = []
                    tree = None
                    for attempt in range(4):
                        try:
                            log = []
                            tree = dictref.encode(refmap, w, chooser if attempt < 3 else None, aug=aug, prune=prune, kinds_log=log)
                            break
                        except rc.RefError:
                            continue
                    if tree is None or tree.type != rc.ORD:
                        R.count('parser_skipped_does_not_fit')
                        continue
                    want_leaves, want_extras, pruned = dictref.decode(tree, w, aug_dec)
                    W = {'width': w, 'variant': variant, 'boc': rc.encode_boc([tree]).hex() if len(keys) < 40 else None, 'nkeys': len(keys), 'shape': sname,
                         'label_kinds': sorted({k for *_, k in log}), 'pruned_prefixes': pruned[:8]}
                    for route in ('builder', 'boc'):
                        try:
                            cell = bridge.to_lib(tree, route)
                        except Exception as e:
                            R.violation(f'cannot-build-valid-tree-{route}-{type(e).__name__}', f'spec-valid dictionary tree cannot be constructed: {e!r}', W)
                            continue
                        wl = {k: (b, [x.hash for x in refs]) for k, (b, refs) in want_leaves.items()}
                        if not aug:
                            calls = [('parse_hashmap', lambda: {k: lib_slice_value(v) for k, v in parse_hashmap(cell.begin_parse(), w).items()}),
                                     ('HashMap.parse', lambda: {u(k, w): lib_slice_value(v) for k, v in HashMap.parse(cell.begin_parse(), w).items()}),
                                     ('load_hashmap', lambda: {u(k, w): lib_slice_value(v) for k, v in cell.begin_parse().load_hashmap(w).items()}),
                                     ('load_dict', lambda: {u(k, w): lib_slice_value(v) for k, v in
                                                            Builder().store_dict(cell).end_cell().begin_parse().load_dict(w).items()})]
                            if len(tree.bits) + 3 <= 1023 and len(tree.refs) <= 3 and len(want_leaves) + len(pruned) > 1:
                                # the root written inline (Hashmap n X) behind another field whose reference was consumed before
                                def inline_root():
                                    s_ = Builder().store_ref(Builder().store_uint(9, 4).end_cell()).store_uint(5, 3).store_cell(cell).end_cell().begin_parse()
                                    s_.load_ref()
                                    s_.skip_bits(3)
                                    return {u(k, w): lib_slice_value(v) for k, v in s_.load_hashmap(w).items()}
                                calls.append(('load_hashmap-inline-after-consumed-ref', inline_root))
                            for cname, f in calls:
                                st, got = mon.call(f)
                                R.count('parser_calls_' + cname)
                                R.counters['oracle_evaluations'] += 1
                                if st == 'exc':
                                    R.exc(got)
                                    R.violation(f'parser-raises-{cname}-{type(got).__name__}-{"pruned" if pruned else "full"}',
                                                f'{cname} raised {got!r} on a spec-valid Hashmap tree (label kinds {W["label_kinds"]})', W)
                                    continue
                                if got != wl:
                                    missing = sorted(set(wl) - set(got))
                                    R.violation(f'parser-differs-{cname}-{"pruned" if pruned else "full"}', f'{cname}: leaves differ from the tree: missing {len(missing)}, '
                                                f'extra {len(set(got) - set(wl))}, wrong values {sum(1 for k in got if k in wl and got[k] != wl[k])}', W)
                        else:
                            xd = lambda s: lib_slice_value(s)
                            yd = lambda s: s.load_uint(XB)
                            if variant.startswith('aug-refs'):
                                def yd(s):
                                    x = s.load_uint(XB)
                                    return (x, s.load_ref().hash if x & 1 else None)
                                R.count('aug_ref_extras', sum(1 for x in want_extras if x[1] is not None))
                            root_extra = int(tree.bits[-XB:], 2) if len(want_leaves) + len(pruned) > 1 else None
                            calls = [('parse_hashmap_aug', lambda: parse_hashmap_aug(cell.begin_parse(), w, xd, yd)),
                                     ('load_hashmap_aug', lambda: cell.begin_parse().load_hashmap_aug(w, xd, yd)),
                                     ('load_hashmap_aug_e', lambda: Builder().store_bit(1).store_ref(cell).store_uint(0xABCD, XB).end_cell().begin_parse()
                                      .load_hashmap_aug_e(w, xd, yd))]
                            for cname, f in calls:
                                st, got = mon.call(f)
                                R.count('parser_calls_' + cname)
                                R.counters['oracle_evaluations'] += 1
                                if st == 'exc':
                                    R.exc(got)
                                    R.violation(f'parser-raises-{cname}-{type(got).__name__}-{"pruned" if pruned else "full"}',
                                                f'{cname} raised {got!r} on a spec-valid HashmapAug tree (label kinds {W["label_kinds"]})', W)
                                    continue
                                try:
                                    gl, gx = got
                                    gl = {u(k, w): v for k, v in gl.items()}
                                except Exception as e:
                                    R.violation(f'parser-result-shape-{cname}', f'{cname} returned {mon.srepr(got)}', W)
                                    continue
                                if gl != wl:
                                    R.violation(f'parser-differs-{cname}-{"pruned" if pruned else "full"}', f'{cname}: leaves differ from the tree: missing '
                                                f'{len(set(wl) - set(gl))}, extra {len(set(gl) - set(wl))}', W)
                                if sorted(gx, key=repr) != sorted(want_extras, key=repr):
                                    R.violation(f'aug-extras-differ-{cname}-{"pruned" if pruned else "full"}', f'{cname}: augmentation values lost/duplicated/misread: '
                                                f'{len(gx)} returned, {len(want_extras)} in the unpruned tree', dict(W, got=gx[:20], want=want_extras[:20]))
                                R.count('aug_extras_compared', len(want_extras))
                    R.count('parser_trees')
                    R.count('parser_trees_' + variant)
                    for (n, mm, unif, kind) in log:
                        R.cover('parsed_label_kinds', (kind, 'n=0' if n == 0 else 'n=m' if n == mm else 'mid', 'm=0' if mm == 0 else 'm>0'))
                    if pruned:
                        R.count('parser_trees_with_pruned')
                        R.count('pruned_subtrees', len(pruned))
                    R.case(mon.fp('parse', w, variant, tuple(sorted(vbits)), tuple(k for *_, k in log)),
                           sample={'width': w, 'variant': variant, 'nkeys': len(keys), 'label_kinds': [k for *_, k in log][:12], 'pruned': len(pruned)})
    # empty augmented dictionary: ahme_empty$0 extra:Y
    st, got = mon.call(lambda: Builder().store_bit(0).store_uint(77, XB).end_cell().begin_parse().load_hashmap_aug_e(32, lambda s: s, lambda s: s.load_uint(XB)))
    R.check(st == 'ok' and got[0] == {}, 'aug-empty', f'empty HashmapAugE: {got!r}'[:200], {})
    R.case(None)


def deep_trees(R):
    """spec-valid dictionaries nesting 450 / 600 / 1000 forks (encoded by the reference under a raised recursion limit), parsed by the library under Python's default limit"""
    import sys
    from pytoniq_core.boc.hashmap.parse import parse_hashmap
    from pytoniq_core.boc import Builder
    w = 1023
    for depth in (450, 600, 1000):
        old = sys.getrecursionlimit()
        sys.setrecursionlimit(30000)
        try:
            m = {u((1 << i) - 1, w): (u(i % 251, 8), []) for i in range(1, depth + 1)}
            tree = dictref.encode(m, w)
            cell = bridge.to_lib(tree, 'builder')
        finally:
            sys.setrecursionlimit(1000)
        try:
            W = {'width': w, 'nested_forks': depth, 'recursion_limit': 1000}
            for cname, f in (('parse_hashmap', lambda: {k: v.load_uint(8) for k, v in parse_hashmap(cell.begin_parse(), w).items()}),
                             ('load_dict', lambda: {u(k, w): v.load_uint(8) for k, v in Builder().store_dict(cell).end_cell().begin_parse().load_dict(w).items()})):
                st, got = mon.call(f)
                R.counters['oracle_evaluations'] += 1
                R.count('deep_tree_cases')
                if st == 'exc':
                    R.exc(got)
                    R.violation('recursion-limit-nested-forks-parse' if isinstance(got, RecursionError) and depth >= 600 else f'deep-tree-{depth}-{cname}-raises-{type(got).__name__}',
                                f'{cname} raised {type(got).__name__} on a spec-valid dictionary nesting {depth} forks', W)
                    continue
                R.check(got == {k: int(v[0], 2) for k, v in m.items()}, f'deep-tree-differs-{cname}', f'{cname}: a dictionary nesting {depth} forks is parsed to other pairs', W)
        finally:
            sys.setrecursionlimit(old)


def run(R):
    rng = R.rng
    quick = R.tier == 'quick'
    R.rule = ('canonical half: for (label length n, key width m, label contents uniform/mixed) a 1-2 key map whose root label is exactly that; the library cell hash '
              'is compared with the canonical tree of an independent encoder (dict.cpp label rule); plus random maps over hostile key shapes (inner labels). '
              'parser half: random maps re-encoded by the reference with every label drawn from the kinds valid for it (short/long/same incl. zero-length), '
              'optionally as HashmapAug with uint16 extras (with and without a reference inside the extra), optionally with random subtrees replaced by pruned branches; every plain/augmented parser entry '
              'point must return exactly the leaves (and extras) of the unpruned part. distinct = distinct (n,m,contents) or (width, keys, variant, label kinds); '
              'non-trivial = all')
    R.assumptions = ['R4 (lib/dictref.py) implements hashmap.tlb and the label selection of TON crypto/vm/dict.cpp', 'the general workload keeps fork nesting <= 400; dictionaries nesting 450 / 600 / 1000 forks are parsed separately under the default recursion limit (RecursionError beyond ~490 is a recorded known finding)',
                     'order of returned augmentation values is not judged (multiset comparison)']
    inv = bridge.CellInvariant(R).install()
    try:
        canonical_part(R, rng, quick)
        canonical_histories(R, rng, quick)
        parser_part(R, rng, quick)
    finally:
        inv.uninstall()
    if R.shard == 0:
        deep_trees(R)
    R.floor('canonical_cases', 5000 if quick else 100000)
    R.floor('canonical_random_maps', 100)
    R.floor('canonical_history_steps', 100)
    R.floor('parser_trees', 300)
    R.floor('parser_trees_with_pruned', 50)
    R.floor('aug_extras_compared', 500)
    R.floor('aug_ref_extras', 100)
    R.floor('parsed_label_kinds', 10, 'set')


def replay(R, witness, rec):
    from pytoniq_core.boc import Cell
    from pytoniq_core.boc.hashmap.parse import parse_hashmap, parse_hashmap_aug
    R.case(None)
    if witness.get('boc'):
        dec = rc.decode_boc(bytes.fromhex(witness['boc']), strict_distinct=False)
        tree = dec['roots'][0]
        w = witness['width']
        aug = witness['variant'].startswith('aug')
        if witness['variant'].startswith('aug-refs'):
            R.inconc('replay-not-supported-for-aug-refs')
            return
        want_leaves, want_extras, pruned = dictref.decode(tree, w, 16 if aug else None)
        wl = {k: (b, [x.hash for x in refs]) for k, (b, refs) in want_leaves.items()}
        cell = bridge.to_lib(tree, 'builder')
        if aug:
            st, got = mon.call(lambda: parse_hashmap_aug(cell.begin_parse(), w, lib_slice_value, lambda s: s.load_uint(16)))
            ok = st == 'ok' and {u(k, w): v for k, v in got[0].items()} == wl and sorted(got[1]) == sorted(want_extras)
        else:
            st, got = mon.call(lambda: {k: lib_slice_value(v) for k, v in parse_hashmap(cell.begin_parse(), w).items()})
            ok = st == 'ok' and got == wl
        R.check(ok, rec.get('key', 'replay'), f'replayed tree still mis-parsed: {mon.srepr(got)}', witness)
    elif 'why' in witness:
        C = Canon(R)
        keys = witness['keys']
        if any('...' in k for k in keys):
            R.inconc('replay-witness-truncated')
            return
        C.one(witness['width'], keys, lambda k: '1', witness['why'])
    else:
        R.inconc('replay-not-supported-for-this-witness')

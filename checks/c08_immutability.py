"""C08 - cells are immutable values; derived objects are isolated snapshots; calls carry no hidden state.
M-SNAP registry re-validated after every operation of random operation histories."""
from bitarray import bitarray

from lib import bridge, gen, mon, refcell as rc

SHARDS = 16
OPTS = [(False, False, False), (True, False, False), (False, True, False), (True, True, False), (True, False, True), (True, True, True)]


class Registry:
    def __init__(self, R):
        self.R = R
        self.items = {}     # id(cell) -> (cell, snapshot)

    def snap(self, c, with_boc):
        s = {'hash': c.hash, 'bits': c.bits.to01(), 'refs': tuple(id(x) for x in c.refs), 'ref_hashes': tuple(x.hash for x in c.refs),
             'type': c.type_, 'mask': c.level_mask.mask, 'depth': c.get_depth(0),
             'levels': tuple((c.get_hash(l), c.get_depth(l)) for l in range(4)), 'repr_hash': mon.call(c.calculate_representation_hash)[0] == 'ok' and c.calculate_representation_hash()}
        if with_boc:
            s['boc'] = tuple(c.to_boc(*o) for o in OPTS)
        return s

    def add(self, c, origin):
        if id(c) in self.items:
            return
        small = len(self.items) < 400
        snap = self.snap(c, small)
        self.items[id(c)] = (c, snap, origin)
        self.R.count('cells_registered')
        if small:
            # no state carried between calls: an object graph with no history at all (parsed afresh from an independent encoding of the
            # same DAG) must serialise to the very same bytes as this cell, whatever was called on this cell, its parents or children before
            try:
                from pytoniq_core.boc import Cell
                fresh = Cell.one_from_boc(rc.encode_boc([bridge.from_lib(c)]))
                want = tuple(fresh.to_boc(*o) for o in OPTS)
            except rc.RefError:
                want = None
            if want is not None:
                self.R.count('fresh_clone_comparisons')
                self.R.check(want == snap['boc'], 'to_boc-depends-on-history', f'a cell (from {origin}) serialises differently from a freshly parsed copy of the '
                             'same DAG: the result depends on calls made before', {'origin': origin, 'bits': snap['bits'][:64], 'nrefs': len(c.refs)})
        for x in c.refs:
            self.add(x, origin + '>ref')

    def validate(self, after_op, trace):
        R = self.R
        R.count('registry_validations')
        for cid, (c, s, origin) in self.items.items():
            now = self.snap(c, 'boc' in s)
            if now != s:
                diff = [k for k in s if s[k] != now[k]]
                R.violation(f'cell-changed-{"+".join(diff)}-after-{after_op}', f'a live cell (from {origin}) changed its {diff} after operation {after_op}',
                            {'trace': trace[-15:], 'origin': origin, 'bits_before': s['bits'][:64], 'bits_now': now['bits'][:64]})
                self.items[cid] = (c, now, origin)
            R.counters['oracle_evaluations'] += 1


def order_post(R, c, result, trace, how):
    """Cell.order returns exactly the set of cells reachable from its receiver"""
    reach = set()
    stack = [c]
    while stack:
        x = stack.pop()
        if x.hash in reach:
            continue
        reach.add(x.hash)
        stack.extend(x.refs)
    got = [k.hash for k in result]
    R.count('order_postconditions')
    R.check(len(got) == len(set(got)) and set(got) == reach, f'order-not-reachable-set-{how}',
            f'order() ({how}) returned {len(got)} cells, {len(reach)} are reachable from the receiver', {'trace': trace[-15:]})
    pos = {h: i for i, h in enumerate(got)}
    for k in result:
        for x in k.refs:
            if x.hash in pos and k.hash in pos:
                R.check(pos[x.hash] > pos[k.hash], 'order-not-topological', 'order() puts a child before its parent', {'trace': trace[-15:]})


def history(R, B, rng, n_ops, W):
    reg = Registry(R)
    trace = []
    cells, slices, builders, pure = [], [], [], []

    def new_cell(c, origin):
        cells.append(c)
        reg.add(c, origin)
        if len(cells) > 12:
            cells.pop(rng.randrange(len(cells)))

    touched = []      # derived objects the current operation is allowed to change

    def dstate(o):
        return (o.bits.to01(), tuple(id(x) for x in o.refs), getattr(o, 'ref_offset', None))

    def note(op):
        trace.append(op)
        R.count(f'op:{op}')
        if len(trace) > 1:
            R.cover('transitions', (trace[-2], op))

    # seed pool
    for i in range(3):
        r = gen.rand_dag(rng, rng.choice([1, 3, 8]), max_bits=rng.choice([12, 70, 600, 1000]))
        new_cell(bridge.to_lib(r, rng.choice(['builder', 'boc', 'direct_tvm', 'direct_plain'])), 'seed')
    from pytoniq_core.boc import HashMap
    hm = HashMap(16).with_uint_values(8)
    for k in rng.sample(range(65536), 5):
        hm.set_int_key(k, k % 256)
    dict_cell = hm.serialize()
    new_cell(dict_cell, 'hashmap')

    def op_parse():
        r = gen.rand_dag(rng, rng.choice([1, 2, 5]), max_bits=40)
        data = rc.encode_boc([r], has_idx=rng.random() < 0.5, has_crc=rng.random() < 0.5)
        lst = B.Cell.from_boc(data)
        new_cell(lst[0], 'from_boc')
        lst.append(None)
        lst.clear()           # mutating the returned list must not matter

    def op_begin_parse():
        c = rng.choice(cells)
        slices.append(rng.choice([c.begin_parse, lambda: B.Slice.from_cell(c), c.to_slice])())

    def op_load():
        if not slices:
            return op_begin_parse()
        s = rng.choice(slices)
        touched.append(s)
        k = rng.randrange(9)
        n = rng.randint(0, min(40, s.remaining_bits + 2))
        if k == 0:
            s.load_uint(max(1, n))
        elif k == 1:
            s.load_bits(n)
        elif k == 2:
            x = s.load_ref()
            new_cell(x, 'load_ref')
        elif k == 3:
            s.skip_bits(n)
        elif k == 4:
            s.load_bytes(n // 8)
        elif k == 5:
            s.load_bit()
        elif k == 6:
            s.load_coins()
        elif k == 7:
            s.load_address()
        else:
            s.load_int(max(1, n))

    def op_to_builder():
        c = rng.choice(cells)
        builders.append(c.to_builder() if rng.random() < 0.7 or not slices else rng.choice(slices).to_builder())

    def fresh_builder():
        # the optional size argument: a builder declared smaller than a cell, which the stores below then fill up to and beyond that size
        return B.Builder(size=rng.choice([8, 16, 64, 1023])) if rng.random() < 0.5 else B.Builder()

    def op_store():
        if not builders or rng.random() < 0.08:
            builders.append(fresh_builder())
        b = rng.choice(builders)
        touched.append(b)
        k = rng.randrange(8)
        if k == 0:
            b.store_uint(rng.getrandbits(9), 9)
        elif k == 1:
            b.store_bits(gen.rand_bits(rng, rng.randint(0, 30)))
        elif k == 2:
            b.store_ref(rng.choice(cells))
        elif k == 3:
            b.store_cell(rng.choice(cells))
        elif k == 4 and slices:
            b.store_slice(rng.choice(slices))
        elif k == 5:
            b.store_address(B.Address((0, rng.randbytes(32))))
        elif k == 6:
            b.store_maybe_ref(rng.choice(cells + [None]))
        else:
            b.store_coins(rng.getrandbits(40))

    def op_end_cell():
        if not builders:
            builders.append(fresh_builder().store_uint(5, 7))
        b = rng.choice(builders)
        new_cell(b.end_cell(), 'end_cell')

    def op_copy():
        if rng.random() < 0.5:
            new_cell(rng.choice(cells).copy(), 'copy')
        elif slices:
            slices.append(rng.choice(slices).copy())

    def op_to_cell():
        if slices:
            new_cell(rng.choice(slices).to_cell(), 'slice.to_cell')
        if builders and rng.random() < 0.3:
            slices.append(rng.choice(builders).to_slice())

    def op_to_boc():
        c = rng.choice(cells)
        o = rng.choice(OPTS)
        b1 = c.to_boc(*o)
        pure.append((f'to_boc{o}', c, lambda c=c, o=o: c.to_boc(*o), b1))
        new_cell(B.Cell.one_from_boc(b1), 'reparsed')

    def op_order():
        c = rng.choice(cells)
        if rng.random() < 0.5:
            res = c.order()
            order_post(R, c, res, trace, 'default-arg')
            res[B.Cell.empty()] = 5      # mutate what was returned: must not leak into later calls
            res.clear() if rng.random() < 0.5 else None
        else:
            d = {}
            res = c.order(d)
            order_post(R, c, res, trace, 'explicit-dict')
        pure.append(('order', c, lambda c=c: [k.hash for k in c.order()], [k.hash for k in c.order()]))

    def op_hashmap():
        c = rng.choice([dict_cell] + cells)
        if c is dict_cell:
            m = HashMap.from_cell(c, 16)
            d = HashMap.parse(c.begin_parse(), 16)
            for v in d.values():
                v.load_uint(8)
                v.bits.clear()
            pure.append(('HashMap.parse', c, lambda: sorted(HashMap.parse(dict_cell.begin_parse(), 16, value_deserializer=lambda s: s.load_uint(8)).items()),
                         sorted(HashMap.parse(dict_cell.begin_parse(), 16, value_deserializer=lambda s: s.load_uint(8)).items())))
            src = dict(m.map)
            m2 = HashMap(16, map_=src).with_uint_values(8)
            for k in src:
                src[k] = src[k].load_uint(8) if hasattr(src[k], 'load_uint') else src[k]
            before = dict(src)
            h1 = m2.serialize().hash
            h2 = m2.serialize().hash
            R.check(h1 == h2 == c.hash and src == before, 'hashmap-serialize-not-pure', 'HashMap.serialize twice differs / changed its map', {'trace': trace[-10:]})
        else:
            HashMap.parse(c.begin_parse(), 8)

    def op_tlb():
        from pytoniq_core.tlb.transaction import MessageAny
        from pytoniq_core.tlb.account import StateInit
        c = rng.choice(cells)
        rng.choice([MessageAny, StateInit]).deserialize(c.begin_parse())

    def op_mutate_derived():
        k = rng.randrange(6)
        if k == 0 and slices:
            s = rng.choice(slices)
            touched.append(s)
            s.bits.invert() if rng.random() < 0.5 else s.bits.clear()
        elif k == 1 and slices:
            s = rng.choice(slices)
            touched.append(s)
            s.refs.append(B.Cell.empty()) if rng.random() < 0.5 else (s.refs and s.refs.pop())
        elif k == 2 and builders:
            b = rng.choice(builders)
            touched.append(b)
            b.bits.invert()
        elif k == 3 and builders:
            b = rng.choice(builders)
            touched.append(b)
            b.refs.clear() if rng.random() < 0.5 else b.refs.reverse()
        elif k == 4:
            c = rng.choice(cells)
            s = c.begin_parse()
            s.bits.extend('1' * min(5, 1023 - len(s.bits)))
            s.refs.reverse()
        else:
            c = rng.choice(cells)
            cp = c.copy()
            cp.refs.clear()          # a copy's containers are its own
            cp.bits.clear()

    def op_direct_plain():
        n = rng.choice([0, 1, 3, 5, 7, 8, 9, 13, 64, 1023])
        ba = bitarray(gen.rand_bits(rng, n))
        before = ba.to01()
        refs = [rng.choice(cells)] if rng.random() < 0.5 else []
        refs_before = list(refs)
        c = B.Cell(ba, refs, -1)
        R.check(ba.to01() == before and refs == refs_before, 'constructor-changed-input', f'Cell(bitarray of {n} bits) changed the caller\'s bit array / ref list', {'n': n})
        c.hash, c.to_boc(), c.begin_parse().load_bits(n)
        R.check(ba.to01() == before, 'hash-or-serialise-changed-input', 'hashing/serialising a plain-bitarray cell changed the caller\'s array', {'n': n})
        new_cell(c, 'direct-plain')

    def op_recheck_pure():
        if not pure:
            return
        name, c, f, first = rng.choice(pure)
        again = f()
        R.count('pure_reevaluations')
        R.check(again == first, f'pure-call-differs-{name.split("(")[0]}', f'{name} gives a different result at a later point of the history', {'trace': trace[-15:]})

    def op_public_recompute():
        # public methods without arguments that recompute what the constructor computed: calling them again must change nothing
        # (the registry compares hash, per-level hashes / depths and the recomputed representation hash afterwards)
        if not reg.items:
            return
        c = rng.choice(list(reg.items.values()))[0]
        which = rng.choice(['calculate_hashes', 'resolve_mask', 'get_descriptors', 'get_data_bytes', 'get_representation', 'calculate_representation_hash'])
        R.count('public_recompute_calls')
        R.count('public_recompute_' + which)
        if which == 'get_descriptors':
            c.get_descriptors(c.level_mask)
        else:
            getattr(c, which)()

    ops = [('parse', op_parse, 2), ('public_recompute', op_public_recompute, 2), ('begin_parse', op_begin_parse, 3), ('load', op_load, 6), ('to_builder', op_to_builder, 2), ('store', op_store, 6),
           ('end_cell', op_end_cell, 3), ('copy', op_copy, 2), ('to_cell', op_to_cell, 2), ('to_boc', op_to_boc, 2), ('order', op_order, 3),
           ('hashmap', op_hashmap, 1), ('tlb', op_tlb, 1), ('mutate_derived', op_mutate_derived, 4), ('direct_plain', op_direct_plain, 1),
           ('recheck_pure', op_recheck_pure, 3)]
    weighted = [o for o in ops for _ in range(o[2])]
    for _ in range(n_ops):
        name, f, _w = rng.choice(weighted)
        note(name)
        touched.clear()
        derived = [(o, dstate(o)) for o in slices + builders]
        st, e = mon.call(f)
        if st == 'exc':
            R.exc(e)                      # operations may legitimately fail (overflow, underflow, not a message ...)
            R.count('ops_raised')
        reg.validate(name, trace)
        # derived objects are isolated from each other too: an operation on one slice / builder changes no other slice / builder
        for o, before in derived:
            if any(o is t for t in touched):
                continue
            R.counters['oracle_evaluations'] += 1
            R.count('derived_isolation_checks')
            if dstate(o) != before:
                R.violation(f'derived-{type(o).__name__}-changed-by-{name}-on-another-object', f'a {type(o).__name__} changed although operation {name} '
                            f'was applied to another object: derived objects share state', {'trace': trace[-15:], 'bits_before': before[0][:64], 'bits_now': dstate(o)[0][:64]})
                return trace
        if R.violations:
            return trace          # the pool is corrupt from here on: stop this history at the first violation
        if len(slices) > 10:
            slices.pop(0)
        if len(builders) > 6:
            builders.pop(0)
    return trace


def stateless(R, B, rng):
    """no state carried between calls: the same call gives the same answer whatever was called before"""
    a = bridge.to_lib(gen.rand_dag(rng, 6, max_bits=20))
    b = bridge.to_lib(gen.rand_dag(rng, 9, max_bits=20))
    first = [k.hash for k in a.order()]
    b.order()
    b.to_boc()
    second = [k.hash for k in a.order()]
    R.check(first == second, 'order-leaks-between-calls', f'a.order() returned {len(first)} cells, after b.order() it returns {len(second)}')
    order_post(R, a, a.order(), ['stateless'], 'default-arg')
    boc1 = a.to_boc(True, True, True)
    for _ in range(3):
        b.order()
    R.check(a.to_boc(True, True, True) == boc1, 'to_boc-depends-on-history', 'to_boc differs after unrelated calls')
    # every argument of to_boc is part of the call: the same cell serialised with other option / flag values in between, compared with a fresh equal cell
    fresh = lambda: B.Cell.one_from_boc(rc.encode_boc([bridge.from_lib(a)]))
    argsets = [(False, False, False, 0), (False, False, False, 1), (True, True, False, 0), (False, False, False, 2), (True, True, True, 3), (False, False, False, 0),
               (True, False, False, 0), (True, False, False, 1)]
    for args in argsets + argsets[::-1]:
        st1, x = mon.call(a.to_boc, *args)
        st2, y = mon.call(fresh().to_boc, *args)
        R.count('to_boc_argument_sequences')
        R.check(st1 == st2 and (st1 == 'exc' or x == y), 'to_boc-depends-on-history', f'to_boc{args} on a cell that was serialised before with other arguments differs from to_boc{args} on a fresh equal cell',
                {'args': list(args)})
    # dictionary parsing: a dictionary whose root label is non-empty (single key / common prefix with 1 bits), then another one, then the first again
    from pytoniq_core.boc.hashmap.hashmap import HashMap
    from pytoniq_core.boc.hashmap.parse import parse_hashmap
    maps = [(8, {0xFF: 1}), (8, {3: 7, 200: 9}), (16, {0xF0F0: 2, 0xF0F1: 3}), (8, {1: 1}), (16, {0xFFFF: 5}), (4, {9: 1, 10: 2, 11: 3})]
    cells = []
    for w, m in maps:
        hm = HashMap(w).with_uint_values(8)
        for k, v in m.items():
            hm.set_int_key(k, v)
        cells.append((w, m, hm.serialize()))
    for rnd in range(2):
        for w, m, cell in cells + cells[::-1]:
            for pname, f in (('parse_hashmap', lambda: {int(k, 2): v.load_uint(8) for k, v in parse_hashmap(cell.begin_parse(), w).items()}),
                             ('HashMap.parse', lambda: HashMap.parse(cell.begin_parse(), w, value_deserializer=lambda s: s.load_uint(8))),
                             ('load_dict', lambda: B.Builder().store_dict(cell).end_cell().begin_parse().load_dict(w, value_deserializer=lambda s: s.load_uint(8))),
                             ('from_cell', lambda: {k: v.load_uint(8) for k, v in HashMap.from_cell(cell, w).map.items()})):
                st, got = mon.call(f)
                R.count('dict_parse_sequences')
                R.check(st == 'ok' and dict(got) == m, f'dict-parse-depends-on-history', f'{pname} of a {w}-bit dictionary returned {mon.srepr(got, 80)} after other dictionaries were parsed; '
                        f'expected {m}', {'width': w, 'map': {str(k): v for k, v in m.items()}, 'parser': pname})
    # a serialisation that is refused (a value that cannot be encoded sits in the middle of nested tuples) leaves the caller's values as they were
    from pytoniq_core.tlb.vm_stack import VmStack as _VS, VmTuple as _VT
    for bad in (2 ** 300, -2 ** 300, 1.5, 'text'):
        inner = _VT([1, bad, 3])
        mid = _VT([7, inner, 9, _VT([4, 5])])
        data = [11, mid, 13]
        struct = lambda v: [struct(x) for x in v.list] if isinstance(v, _VT) else ([struct(x) for x in v] if isinstance(v, list) else repr(v))
        snap = lambda: (struct(data), struct(mid), struct(inner))
        before = snap()
        st, c = mon.call(_VS.serialize, data)
        R.count('refused_serialisations')
        R.check(snap() == before, 'refused-serialize-changes-input', f'VmStack.serialize {"raised" if st == "exc" else "returned"} for a stack holding {bad!r} and left the caller\'s tuples changed: '
                f'lengths now stack {len(data)}, outer tuple {len(mid.list)}, inner tuple {len(inner.list)}', {'bad_value': repr(bad), 'outcome': st})
        if st == 'exc':
            inner.list[1] = 2
            st2, c2 = mon.call(_VS.serialize, data)
            st3, c3 = mon.call(_VS.serialize, [11, _VT([7, _VT([1, 2, 3]), 9, _VT([4, 5])]), 13])
            R.check(st2 == 'ok' and st3 == 'ok' and c2.hash == c3.hash, 'serialize-after-refusal-differs', 'after a refused serialisation the repaired values serialise differently from fresh equal values',
                    {'bad_value': repr(bad)})
    # VM stack: serialising twice, caller-owned values untouched
    from pytoniq_core.tlb.vm_stack import VmStack, VmTuple
    inner = VmTuple([1, 2, 3])
    data = [5, inner, a]
    st, c1 = mon.call(VmStack.serialize, data)
    st2, c2 = mon.call(VmStack.serialize, data)
    R.count('vmstack_double_serialize')
    if st == 'ok' and st2 == 'ok':
        R.check(len(data) == 3 and len(inner.list) == 3, 'vmstack-serialize-consumes-input', f'VmStack.serialize changed the caller\'s values: tuple now has {len(inner.list)} items')
        R.check(c1.hash == c2.hash, 'vmstack-serialize-twice-differs', 'serialising the same stack twice gives different cells')
    # every public serialiser of the VM value codec, called directly (not only through VmStack.serialize), leaves what it is given untouched and answers alike twice
    import importlib
    _vm = importlib.import_module("pytoniq_core.tlb.vm_stack")
    for n in (0, 1, 2, 3, 4, 7):
        for ename in ('VmTuple', 'VmTupleRef', 'VmStackValue', 'VmStackList', 'VmStack'):
            cls = getattr(_vm, ename, None)
            if cls is None or not hasattr(cls, 'serialize'):
                continue
            nested = VmTuple([7, 8])
            items = [nested if i == 1 else 100 + i for i in range(n)]
            t = VmTuple(list(items))
            arg = t if ename in ('VmTuple', 'VmTupleRef', 'VmStackValue') else [t, 5, VmTuple(list(items))]
            if ename == 'VmTupleRef' and n == 0:
                continue
            snap = lambda: (list(t.list), list(nested.list), len(arg) if isinstance(arg, list) else None)
            before = snap()
            st, c1 = mon.call(cls.serialize, arg)
            mid = snap()
            st2, c2 = mon.call(cls.serialize, arg)
            R.count('vm_direct_serialiser_calls')
            R.counters['oracle_evaluations'] += 1
            W = {'entry': f'{ename}.serialize', 'tuple_length': n}
            R.check(mid == before and snap() == before, f'direct-serialize-changes-input-{ename}', f'{ename}.serialize changed the value it was given: tuple {before[0]!r} -> {snap()[0]!r}'[:300], W)
            if st == 'ok' and st2 == 'ok':
                R.check(c1.hash == c2.hash, f'direct-serialize-twice-differs-{ename}', f'{ename}.serialize of the same value twice gives different cells', W)


def isolation_matrix(R, B, rng):
    """deterministic part of 'derived objects are isolated snapshots': for cells of every size class (empty, one bit, byte boundaries, around 700, 1016/1017, full)
    and 0/1/4 references, every first- and second-order derivation (slices, copies, builders, cells made from them) is taken, one object of each pair is used up
    (slice read to its end / builder filled / bits inverted in place) and the other must still show the original content; the source cell never changes"""
    def content(o):
        return (o.bits.to01(), tuple(x.hash for x in (o.refs[o.ref_offset:] if hasattr(o, 'ref_offset') else o.refs)))

    def use_up(o):
        if isinstance(o, B.Slice):
            o.load_bits(o.remaining_bits)
            while o.remaining_refs:
                o.load_ref()
        elif isinstance(o, B.Builder):
            if o.available_bits:
                o.store_bits('1' * min(9, o.available_bits))
            while o.available_refs:
                o.store_ref(B.Builder().store_uint(1, 1).end_cell())
            o.bits.invert()
        elif isinstance(o, B.Cell):
            use_up(o.begin_parse())
            use_up(o.to_builder())
    kids = [B.Builder().store_uint(i, 4).end_cell() for i in range(4)]
    first = {'begin_parse': lambda c: c.begin_parse(), 'Slice.from_cell': lambda c: B.Slice.from_cell(c), 'to_slice': lambda c: c.to_slice(), 'copy': lambda c: c.copy(),
             'to_builder': lambda c: c.to_builder(),
             # the public constructors, handed the cell's own attributes
             'Slice(cell.bits, cell.refs)': lambda c: B.Slice(c.bits, c.refs, c.type_), 'Cell(cell.bits, cell.refs)': lambda c: B.Cell(c.bits, c.refs, c.type_)}
    second = {'copy': lambda o: o.copy(), 'to_cell': lambda o: o.to_cell(), 'to_builder': lambda o: o.to_builder(), 'to_slice': lambda o: o.to_slice(), 'begin_parse': lambda o: o.begin_parse(),
              'end_cell': lambda o: o.end_cell(), 'store_slice': lambda o: B.Builder().store_slice(o), 'store_cell': lambda o: B.Builder().store_cell(o)}
    for nbits in (0, 1, 2, 3, 4, 5, 6, 7, 8, 9, 10, 11, 12, 64, 699, 700, 701, 1015, 1016, 1017, 1021, 1022, 1023):
        for nrefs in (0, 1, 4):
            bits = gen.rand_bits(rng, nbits)
            b = B.Builder().store_bits(bits)
            for k in kids[:nrefs]:
                b.store_ref(k)
            cell = b.end_cell()
            want = (bits, tuple(k.hash for k in kids[:nrefs]))
            h0, boc0 = cell.hash, cell.to_boc(True, True)
            for fname, f in first.items():
                for sname, g in second.items():
                    st, d1 = mon.call(f, cell)
                    if st == 'exc':
                        continue
                    st, d2 = mon.call(g, d1)
                    if st == 'exc' or not hasattr(d2, 'bits') or not hasattr(d1, 'bits'):
                        continue              # that derivation does not exist for this kind of object
                    W = {'bits': nbits, 'refs': nrefs, 'first': fname, 'second': sname}
                    for victim, witness, which in ((d1, d2, 'first used, second inspected'), (d2, d1, 'second used, first inspected')):
                        if victim is d2:
                            d1 = f(cell)
                            d2 = g(d1)
                            victim, witness = d2, d1
                        st, e = mon.call(use_up, victim)
                        R.count('isolation_matrix_cases')
                        R.counters['oracle_evaluations'] += 1
                        if content(witness) != want:
                            R.violation(f'derived-objects-share-state-{fname}-{sname}', f'{fname}() then {sname}(): using one object up changed the other ({which}): it now holds '
                                        f'{len(content(witness)[0])} bits / {len(content(witness)[1])} refs instead of {nbits} / {nrefs}', W)
                        if content(cell) != want or cell.hash != h0 or cell.to_boc(True, True) != boc0:
                            R.violation(f'source-cell-changed-{fname}-{sname}', f'{fname}() then {sname}(): using the derived objects changed the cell they came from', W)
                    R.cover('isolation_pairs', (fname, sname))
            # what the accessors hand out belongs to the caller: whatever of it is mutable is changed in place, the cell stays what it was
            for aname, get in (('data', lambda: cell.data), ('get_data_bytes', lambda: cell.get_data_bytes()), ('get_representation', lambda: cell.get_representation()),
                               ('to_boc', lambda: cell.to_boc()), ('order', lambda: cell.order()), ('hash', lambda: cell.hash), ('get_hash', lambda: cell.get_hash(0)),
                               ('refs-of-copy', lambda: cell.copy().refs), ('bits-of-copy', lambda: cell.copy().bits), ('begin_parse.refs', lambda: cell.begin_parse().refs),
                               # looking at a cell - showing it, hashing it, comparing it, copying it through the copy / pickle protocols - is not using it
                               ('repr', lambda: repr(cell)), ('str', lambda: str(cell)), ('format', lambda: f'{cell} {cell!r}'), ('repr-of-derived', lambda: (repr(cell.begin_parse()), repr(cell.to_builder()), str(cell.begin_parse()))),
                               ('hash()', lambda: hash(cell)), ('==', lambda: (cell == cell, cell == cell.copy(), cell != cell.copy())), ('in-set', lambda: cell in {cell.copy()}),
                               ('copy.copy', lambda: __import__('copy').copy(cell)), ('copy.deepcopy', lambda: __import__('copy').deepcopy(cell)),
                               ('pickle', lambda: __import__('pickle').loads(__import__('pickle').dumps(cell))), ('len(bits)', lambda: (len(cell.bits), len(cell.refs), bool(cell.bits))),
                               ('getitem', lambda: [cell[i] for i in range(nrefs)]), ('get_depth', lambda: cell.get_depth(0)), ('get_descriptors', lambda: cell.get_descriptors())):
                st, x = mon.call(get)
                if st == 'exc':
                    continue
                if isinstance(x, bytearray):
                    x += b'\xff\x00'
                    x[0:1] = b'\x55'
                elif isinstance(x, list):
                    x.append(None)
                    x.reverse()
                elif isinstance(x, dict):
                    x.clear()
                elif hasattr(x, 'invert') and hasattr(x, 'to01'):
                    mon.call(x.invert)
                    mon.call(lambda: x.extend('1'))
                elif isinstance(x, B.Cell) and x is not cell:
                    # a copy made through the copy / pickle protocol is a cell of its own: same content, and using it up leaves the original alone
                    if content(x) != want or x.hash != h0 or x.type_ != cell.type_:
                        R.violation(f'protocol-copy-differs-{aname}', f'{aname} of a cell gives another cell: {mon.srepr(x, 60)}', {'bits': nbits, 'refs': nrefs, 'accessor': aname})
                    mon.call(use_up, x)
                    if aname != 'copy.copy':        # copy.copy is Python's shallow copy: its attributes ARE the original's, changing them in place is changing the original
                        mon.call(lambda: (x.bits.invert(), x.refs.clear()))
                R.count('accessor_results_mutated')
                if content(cell) != want or cell.hash != h0 or cell.to_boc(True, True) != boc0 or mon.call(cell.calculate_representation_hash) != ('ok', h0) or cell.copy().hash != h0:
                    R.violation(f'accessor-result-aliases-cell-{aname}', f'changing in place what {aname} returned ({type(x).__name__}) changed the cell', {'bits': nbits, 'refs': nrefs, 'accessor': aname})
            # a cell constructed directly from the caller's own bit array and list (a plain bitarray, a builder's bits): the caller goes on using them
            from bitarray import bitarray as _ba
            own_bits, own_refs = _ba(bits), list(kids[:nrefs])
            direct = B.Cell(own_bits, own_refs, -1)
            d_h, d_boc = direct.hash, direct.to_boc(True, True)
            # looking at such a cell (its bits are a plain bit array, of any length mod 8) - showing it, showing a cell / slice / builder that refers to it - is not using it
            if nrefs < 4:
                holder = B.Cell(_ba('101'), [direct], -1)
                for lname, look in (('str', lambda: str(direct)), ('repr', lambda: repr(direct)), ('format', lambda: f'{direct} {direct!r}'), ('str-of-parent', lambda: str(holder)),
                                    ('str-of-slice', lambda: str(direct.begin_parse())), ('str-of-parent-slice', lambda: (str(holder.begin_parse()), repr(holder.begin_parse()))),
                                    ('str-of-builder', lambda: str(B.Builder().store_ref(direct))), ('hash-eq', lambda: (hash(direct), direct == direct.copy(), direct in {holder}))):
                    mon.call(look)
                    R.count('plain_bitarray_cells_looked_at')
                    if not R.check(content(direct) == want and direct.hash == d_h == h0 and direct.copy().hash == h0 and direct.to_boc(True, True) == d_boc
                                   and content(direct.begin_parse()) == want and mon.call(direct.calculate_representation_hash) == ('ok', h0),
                                   f'looking-changes-plain-bitarray-cell-{lname}', f'{lname} of a cell constructed from a plain bit array of {nbits} bits changed the cell '
                                   f'(it now holds {len(direct.bits)} bits; copy().hash equal: {direct.copy().hash == h0})', {'bits': nbits, 'refs': nrefs, 'look': lname}):
                        break
            mon.call(lambda: (own_bits.append(1) if len(own_bits) < 1023 else own_bits.invert(), own_refs.append(kids[0]) if len(own_refs) < 4 else own_refs.pop()))
            R.check(content(direct) == want and direct.hash == d_h == h0 and direct.to_boc(True, True) == d_boc and direct.copy().hash == h0, 'directly-constructed-cell-aliases-callers-arrays',
                    'a cell constructed from a plain bit array and a list changed when the caller went on using that array / list', {'bits': nbits, 'refs': nrefs})
            bld = B.Builder().store_bits(bits)
            for k in kids[:nrefs]:
                bld.store_ref(k)
            from_builder = B.Cell(bld.bits, bld.refs, -1)
            mon.call(lambda: (bld.store_bits('1') if bld.available_bits else None, bld.store_ref(kids[0]) if bld.available_refs else None))
            R.check(content(from_builder) == want and from_builder.hash == h0 and from_builder.copy().hash == h0, 'directly-constructed-cell-aliases-callers-arrays',
                    'a cell constructed from a builder\'s bits and refs changed when the builder was written to', {'bits': nbits, 'refs': nrefs})
            R.count('directly_constructed_cells')
            # a slice whose references have all been read still is its remaining content, whichever way it is turned into a cell
            if nrefs:
                only_bits = B.Builder().store_bits(bits).end_cell().hash

                def spent():
                    s_ = cell.begin_parse()
                    while s_.remaining_refs:
                        s_.load_ref()
                    return s_
                for cname, conv in (('to_cell', lambda s_: s_.to_cell()), ('copy.to_cell', lambda s_: s_.copy().to_cell()), ('to_builder.end_cell', lambda s_: s_.to_builder().end_cell()),
                                    ('store_slice.end_cell', lambda s_: B.Builder().store_slice(s_).end_cell())):
                    st, got = mon.call(lambda: conv(spent()))
                    R.check(st == 'ok' and got.hash == only_bits and len(got.refs) == 0, f'spent-slice-{cname}', f'a slice with all {nrefs} references read, turned into a cell by {cname}: '
                            f'{mon.srepr(got, 60)} is not the cell of its remaining {nbits} bits', {'bits': nbits, 'refs': nrefs, 'conversion': cname})


def order_independence(R):
    """the probe set of checks/probes_c08.py (528 deterministic calls, many near-duplicates of each other) evaluated in fresh interpreters in several orders:
    every probe must give the same result whatever was called before it"""
    import json
    import os
    import subprocess
    import sys
    orders = ['forward', 'reverse', 'interleave', f'shuffle:{R.seed}', f'shuffle:{R.seed + 1}']
    env = dict(os.environ, PYTHONHASHSEED='0', PYTHONDONTWRITEBYTECODE='1', VERIF_REPO=mon.REPO)
    procs = [(o, subprocess.Popen([sys.executable, '-m', 'checks.probes_c08', o], cwd=mon.VERIF_DIR, env=env, stdout=subprocess.PIPE, stderr=subprocess.PIPE, text=True)) for o in orders]
    results = {}
    for o, p in procs:
        try:
            out, err = p.communicate(timeout=600)
        except subprocess.TimeoutExpired:
            p.kill()
            R.inconc(f'probe-run-{o}-watchdog')
            continue
        if p.returncode != 0:
            R.inconc(f'probe-run-{o.split(":")[0]}-died')
            sys.stderr.write(err[-1500:])
            continue
        results[o] = json.loads(out)
    if 'forward' not in results:
        return
    base = results['forward']
    R.count('probes', len(base))
    raised = [k for k, v in base.items() if v.startswith('raised:')]
    for k in raised[:5]:
        R.violation(f'probe-raises-{k.split("/")[0]}', f'probe {k} (a valid deterministic library call) raised: {base[k]}', {'probe': k})
    for o, res in results.items():
        if o == 'forward':
            continue
        R.count('probe_orders_compared')
        for k, v in base.items():
            R.counters['oracle_evaluations'] += 1
            if res.get(k) != v:
                R.violation(f'result-depends-on-call-order-{k.split("/")[0]}', f'probe {k} gives {v} when the probes run in forward order and {res.get(k)} in order {o.split(":")[0]}: '
                            'the result of a library call depends on which calls were made before', {'probe': k, 'order': o, 'forward': v, 'other': res.get(k)})


def run(R):
    B = bridge.lib()
    rng = R.rng
    quick = R.tier == 'quick'
    R.rule = ('random operation histories (50-400 ops, 15 op kinds incl. mutation attempts on every derived container) over a pool of <= 12 '
              'roots built through 4 routes; after EVERY operation every registered live cell is re-fingerprinted (hash, bits, ref identities, '
              'mask, depth and, for the first 400, all 6 serialisations); Cell.order postcondition; pure calls re-evaluated later; a probe set of 528 deterministic '
              'library calls (near-duplicates of each other across CRC, address, BoC, builder/slice, dictionary, TL, currency, VM stack, signature, ADNL and proof calls) '
              'evaluated in fresh interpreters in 5 orders must give identical results; '
              'distinct = distinct operation trace; non-trivial = history with at least 10 distinct op kinds')
    R.assumptions = ['mutating cell.bits / cell.refs of the cell object itself (public attributes) is outside the property: only derived objects are attacked']
    nh = (25 if quick else 1500) // R.nshards + 1
    for i in range(nh):
        n_ops = rng.choice([50, 120, 400] if not quick else [50, 120])
        trace = history(R, B, rng, n_ops, {})
        if R.violations:
            break
        R.case(mon.fp(tuple(trace)) if len(set(trace)) >= 10 else None, sample={'trace_head': trace[:25]} if i == 0 else None)
        R.count('histories')
    stateless(R, B, rng)
    if R.shard == 0:
        isolation_matrix(R, B, rng)
        R.floor('isolation_matrix_cases', 500)
        order_independence(R)
        R.floor('probes', 400)
        R.floor('probe_orders_compared', 3)
    R.floor('registry_validations', 500)
    R.floor('dict_parse_sequences', 50)
    R.floor('to_boc_argument_sequences', 10)
    R.floor('fresh_clone_comparisons', 100)
    R.floor('derived_isolation_checks', 1000)
    R.floor('order_postconditions', 20)
    R.floor('pure_reevaluations', 20)
    R.floor('transitions', 100, 'set')


def replay(R, w, rec):
    B = bridge.lib()
    history(R, B, R.rng, 300, {})
    stateless(R, B, R.rng)
    R.case(mon.fp(1)); R.case(mon.fp(2))

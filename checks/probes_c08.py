"""Probe set for the order-independence differential of C08: ~570 deterministic library calls, many of them near-duplicates of each other
(same data with another option, same key with another message, same field names with other types ...).  Each probe builds its arguments from
primitives and returns a fingerprint string.  `python -m checks.probes_c08 <order>` evaluates all of them in one fresh interpreter in the given
order (forward | reverse | shuffle:<seed> | interleave) and prints {probe id: fingerprint} as JSON; checks/c08_immutability.py runs several orders
in separate processes and requires identical fingerprints: a result that depends on which calls were made before shows up as a difference."""
import hashlib
import json
import os
import random
import sys

HERE = os.path.dirname(os.path.dirname(os.path.abspath(__file__)))
if HERE not in sys.path:
    sys.path.insert(0, HERE)


def fp(x):
    if isinstance(x, (bytes, bytearray)):
        return 'b:' + hashlib.sha256(bytes(x)).hexdigest()[:24]
    return 'r:' + hashlib.sha256(repr(x).encode()).hexdigest()[:24]


def guarded(f):
    try:
        return f()
    except Exception as e:                      # an expected rejection is a result too
        return 'exc:' + type(e).__name__


def build():
    """-> ordered list of (probe id, thunk)"""
    from lib import mon
    mon.bind_repo()
    from pytoniq_core.boc import Builder, Cell, Slice
    from pytoniq_core.boc.address import Address, ExternalAddress
    from pytoniq_core.boc.hashmap.hashmap import HashMap
    from pytoniq_core.boc.hashmap.parse import parse_hashmap
    from pytoniq_core.crypto.crc import crc16, crc32c
    from pytoniq_core.crypto import signature
    from pytoniq_core.crypto.ciphers import Client, Server, AdnlChannel, get_shared_key
    from pytoniq_core.tl.generator import TlGenerator
    from pytoniq_core.tlb.block import CurrencyCollection, ExtraCurrencyCollection
    from pytoniq_core.tlb.vm_stack import VmStack, VmTuple
    from pytoniq_core.proof.check_proof import check_block_signatures, check_proof
    from pytoniq_core.tlb.config import ValidatorDescr, SigPubKey
    from pytoniq_core.tl.block import BlockIdExt
    from nacl.signing import SigningKey
    P = []
    add = lambda pid, f: P.append((pid, f))
    rnd = lambda tag: random.Random(tag)

    # ---- CRCs: same data, other byte order / one more zero byte
    for i, n in enumerate((0, 1, 9, 64, 300, 5001)):
        d = rnd(f'crc{i}').randbytes(n)
        for j, x in enumerate((d, d + b'\x00', b'\x00' + d)):
            add(f'crc16/{i}/{j}', lambda x=x: crc16(x))
            add(f'crc32c-little/{i}/{j}', lambda x=x: crc32c(x, 'little'))
            add(f'crc32c-big/{i}/{j}', lambda x=x: crc32c(x, 'big'))
            add(f'crc32c-default/{i}/{j}', lambda x=x: crc32c(x))

    # ---- addresses: every rendering of a few accounts, their parses, and corrupted strings (presented in several probes)
    for i, wc in enumerate((0, -1, 127, -128, -100)):
        hp = rnd(f'addr{i}').randbytes(31) + (b'\x00' if i % 2 else b'\x7f')
        a = lambda wc=wc, hp=hp: Address((wc, hp))
        add(f'addr-raw/{i}', lambda a=a: a().to_str(False))
        for bounce in (True, False):
            for test in (False, True):
                for url in (True, False):
                    add(f'addr-render/{i}/{bounce}{test}{url}', lambda a=a, b=bounce, t=test, u=url: a().to_str(True, u, b, t))
                    add(f'addr-parse/{i}/{bounce}{test}{url}', lambda a=a, b=bounce, t=test, u=url: (lambda x: (x.wc, x.hash_part, x.is_bounceable, x.is_test_only))(Address(a().to_str(True, u, b, t))))
                    add(f'addr-reparse-rerender/{i}/{bounce}{test}{url}', lambda a=a, b=bounce, t=test, u=url: Address(a().to_str(True, u, b, t)).to_str(True, True, not b, not t))
        s = Address((wc, hp)).to_str()
        for k, pos in enumerate((1, 20, 44, 47)):
            bad = s[:pos] + ('A' if s[pos] != 'A' else 'B') + s[pos + 1:]
            for rep in range(2):
                add(f'addr-corrupt/{i}/{k}/{rep}', lambda bad=bad: guarded(lambda: (lambda x: (x.wc, x.hash_part))(Address(bad))))
        add(f'addr-parse-raw/{i}', lambda wc=wc, hp=hp: (lambda x: (x.wc, x.hash_part))(Address(f'{wc}:{hp.hex()}')))
        add(f'addr-hash/{i}', lambda a=a: hash(a()) == hash(Address(a().to_str())))

    # ---- cells / bags: DAGs that share sub-cells with each other, every option set, parse of each other's output
    def dag(tag, n):
        r = rnd(tag)
        cells = [Builder().store_uint(r.getrandbits(16), 16).end_cell()]
        for k in range(n):
            b = Builder().store_uint(r.getrandbits(12), 12 + k % 5)
            for _ in range(r.randint(1, 3)):
                b.store_ref(r.choice(cells))
            cells.append(b.end_cell())
        return cells
    OPTS = [(False, False, False), (True, False, False), (False, True, False), (True, True, False), (True, False, True), (True, True, True)]
    for i in range(4):
        mk = lambda i=i: dag(f'dag{i % 2}', 6 + i)            # dag0/dag2 and dag1/dag3 share their first cells
        add(f'cell-hash/{i}', lambda mk=mk: mk()[-1].hash)
        for oi, o in enumerate(OPTS):
            add(f'to_boc/{i}/{oi}', lambda mk=mk, o=o: mk()[-1].to_boc(*o))
            add(f'from_boc/{i}/{oi}', lambda mk=mk, o=o: Cell.one_from_boc(mk()[-1].to_boc(*o)).hash)
        add(f'to_boc-sub-then-root/{i}', lambda mk=mk: (lambda c: (c[2].to_boc(), c[-1].to_boc(), c[2].to_boc(True, True)))(mk()))
        add(f'order/{i}', lambda mk=mk: [x.hash for x in mk()[-1].order()])
        add(f'to_boc-flags/{i}', lambda mk=mk: [guarded(lambda f=f: mk()[-1].to_boc(False, False, False, f)) for f in (0, 1, 2, 0)])
        add(f'slice-roundtrip/{i}', lambda mk=mk: Slice.one_from_boc(mk()[-1].to_boc(True)).to_cell().hash)
        add(f'copy-eq/{i}', lambda mk=mk: (lambda c: (c.copy() == c, c.copy().hash, c.begin_parse().to_cell().hash))(mk()[-1]))
    # a cell and the byte-aligned cell whose data is the first one's tag-padded data (same padded bytes, other length)
    for i, bits in enumerate(('101', '1', '0000000', '1010101010101')):
        padded = bits + '1' + '0' * (7 - len(bits) % 8)
        add(f'tag-sibling/{i}/short', lambda bits=bits: Builder().store_bits(bits).end_cell().hash)
        add(f'tag-sibling/{i}/padded', lambda padded=padded: Builder().store_bits(padded).end_cell().hash)
    # one small DAG in the generic form without index, with index, and in the two lean forms (independent encoder)
    from lib import refcell as rc
    small = rc.RC('1011', (rc.RC('0' * 9), rc.RC('1', (rc.RC('0' * 9),))))
    for i, kw in enumerate((dict(), dict(magic='idx'), dict(has_idx=True), dict(magic='idx_crc'), dict(has_crc=True), dict(has_idx=True, has_cache_bits=True), dict(magic='idx', size=2, off_bytes=3))):
        data = rc.encode_boc([small], **kw)
        add(f'foreign-boc/{i}', lambda data=data: guarded(lambda: [c.hash for c in Cell.from_boc(data)]))
    for i, n in enumerate((0, 3, 5, 8, 13, 1023)):
        from bitarray import bitarray
        bits = ''.join(rnd(f'pb{i}').choice('01') for _ in range(n))
        add(f'plain-bitarray-cell/{i}', lambda bits=bits: (lambda c: (c.hash, c.to_boc(), len(c.bits)))(Cell(bitarray(bits), [], -1)))

    # ---- builder / slice: the same stores spelled in several ways; zero-width and full-width reads
    for i, w in enumerate((0, 1, 8, 64, 256)):
        v = rnd(f'int{i}').getrandbits(w) if w else 0
        add(f'store-load-uint/{i}', lambda w=w, v=v: (lambda s: (s.preload_uint(w), s.load_uint(w), s.load_uint(3)))(Builder().store_uint(v, w).store_uint(5, 3).end_cell().begin_parse()))
        add(f'store-load-int/{i}', lambda w=w, v=v: (lambda s: (s.load_int(w), s.remaining_bits))(Builder().store_int(v - (1 << w) // 2 if w else 0, w).store_bit(1).end_cell().begin_parse()))
    for i, v in enumerate((0, 127, 128, 255, 32768, -129, 1 << 100)):
        add(f'var-int/{i}', lambda v=v: (lambda s: (s.load_var_int(5), s.remaining_bits))(Builder().store_var_int(v, 5).end_cell().begin_parse()))
        add(f'coins/{i}', lambda v=v: guarded(lambda: Builder().store_coins(v).end_cell().hash))
    for i, (val, ln) in enumerate(((0, 0), (0, 8), (5, 3), (0xff0a, 16), (1, 1))):
        add(f'ext-address/{i}', lambda val=val, ln=ln: (lambda s: (lambda a: (a.external_address, a.len, s.load_uint(2)))(s.load_address()))(Builder().store_address(ExternalAddress(val, ln)).store_uint(2, 2).end_cell().begin_parse()))
    add('anycast-address', lambda: (lambda s: (lambda p, a, t: (p.wc, p.anycast.depth, a.anycast.rewrite_pfx, t))(s.preload_address(), s.load_address(), s.load_uint(3)))(
        Builder().store_bits('101').store_uint(5, 5).store_uint(22, 5).store_int(0, 8).store_bytes(bytes(32)).store_uint(6, 3).end_cell().begin_parse()))
    add('plain-address-after-anycast', lambda: (lambda a: (a.wc, a.anycast))(Builder().store_address(Address((0, bytes(32)))).end_cell().begin_parse().load_address()))
    add('builder-reuse', lambda: (lambda b: (b.end_cell().hash, b.store_uint(1, 1).end_cell().hash, b.store_ref(Builder().end_cell()).end_cell().hash))(Builder().store_uint(9, 4)))
    add('empty-builder-snapshot', lambda: (lambda b: (lambda c, s: (b.store_uint(77, 8), len(c.bits), s.remaining_bits, c.hash)[1:])(b.end_cell(), b.to_slice()))(Builder()))

    # ---- dictionaries: near-equal maps, several parsers, re-serialisation after an overwrite
    maps = [(8, {0xFF: 1}), (8, {3: 7, 200: 9}), (16, {0xF0F0: 2, 0xF0F1: 3}), (8, {1: 1}), (16, {0xFFFF: 5}), (4, {9: 1, 10: 2, 11: 3}), (8, {2: 7, 3: 7}), (8, {3: 7, 2: 7}),
            (32, {5: 9, 0x80000005: 9}), (8, {0: 0}), (8, {0: 0, 255: 0})]

    def hm(w, m):
        h = HashMap(w).with_uint_values(8)
        for k, v in m.items():
            h.set_int_key(k, v)
        return h
    for i, (w, m) in enumerate(maps):
        add(f'dict-serialize/{i}', lambda w=w, m=m: hm(w, m).serialize().hash)
        add(f'dict-parse/{i}', lambda w=w, m=m: sorted((int(k, 2), v.load_uint(8)) for k, v in parse_hashmap(hm(w, m).serialize().begin_parse(), w).items()))
        add(f'dict-HashMap.parse/{i}', lambda w=w, m=m: sorted(HashMap.parse(hm(w, m).serialize().begin_parse(), w, value_deserializer=lambda s: s.load_uint(8)).items()))
        add(f'dict-load_dict/{i}', lambda w=w, m=m: sorted(Builder().store_dict(hm(w, m).serialize()).end_cell().begin_parse().load_dict(w, value_deserializer=lambda s: s.load_uint(8)).items()))
        add(f'dict-overwrite/{i}', lambda w=w, m=m: (lambda h: (h.serialize().hash, h.set_int_key(next(iter(m)), 99), h.serialize().hash)[::2])(hm(w, m)))
        add(f'dict-parse-twice/{i}', lambda w=w, m=m: (lambda c: [sorted((k, v.load_uint(8)) for k, v in parse_hashmap(c.begin_parse(), w).items()) for _ in range(2)])(hm(w, m).serialize()))
    for i, wc in enumerate((0, -1)):
        add(f'dict-address-key/{i}', lambda wc=wc: (lambda h: h.serialize().hash)(HashMap(267).with_uint_values(8).set(Address((wc, bytes([i + 1]) * 32)), 3)))

    # ---- TL: constructors that share field names with other types, strings around the length boundary, block ids
    sch = TlGenerator.with_default_schemas().generate()
    tl_cases = [('adnl.ping', {'value': 5}), ('liteServer.debug.verbosity', {'value': 5}), ('adnl.pong', {'value': -1}),
                ('adnl.id.short', {'id': '11' * 32}), ('tonNode.blockId', {'workchain': -1, 'shard': -2 ** 63, 'seqno': 7}),
                ('liteServer.getTime', {}), ('tonNode.blockId', {'workchain': 0, 'shard': 0, 'seqno': 0}),
                ('dht.ping', {'random_id': 2 ** 62}), ('adnl.message.custom', {'data': b'\x01\x02\x03'}), ('adnl.message.custom', {'data': 'é'.encode() * 127}),
                ('liteServer.error', {'code': -400, 'message': 'не найдено'}), ('liteServer.error', {'code': 0, 'message': 'x' * 253}), ('liteServer.error', {'code': 0, 'message': 'x' * 254}),
                ('adnl.message.query', {'query_id': '22' * 32, 'query': b'abcd'}), ('adnl.message.answer', {'query_id': '22' * 32, 'answer': b'abcd'})]
    # two constructors that share their field names but not their field types, on a schema object of their own: forward order serialises the first one first,
    # reverse order the second one first
    pairs = [(('adnl.ping', {'value': 5}), ('liteServer.debug.verbosity', {'value': 5})),
             (('liteServer.getBlock', {'id': {'workchain': -1, 'shard': -2 ** 63, 'seqno': 1, 'root_hash': '33' * 32, 'file_hash': '44' * 32}}), ('adnl.id.short', {'id': '11' * 32})),
             (('adnl.pong', {'value': 2 ** 40}), ('liteServer.debug.verbosity', {'value': 7}))]
    for i, (a_, b_) in enumerate(pairs):
        own = TlGenerator.with_default_schemas().generate()
        for j, (name, val) in enumerate((a_, b_)):
            add(f'tl-pair-serialize/{i}/{j}', lambda own=own, name=name, val=val: guarded(lambda: own.serialize(own.get_by_name(name), val)))
        for j, (name, val) in enumerate((a_, b_)):
            add(f'tl-pair-roundtrip/{i}/{j}', lambda own=own, name=name, val=val: guarded(lambda: (lambda b: repr(sorted(map(repr, own.deserialize(b)[0].items()))))(
                TlGenerator.with_default_schemas().generate().serialize(name, val))))
    for i, (name, val) in enumerate(tl_cases):
        add(f'tl-serialize-shared/{i}', lambda name=name, val=val: guarded(lambda: sch.serialize(sch.get_by_name(name), val)))
        add(f'tl-serialize-fresh/{i}', lambda name=name, val=val: guarded(lambda: (lambda s2: s2.serialize(s2.get_by_name(name), val))(TlGenerator.with_default_schemas().generate())))
        add(f'tl-roundtrip/{i}', lambda name=name, val=val: guarded(lambda: (lambda b: (sch.deserialize(b)[1], sorted(map(repr, sch.deserialize(b)[0].items()))))(sch.serialize(sch.get_by_name(name), val))))
    for i, (wc, shard) in enumerate(((-1, -2 ** 63), (0, 0), (0, 2 ** 63 - 1), (5, -1))):
        add(f'blockid/{i}', lambda wc=wc, shard=shard: (lambda b: (b.to_dict() if hasattr(b, 'to_dict') else None, hash(b) == hash(BlockIdExt(wc, shard, 3, bytes(32), b'\x01' * 32)),
                                                                  b == BlockIdExt(wc, shard, 3, bytes(32), b'\x01' * 32)))(BlockIdExt(wc, shard, 3, bytes(32), b'\x01' * 32)))

    # ---- currencies, messages, stacks: values built after other values were built / edited
    add('cc-default-then-edit', lambda: (lambda a: (a.other.dict.__setitem__(7, 1000), CurrencyCollection(9).serialize().hash, a.serialize().hash)[1:])(CurrencyCollection(5)))
    add('cc-grams-only', lambda: CurrencyCollection(9).serialize().hash)
    add('cc-with-extra', lambda: CurrencyCollection(9, ExtraCurrencyCollection({7: 1000})).serialize().hash)
    for i, vals in enumerate(([], [1, None, -5], [2 ** 63, -2 ** 63, 2 ** 200], [[1, [2, []]], []])):
        def to_lib(v):
            return VmTuple([to_lib(x) for x in v]) if isinstance(v, list) else v
        add(f'vmstack-serialize/{i}', lambda vals=vals: VmStack.serialize([to_lib(v) for v in vals]).hash)
        add(f'vmstack-parse/{i}', lambda vals=vals: repr([(type(x).__name__, repr(getattr(x, 'list', x))) for x in VmStack.deserialize(VmStack.serialize([to_lib(v) for v in vals]).begin_parse())]))
        add(f'vmstack-twice/{i}', lambda vals=vals: (lambda l: (VmStack.serialize(l).hash, VmStack.serialize(l).hash, len(l)))([to_lib(v) for v in vals]))
        add(f'vmstack-parse-use-parse/{i}', lambda vals=vals: (lambda c: (lambda first: ([t.append(1) for t in first if isinstance(t, VmTuple)],
                                                                                      repr([(type(x).__name__, getattr(x, 'list', x)) for x in VmStack.deserialize(c.begin_parse())]))[1])(
            VmStack.deserialize(c.begin_parse())))(VmStack.serialize([to_lib(v) for v in vals])))

    # ---- signatures and signature sets: same key with other messages, same keys with other weights
    keys = [SigningKey(rnd(f'k{i}').randbytes(32)) for i in range(4)]
    pubs = [bytes(k.verify_key) for k in keys]
    msgs = [b'', b'm1', b'm2', b'm1' + b'\x00']
    for i, m in enumerate(msgs):
        sig = keys[0].sign(msgs[1]).signature
        add(f'verify-same-sig-other-msg/{i}', lambda m=m, sig=sig: guarded(lambda: signature.verify_sign(pubs[0], m, sig)))
        add(f'verify-own/{i}', lambda m=m: guarded(lambda: signature.verify_sign(pubs[1], m, keys[1].sign(m).signature)))
        add(f'sign/{i}', lambda m=m: signature.sign_message(m, bytes(keys[2]) + pubs[2]))
        add(f'verify-other-key/{i}', lambda m=m: guarded(lambda: signature.verify_sign(pubs[3], m, keys[1].sign(m).signature)))
    import hashlib as _h
    nid = lambda p: _h.sha256(bytes.fromhex('c6b41348') + p).digest().hex()
    blk = BlockIdExt(-1, -2 ** 63, 9, b'\x07' * 32, b'\x08' * 32)
    to_sign = bytes.fromhex('706e0bc5') + blk.root_hash + blk.file_hash
    for i, (weights, signers) in enumerate((((1, 1, 1, 1), (0, 1, 2)), ((10, 1, 1, 1), (1, 2, 3)), ((1, 1, 1, 10), (0, 1, 2)), ((2, 2, 2, 2), (0, 1)), ((5, 5, 5, 6), (0, 1, 3)), ((3, 3, 3, 3), (0, 0, 1, 2)),
                                            ((1, 1, 100, 1), (0, 1, 3)))):
        add(f'signature-set/{i}', lambda weights=weights, signers=signers: guarded(lambda: check_block_signatures(
            [ValidatorDescr('validator', SigPubKey(p), w) for p, w in zip(pubs, weights)],
            [{'node_id_short': nid(pubs[j]), 'signature': keys[j].sign(to_sign).signature} for j in signers], blk) is None))

    # ---- ADNL: several local identities towards the same peer
    seeds = [rnd(f'c{i}').randbytes(32) for i in range(3)]
    for i in range(3):
        for j in range(3):
            add(f'shared-key/{i}/{j}', lambda i=i, j=j: get_shared_key(Client(seeds[i]).x25519_private.encode(), Client(seeds[j]).x25519_public.encode()))
    for i, (a, b) in enumerate(((0, 1), (2, 1), (1, 0), (0, 0))):
        def chan(a=a, b=b):
            ca, cb = Client(seeds[a]), Client(seeds[b])
            A = AdnlChannel(ca, Server('h', 1, cb.ed25519_public.encode()), ca.get_key_id(), cb.get_key_id())
            B = AdnlChannel(cb, Server('h', 1, ca.ed25519_public.encode()), cb.get_key_id(), ca.get_key_id())
            pkt = A.encrypt(b'hello world 0123456789')
            return (pkt[:32] == B.server_aes_key_id, B.decrypt(pkt[64:], pkt[32:64]), A.enc_key, A.dec_key)
        add(f'adnl-channel/{i}', chan)

    # ---- proofs
    def small_proof(tag):
        leaf = Builder().store_uint(rnd(tag).getrandbits(32), 32).end_cell()
        root = Builder().store_uint(1, 2).store_ref(leaf).store_ref(Builder().store_uint(3, 3).end_cell()).end_cell()
        pruned = Builder(type_=1).store_uint(1, 8).store_uint(1, 8).store_bytes(leaf.hash).store_uint(leaf.get_depth(0), 16).end_cell()
        proot = Builder().store_uint(1, 2).store_ref(pruned).store_ref(Builder().store_uint(3, 3).end_cell()).end_cell()
        mp = Builder(type_=3).store_uint(3, 8).store_bytes(proot.get_hash(0)).store_uint(proot.get_depth(0), 16).store_ref(proot).end_cell()
        return root, mp
    for i in range(3):
        add(f'check-proof/{i}', lambda i=i: (lambda r, mp: (guarded(lambda: check_proof(mp, r.hash)), guarded(lambda: check_proof(mp, bytes(32))), mp.level_mask.mask, r.hash == mp[0].get_hash(0)))(*small_proof(f'p{i}')))
    # class-level helpers reached through the class and through subclasses of it (applications subclass Cell / Address / Slice): what a call on one class returns
    # must not depend on whether the same helper was called on another class before
    class SubCell(Cell):
        pass

    class SubCell2(SubCell):
        pass

    class SubSlice(Slice):
        pass
    boc1 = Builder().store_uint(0xABCD, 16).store_ref(Builder().store_uint(5, 3).end_cell()).end_cell().to_boc()
    for cname, cls in (('Cell', Cell), ('SubCell', SubCell), ('SubCell2', SubCell2)):
        add(f'classhelper/empty/{cname}', lambda cls=cls: (lambda c: (type(c).__name__, c.hash.hex()[:12], len(c.bits), len(c.refs)))(cls.empty()))
        add(f'classhelper/one_from_boc/{cname}', lambda cls=cls: (lambda c: (type(c).__name__, type(c.refs[0]).__name__, c.hash.hex()[:12]))(cls.one_from_boc(boc1)))
        add(f'classhelper/from_boc/{cname}', lambda cls=cls: [(type(c).__name__, c.hash.hex()[:12]) for c in cls.from_boc(boc1)])
        add(f'classhelper/copy/{cname}', lambda cls=cls: (lambda c: (type(c.copy()).__name__, type(c.begin_parse()).__name__, type(c.to_builder()).__name__))(cls.one_from_boc(boc1)))
    for cname, cls in (('Slice', Slice), ('SubSlice', SubSlice)):
        add(f'classhelper/slice-one_from_boc/{cname}', lambda cls=cls: (lambda x: (type(x).__name__, x.bits.to01(), x.remaining_refs))(cls.one_from_boc(boc1)))
        add(f'classhelper/slice-from_cell/{cname}', lambda cls=cls: (lambda x: (type(x).__name__, type(x.copy()).__name__, x.bits.to01()))(cls.from_cell(Cell.one_from_boc(boc1))))
    return P


def evaluate(order):
    probes = build()
    idx = list(range(len(probes)))
    if order == 'reverse':
        idx.reverse()
    elif order.startswith('shuffle:'):
        random.Random(order).shuffle(idx)
    elif order == 'interleave':
        idx = idx[::2] + idx[1::2][::-1]
    out = {}
    for i in idx:
        pid, f = probes[i]
        try:
            out[pid] = fp(f())
        except Exception as e:
            out[pid] = 'raised:' + type(e).__name__
    return out


if __name__ == '__main__':
    json.dump(evaluate(sys.argv[1] if len(sys.argv) > 1 else 'forward'), sys.stdout)

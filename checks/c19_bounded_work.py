"""C19 - work is bounded by the size of the input; every parser terminates (bounded progress in logical steps, M-STEP)."""
import math

from lib import bridge, dictref, gen, mon, refcell as rc

SHARDS = 4
SHARD_TIMEOUT = 3600

# steps(call) <= A + B * s**2  (s = n + e for DAG operations, input length in bytes for byte parsers, unfolded cells for dictionaries).
# Calibrated on linear families: to_boc ~ 25 steps/cell, from_boc ~ 170 steps/cell, TL parser ~ 40 steps/byte, dictionary ~ 90 steps/cell.
A, B = 20000, 60
EXPONENT_LIMIT = 2.2


CAP = 5000      # steps per unit of size, any family
MEM_A, MEM_B = 8 << 20, 20000      # bytes: 8 MiB + 20 kB per input byte (measured on the unchanged tree: parsing allocates below 3 kB per input byte)
LIN = 2500      # steps per input byte allowed to the byte parsers (measured: BoC ~ 90, TL ~ 40 per byte)


def limit(s, linear=False):
    """step budget for input size s.  The byte parsers (BoC, TL: 'bounded by the length of the input') additionally get a linear cap, so that on
    a long input a count-driven loop is cut after LIN*s steps instead of B*s^2 (which a run would have to wait for)."""
    q = A + B * s * s
    # every family is additionally capped at CAP steps per unit of size (measured: at most ~200 per unit on linear families; a quadratic algorithm with a small
    # constant still fits for the sizes used here), so that exponential work on an input of a few thousand units is cut after seconds, not after B*s^2 steps
    return min(q, A + LIN * s) if linear else min(q, A + CAP * s)


def dag_size(root):
    n = e = 0
    for c in rc.structural(root).values():
        n += 1
        e += len(c[2])
    return n, e


class Steps:
    def __init__(self, R):
        self.R = R
        self.sc = mon.StepCounter()
        self.table = {}          # family/op -> [(size, steps)]
        self.aborts = {}

    def __enter__(self):
        self.sc.start()
        return self

    def __exit__(self, *a):
        self.sc.stop()

    def run(self, family, op, s, f, witness, expect='any', mem=False):
        """measure f under the budget limit(s); record; violation if the budget is exhausted.  mem=True: the peak of memory allocated during the call (tracemalloc) is
        bounded by MEM_A + MEM_B * s as well - work that is one statement long (a list of `count` entries allocated before anything is read) does not show in steps"""
        R = self.R
        lim = limit(s, linear=family.startswith(('boc-', 'tl-')))
        if self.aborts.get(family, 0) >= 3:
            # the family already showed unbounded work three times (violations recorded): do not spend the budget again on every further case
            R.count('skipped_after_repeated_budget_aborts')
            return None
        if mem:
            import tracemalloc
            if not tracemalloc.is_tracing():
                tracemalloc.start(1)
            tracemalloc.reset_peak()
            base = tracemalloc.get_traced_memory()[0]
        steps, out = self.sc.measure(f, lim)
        if mem:
            peak = tracemalloc.get_traced_memory()[1] - base
            R.count('memory_measured_calls')
            self.table.setdefault(f'{family}/{op}/peak-bytes', []).append((s, peak))
            # a MemoryError is a refusal like any other; an allocation that SUCCEEDED and is out of all proportion to the input is work driven by a count field
            if peak > MEM_A + MEM_B * s or (out[0] == 'exc' and isinstance(out[1], MemoryError)):
                self.aborts[family] = self.aborts.get(family, 0) + 1
                R.violation(f'unbounded-memory-{op}-{family}', f'{op} on {family} (input of {s} bytes) allocated {peak} bytes at its peak' +
                            (' and ran into MemoryError' if out[0] == 'exc' and isinstance(out[1], MemoryError) else '') +
                            f' (bound {MEM_A} + {MEM_B} per byte): memory is driven by a count field, not by the input', dict(witness, size=s, peak_bytes=peak))
        R.counters['oracle_evaluations'] += 1
        R.count('measured_calls')
        R.count(f'calls_{family}')
        R.cover('ops', op)
        self.table.setdefault(f'{family}/{op}', []).append((s, steps))
        if out[0] == 'budget':
            R.count('budget_aborts')
            self.aborts[family] = self.aborts.get(family, 0) + 1
            R.violation(f'unbounded-{op}-{family}', f'{op} on {family} (size {s}) exceeded {lim} logical steps (A + B*s^2): work is not bounded by the input size',
                        dict(witness, size=s, limit=lim))
            return None
        if out[0] == 'exc':
            R.exc(out[1])
            if expect == 'ok':
                R.violation(f'raises-{op}-{family}-{type(out[1]).__name__}', f'{op} on {family} (size {s}) raised {out[1]!r}', dict(witness, size=s))
            return None
        return out[1]

    def exponents(self):
        """least-squares slope of log(steps) over log(size) per family/op with >= 4 sizes spanning a factor >= 8"""
        R = self.R
        res = {}
        for key, pts in self.table.items():
            pts = sorted({(s, st) for s, st in pts if s >= 16 and st > 0})
            if len(pts) < 4 or pts[-1][0] < 8 * pts[0][0]:
                continue
            xs = [math.log(s) for s, _ in pts]
            ys = [math.log(st) for _, st in pts]
            mx, my = sum(xs) / len(xs), sum(ys) / len(ys)
            slope = sum((x - mx) * (y - my) for x, y in zip(xs, ys)) / sum((x - mx) ** 2 for x in xs)
            res[key] = round(slope, 3)
            R.counters['oracle_evaluations'] += 1
            R.count('exponents_fitted')
            if slope > EXPONENT_LIMIT:
                R.violation(f'growth-exponent-{key}', f'steps of {key} grow like size^{slope:.2f} (> {EXPONENT_LIMIT})', {'points': pts[:40]})
        return res


# ------------------------------------------------------------------------------------------- DAG operations
def dag_families(rng, quick):
    sizes = [8, 32, 128, 512] if quick else [8, 32, 128, 512, 2000, 5000]
    for n in sizes:
        yield 'chain', n, gen.chain(min(n, 1000))
        yield 'random-dag', n, gen.rand_dag(rng, n)
        yield 'wide', n, wide(n)
    for lv in ([8, 16, 24, 40, 64] if quick else [8, 12, 16, 20, 24, 32, 40, 64, 128, 300]):
        yield 'ladder2', lv, gen.ladder(lv, 2)
        yield 'ladder4', lv, gen.ladder(lv, 4)
        yield 'diamond', lv, gen.diamond(lv)
    for d in ((3, 4) if quick else (3, 4, 5, 6)):
        yield 'kary4', d, gen.kary(4, d)


def wide(n):
    """n leaves under a 4-ary tree of inner cells, all leaves distinct"""
    level = [rc.RC(rc.u(i, 20)) for i in range(n)]
    k = 0
    while len(level) > 1:
        nxt = []
        for i in range(0, len(level), 4):
            k += 1
            nxt.append(rc.RC(rc.u(k, 20) + '1', level[i:i + 4]))
        level = nxt
    return level[0]


def dag_part(R, S, rng, quick):
    from pytoniq_core.boc import Cell, Slice
    for fam, param, root in dag_families(rng, quick):
        n, e = dag_size(root)
        s = n + e
        W = {'family': fam, 'param': param, 'cells': n, 'refs': e}
        # construction (hashing) of the whole DAG bottom-up: one Cell() per distinct cell
        cell = S.run(fam, 'build+hash', s, lambda: bridge.to_lib(root, 'builder'), W, expect='ok')
        if cell is None:
            continue
        R.check(cell.hash == root.hash, 'dag-hash', 'DAG hash differs from reference', W)
        S.run(fam, 'order', s, lambda: cell.order(), W, expect='ok')
        bocs = {}
        for opts in ((False, False, False), (True, True, False), (True, True, True)):
            b = S.run(fam, 'to_boc', s, lambda: cell.to_boc(*opts), dict(W, opts=opts), expect='ok')
            if b is not None:
                bocs[opts] = b
        for opts, b in bocs.items():
            back = S.run(fam, 'from_boc', s, lambda: Cell.one_from_boc(b), dict(W, opts=opts), expect='ok')
            if back is not None:
                R.check(back.hash == cell.hash, 'dag-roundtrip-hash', 'from_boc(to_boc) changed the hash', W)
        if bocs:
            b = next(iter(bocs.values()))
            S.run(fam, 'Slice.one_from_boc', s, lambda: Slice.one_from_boc(b), W, expect='ok')
            S.run(fam, 'from_boc(hex)', s + len(b), lambda: Cell.one_from_boc(b.hex()), W, expect='ok')
        S.run(fam, 'copy', s, lambda: cell.copy(), W, expect='ok')
        S.run(fam, 'begin_parse.to_cell', s, lambda: cell.begin_parse().to_cell(), W, expect='ok')
        S.run(fam, 'hash/eq', s, lambda: (hash(cell), cell == cell.copy(), cell.get_hash(0), cell.get_depth(0)), W, expect='ok')
        S.run(fam, 'calculate_representation_hash', s, lambda: cell.calculate_representation_hash(), W, expect='ok')
        # equal DAGs made of distinct objects at every level: the same bag parsed twice; comparing them, looking one up in a set / dict keyed by the other, and
        # serialising a parent that holds both must cost about the size of the DAG, not the number of its paths
        if bocs and len(cell.refs) <= 2:
            b0 = next(iter(bocs.values()))
            twin1, twin2 = Cell.one_from_boc(b0), Cell.one_from_boc(b0)
            S.run(fam, 'twin == twin', s, lambda: (twin1 == twin2, twin1 != twin2, twin2 == cell), W, expect='ok')
            S.run(fam, 'twin in {twin}', s, lambda: (twin1 in {twin2}, {twin1: 1}.get(twin2), len({twin1, twin2, cell})), W, expect='ok')

            def both():
                return bridge.lib().Builder().store_ref(twin1).store_ref(twin2).end_cell()
            parent2 = S.run(fam, 'parent of two twins', s, both, W, expect='ok')
            if parent2 is not None:
                S.run(fam, 'to_boc(parent of two twins)', 2 * s, lambda: parent2.to_boc(True, True), W, expect='ok')
            # copies linked crosswise: each level exists as two distinct equal objects, each referring to both objects of the level below
            if fam in ('ladder2', 'diamond') and param <= 64:
                def cross(levels=param):
                    B_ = bridge.lib().Builder
                    a = B_().store_uint(1, 1).end_cell()
                    b_ = B_().store_uint(1, 1).end_cell()
                    for _ in range(levels):
                        a, b_ = B_().store_ref(a).store_ref(b_).end_cell(), B_().store_ref(b_).store_ref(a).end_cell()
                    return a, b_
                pair = S.run(fam, 'build cross-linked twins', 4 * param + 4, cross, W, expect='ok')
                if pair is not None:
                    S.run(fam, 'cross-linked twins ==', 4 * param + 4, lambda: pair[0] == pair[1], W, expect='ok')
                    S.run(fam, 'to_boc(cross-linked twins)', 4 * param + 4, lambda: (pair[0].to_boc(), pair[1].to_boc(True, True, True)), W, expect='ok')
        # derived objects are used (a builder made from the cell takes the cell itself as one more reference), then everything is serialised again: a cell
        # can never come to contain itself, so the traversals stay bounded by the same size
        if len(cell.refs) < 4 and n <= 600:
            def derive():
                b = cell.to_builder()
                b.store_ref(cell)
                return b.end_cell()
            parent = S.run(fam, 'to_builder+store_ref(self)', s, derive, W, expect='ok')
            if parent is not None:
                S.run(fam, 'to_boc(parent built from the cell)', s + 2, lambda: parent.to_boc(), W, expect='ok')
                S.run(fam, 'to_boc(after derived use)', s, lambda: cell.to_boc(True, True), W, expect='ok')
                S.run(fam, 'order(after derived use)', s, lambda: cell.order(), W, expect='ok')
        R.case(mon.fp('dag', fam, param), sample=W)
        R.cover('dag_families', fam)


# ------------------------------------------------------------------------------------------- BoC parser on adversarial headers
def boc_part(R, S, rng, quick):
    from pytoniq_core.boc import Cell
    bases = []
    for i in range(4 if quick else 16):
        root = gen.rand_dag(rng, rng.choice([3, 10, 40]))
        for kw in (dict(), dict(has_idx=True, has_crc=True), dict(has_idx=True, has_cache_bits=True), dict(size=4, off_bytes=8), dict(size=4, off_bytes=8, has_idx=True), dict(size=3, off_bytes=5, has_idx=True, has_crc=True),
                   dict(magic='idx'), dict(magic='idx_crc'), dict(magic='idx', size=4, off_bytes=4)):
            try:
                bases.append((rc.encode_boc([root], **kw), kw))
            except rc.RefError:
                pass
    for data, kw in bases:
        hdr = rc.decode_boc(data)['header']
        size, off = hdr['size'], hdr['off_bytes']
        p0 = 5 if hdr['magic'] == 'generic' else 5
        fields = {'cells': (p0 + 1, size), 'roots': (p0 + 1 + size, size), 'absent': (p0 + 1 + 2 * size, size), 'tot_cells_size': (p0 + 1 + 3 * size, off)}
        W0 = {'base_len': len(data), 'opts': {k: str(v) for k, v in kw.items()}}
        S.run('boc-valid', 'from_boc', len(data), lambda: Cell.from_boc(data), dict(W0, boc=data if len(data) < 400 else None), expect='ok')
        for fname, (pos, width) in fields.items():
            for val in {(1 << (8 * width)) - 1, (1 << (8 * width - 1)), hdr['cells'] + 1, 255 % (1 << 8 * width), 0}:
                mut = bytearray(data)
                mut[pos:pos + width] = val.to_bytes(width, 'big')
                mut = bytes(mut)
                S.run('boc-header-rewrite', 'from_boc', len(mut), lambda: Cell.from_boc(mut), dict(W0, field=fname, value=val, boc=mut if len(mut) < 400 else None))
                R.case(mon.fp('bochdr', mut))
                R.cover('boc_fields', fname)
        # size / offset width bytes themselves, flags byte
        for pos in (4, 5):
            for val in (0, 1, 4, 7, 8, 255):
                mut = bytearray(data)
                mut[pos] = val if pos == 5 or hdr['magic'] != 'generic' else (mut[pos] & 0xF8) | (val & 7)
                mut = bytes(mut)
                S.run('boc-width-rewrite', 'from_boc', len(mut), lambda: Cell.from_boc(mut), dict(W0, pos=pos, value=val, boc=mut if len(mut) < 400 else None))
                R.case(mon.fp('bocw', mut))
        # random garbage after a valid prefix
        for _ in range(3):
            mut = data[:rng.randrange(4, min(len(data), 30))] + rng.randbytes(rng.randrange(0, 200))
            S.run('boc-garbage', 'from_boc', len(mut), lambda: Cell.from_boc(mut), dict(W0, boc=mut))
            R.case(mon.fp('bocg', mut))
    # a cell the parser has to refuse (unknown exotic type, pruned branch with references, Merkle proof with a wrong stored hash, library cell of the wrong size)
    # sitting above a 2-way ladder: refusing it - formatting the error included - must not walk the shared DAG below once per path
    for lv in ([16, 30, 60] if quick else [8, 16, 24, 40, 60, 120]):
        lad = gen.ladder(lv, 2)
        order = rc.topo_order([lad])
        size = rc.minbytes(len(order) + 1)
        idx_of = {c.hash: i + 1 for i, c in enumerate(order)}
        blobs = [c.serialize(idx_of, size) for c in order]
        one = (1).to_bytes(size, 'big')
        for what, root_blob in (('unknown-exotic-type', bytes([0x08 | 2, 2, 7]) + one + one),
                                ('pruned-branch-with-refs', bytes([0x08 | 2, 2 * 36, 1, 1]) + bytes(34) + one + one),
                                ('merkle-proof-wrong-hash', bytes([0x08 | 1, 2 * 35, 3]) + bytes(34) + one),
                                ('library-cell-wrong-size', bytes([0x08 | 1, 2 * 5, 2]) + bytes(4) + one),
                                ('ordinary-with-5-refs', bytes([5, 0]) + one * 5)):
            data = b''.join([root_blob] + blobs)
            off = rc.minbytes(len(data))
            hdr = rc.MAGIC_GENERIC + bytes([size, off]) + (len(order) + 1).to_bytes(size, 'big') + (1).to_bytes(size, 'big') + (0).to_bytes(size, 'big') + len(data).to_bytes(off, 'big') + (0).to_bytes(size, 'big')
            boc = hdr + data
            S.run('boc-invalid-cell-above-ladder', 'from_boc', len(boc), lambda: Cell.from_boc(boc), {'levels': lv, 'invalid_root': what, 'boc': boc if len(boc) < 900 else None})
            R.case(mon.fp('bocinv', lv, what))


def boc_header_product(R, S, rng, quick):
    """headers assembled field by field (not derived from a valid bag): every combination of flag bits, size / offset widths incl. 0 and out-of-range ones,
    cell / root / absent counts incl. huge ones, total size, followed by a little filler.  Whatever the parser makes of them, its work is bounded by the input length."""
    import itertools
    from pytoniq_core.boc import Cell
    flags_l = [0x00, 0x80, 0x40, 0xC0, 0xA0, 0xE0, 0x20, 0x18]
    sizes = [0, 1, 2, 3, 4, 7]
    offs = [0, 1, 2, 4, 8, 9, 255]
    counts = ['0', '1', '2', 'big', 'max']
    combos = list(itertools.product(flags_l, sizes, offs, counts, ['0', '1', '2', 'max'], ['0', '1'], ['0', 'small', 'max']))
    if quick:
        combos = rng.sample(combos, 2500)
    elif R.nshards > 1:
        combos = combos[R.shard::R.nshards]

    def num(kind, width):
        top = (1 << (8 * width)) - 1 if width else 0
        return {'0': 0, '1': min(1, top), '2': min(2, top), 'big': min(500000, top), 'max': top, 'small': min(11, top)}[kind]
    for flags, size, off, cells, roots, absent, tot in combos:
        w = size & 7
        hdr = bytes.fromhex('b5ee9c72') + bytes([flags | w, off])
        try:
            hdr += num(cells, w).to_bytes(w, 'big') + num(roots, w).to_bytes(w, 'big') + num(absent, w).to_bytes(w, 'big') + num(tot, min(off, 8)).to_bytes(min(off, 8), 'big')
        except OverflowError:
            continue
        for filler in (b'', bytes(rng.randrange(1, 40)), rng.randbytes(rng.randrange(1, 60))):
            data = hdr + filler
            S.run('boc-header-product', 'from_boc', len(data), lambda: Cell.from_boc(data),
                  {'flags': flags, 'size': size, 'off_bytes': off, 'cells': cells, 'roots': roots, 'absent': absent, 'tot_cells_size': tot, 'boc': data}, mem=True)
            R.case(mon.fp('bochp', data))
        R.cover('boc_header_off_bytes', off)
        R.cover('boc_header_size', size)
    # the two lean magics: size byte, offset byte, then counts
    for magic in ('68ff65f3', 'acc3a728'):
        for size, off, cells in itertools.product([0, 1, 2, 4, 7], [0, 1, 2, 8, 255], ['0', '1', 'big', 'max']):
            w = size & 7
            hdr = bytes.fromhex(magic) + bytes([size, off]) + num(cells, w).to_bytes(w, 'big') + num('1', w).to_bytes(w, 'big') + num('0', w).to_bytes(w, 'big')
            hdr += num('small', min(off, 8)).to_bytes(min(off, 8), 'big')
            for filler in (b'', rng.randbytes(rng.randrange(1, 60))):
                data = hdr + filler
                S.run('boc-header-product', 'from_boc', len(data), lambda: Cell.from_boc(data), {'magic': magic, 'size': size, 'off_bytes': off, 'cells': cells, 'boc': data}, mem=True)
                R.case(mon.fp('bochp', data))


# ------------------------------------------------------------------------------------------- TL parser
def tl_part(R, S, rng, quick):
    from pytoniq_core.tl.generator import TlGenerator
    schemas = TlGenerator.with_default_schemas().generate()
    le = lambda v, n=4: v.to_bytes(n, 'little')

    def tl_bytes(b):
        h = bytes([len(b)]) if len(b) <= 253 else b'\xfe' + le(len(b), 3)
        out = h + b
        return out + b'\x00' * (-len(out) % 4)

    vec_ctors = [(s.name, [f for f, t in s.args.items() if 'vector' in t]) for s in schemas.list if any('vector' in t for t in s.args.values())]
    R.extra['tl_vector_constructors'] = len(vec_ctors)
    # 1. vector-bearing constructors: id + (zero fields before the vector where possible) + count rewritten
    simple = []
    for s in schemas.list:
        args = list(s.args.items())
        if args and 'vector' in args[0][1] and '?' not in args[0][1]:
            simple.append(s)
    R.extra['tl_vector_first_field_constructors'] = [s.name for s in simple][:12]
    for s in (simple[:6] if quick else simple):
        for count in (0, 1, 2, 7, 1 << 16, (1 << 24) - 1, (1 << 31), (1 << 32) - 1):
            for tail in (b'', rng.randbytes(4), rng.randbytes(64), b'\x00' * 40):
                data = s.little_id() + le(count) + tail
                S.run('tl-vector-count', 'TlSchemas.deserialize', len(data), lambda: schemas.deserialize(data), {'constructor': s.name, 'count': count, 'data': data})
                R.case(mon.fp('tlv', s.name, count, tail))
                R.cover('tl_counts', count)
    # unboxed vector element path and vectors behind other fields: liteServer.* answers with (vector ...) after fixed fields
    for s in schemas.list:
        args = list(s.args.items())
        vi = [i for i, (f, t) in enumerate(args) if 'vector' in t]
        if not vi or vi[0] == 0 or any('?' in t for _, t in args[:vi[0]]):
            continue
        fixed = 0
        ok = True
        for f, t in args[:vi[0]]:
            n = schemas.base_types.get(t)
            if not n:
                ok = False
                break
            fixed += n
        if not ok:
            continue
        for count in (3, (1 << 24) - 1, (1 << 32) - 1):
            data = s.little_id() + rng.randbytes(fixed) + le(count) + rng.randbytes(rng.choice([0, 8, 100]))
            S.run('tl-vector-count-after-fields', 'TlSchemas.deserialize', len(data), lambda: schemas.deserialize(data), {'constructor': s.name, 'count': count, 'data': data})
            R.case(mon.fp('tlv2', s.name, count, data))
        if quick and R.counters['calls_tl-vector-count-after-fields'] > 60:
            break
    # 2. nested bytes-in-bytes: adnl.message.custom data:bytes, each level wrapping the previous one
    custom = schemas.get_by_name('adnl.message.custom')
    query = schemas.get_by_name('adnl.message.query')
    for levels in ([1, 4, 16, 60] if quick else [1, 2, 4, 8, 16, 32, 60, 120, 250]):
        payload = b'innermost-opaque'
        for _ in range(levels):
            payload = custom.little_id() + tl_bytes(payload)
        S.run('tl-nested-bytes', 'TlSchemas.deserialize', len(payload), lambda: schemas.deserialize(payload), {'levels': levels, 'len': len(payload)})
        R.case(mon.fp('tlnest', levels))
    # nesting where every level packs several objects into its bytes field and the nesting continues inside the first / the last / every one of them
    leaf = custom.little_id() + tl_bytes(b'leaf-obj')
    for where in ('first', 'last', 'both'):
        for levels in ([1, 4, 12, 24] if quick else [1, 2, 4, 8, 12, 16, 24, 40, 80]):
            if where == 'both' and levels > 8:
                continue        # two nested objects per level: the input itself doubles per level
            payload = leaf
            for _ in range(levels):
                inner = {'first': payload + leaf, 'last': leaf + payload, 'both': payload + payload}[where]
                payload = custom.little_id() + tl_bytes(inner)
            if len(payload) > 200000:
                continue
            S.run('tl-nested-object-lists', 'TlSchemas.deserialize', len(payload), lambda: schemas.deserialize(payload), {'levels': levels, 'nested_in': where, 'len': len(payload)})
            R.case(mon.fp('tlnestlist', where, levels))
    # bytes field holding k concatenated objects (the re-parse loop), and k objects followed by garbage
    for k in ([1, 8, 64, 400] if quick else [1, 2, 8, 32, 64, 128, 400, 1000, 3000]):
        inner = (custom.little_id() + tl_bytes(b'x' * 8)) * k
        for suffix in (b'', b'\x01\x02\x03\x04garbage!'):
            data = custom.little_id() + tl_bytes(inner + suffix)
            S.run('tl-bytes-object-list', 'TlSchemas.deserialize', len(data), lambda: schemas.deserialize(data), {'objects': k, 'len': len(data), 'suffix': suffix})
            R.case(mon.fp('tllist', k, suffix))
    # 3. length fields of bytes rewritten
    for ln in (0, 1, 253, 254, 255, 1 << 16, (1 << 24) - 1):
        for body in (b'', rng.randbytes(10), rng.randbytes(300)):
            h = bytes([ln]) if ln < 254 else b'\xfe' + le(ln, 3)
            data = custom.little_id() + h + body
            S.run('tl-bytes-length', 'TlSchemas.deserialize', len(data), lambda: schemas.deserialize(data), {'declared': ln, 'actual': len(body), 'data': data[:80]})
            R.case(mon.fp('tllen', ln, body))
    # 4. random bytes after valid constructor ids
    ids = [s for s in schemas.list if not s.is_empty()]
    for i in range(150 if quick else 3000):
        s = rng.choice(ids)
        data = s.little_id() + rng.randbytes(rng.choice([0, 3, 4, 8, 32, 200]))
        if rng.random() < 0.3:
            data = s.little_id() + b'\xff' * rng.choice([4, 8, 64])
        S.run('tl-random-after-id', 'TlSchemas.deserialize', len(data), lambda: schemas.deserialize(data), {'constructor': s.name, 'data': data})
        R.case(mon.fp('tlrand', data))
    R.cover('tl_families', 'done')


# ------------------------------------------------------------------------------------------- dictionary parsers
def dict_part(R, S, rng, quick):
    from pytoniq_core.boc.hashmap.hashmap import HashMap
    from pytoniq_core.boc.hashmap.parse import parse_hashmap, parse_hashmap_aug
    for n in ([4, 32, 256, 1000] if quick else [4, 32, 256, 1000, 4000, 10000]):
        w = 32
        m = {dictref.u(k, w): (dictref.u(k & 0xFF, 8), []) for k in {rng.getrandbits(w) for _ in range(n)}}
        tree = dictref.encode(m, w)
        cells = len(rc.structural(tree))
        cell = bridge.to_lib(tree, 'builder')
        W = {'keys': len(m), 'cells': cells, 'width': w}
        got = S.run('dict-canonical', 'parse_hashmap', cells, lambda: parse_hashmap(cell.begin_parse(), w), W, expect='ok')
        if got is not None:
            R.check(len(got) == len(m), 'dict-leaves', 'dictionary parser lost leaves', W)
        S.run('dict-canonical', 'HashMap.parse', cells, lambda: HashMap.parse(cell.begin_parse(), w, value_deserializer=lambda s: s.load_uint(8)), W, expect='ok')
        aug = dictref.encode(m, w, aug=(lambda v: 1, lambda a, b: (a + b) & 0xFFFF, 16))
        acell = bridge.to_lib(aug, 'builder')
        S.run('dict-canonical', 'parse_hashmap_aug', cells, lambda: parse_hashmap_aug(acell.begin_parse(), w, lambda s: s.load_uint(8), lambda s: s.load_uint(16)), W, expect='ok')
        hm = HashMap(w).with_uint_values(8)
        for k in m:
            hm.set_int_key(int(k, 2), 1)
        S.run('dict-canonical', 'HashMap.serialize', cells, lambda: hm.serialize(), W, expect='ok')
        R.case(mon.fp('dict', n))
    # shared subtrees: a dictionary DAG whose unfolded tree has 2^d leaves; size measure = unfolded cells (2^(d+1) - 1)
    for d in ([2, 6, 10] if quick else [2, 4, 6, 8, 10, 12, 14, 16]):
        leaf = rc.RC('00' + '10101010')            # hml_short n=0, m=0 leaf with an 8-bit value
        c = leaf
        for i in range(d):
            c = rc.RC('00', (c, c))                # empty label, fork
        cell = bridge.to_lib(c, 'builder')
        unfolded = 2 ** (d + 1) - 1
        got = S.run('dict-shared-subtrees', 'parse_hashmap', unfolded, lambda: parse_hashmap(cell.begin_parse(), d), {'depth': d, 'unfolded_cells': unfolded}, expect='ok')
        if got is not None:
            R.check(len(got) == 2 ** d, 'dict-shared-leaves', f'dictionary with shared subtrees: {len(got)} leaves, want {2 ** d}', {'depth': d})
        R.case(mon.fp('dictdag', d))
    # the same shape measured against the INPUT: 19 cells / 105 bytes unfold to 2^18 entries. The work is proportional to the result, but the result is exponential in
    # the input, and the property promises a bound in the input - a recorded finding (key unbounded-parse_hashmap-dict-shared-leaves-by-input-size)
    for d in ([18] if quick else [16, 18, 22, 30]):
        c = rc.RC('00' + '10101010')
        for i in range(d):
            c = rc.RC('00', (c, c))
        cell = bridge.to_lib(c, 'builder')
        n, e = dag_size(c)
        S.run('dict-shared-leaves-by-input-size', 'parse_hashmap', n + e, lambda: parse_hashmap(cell.begin_parse(), d), {'depth': d, 'unfolded_leaves': 2 ** d, 'boc': rc.encode_boc([c])})
        R.case(mon.fp('dictdag-input', d))
    # ladders that yield no leaf at all: the work must then be bounded by the input (n + e), there is no output to pay for
    for d in ([8, 16, 24, 40] if quick else [4, 8, 12, 16, 20, 24, 32, 40, 64, 128]):
        pruned_leaf = rc.make_pruned(rc.RC('1'), 1)
        # every kind of cell a dictionary walk does not descend into: a pruned branch (level 1), and the exotic kinds of level 0 - a library reference, a Merkle
        # proof / update of a level-1 subtree
        lib_leaf = rc.make_library(bytes(range(32)))
        proof_leaf = rc.make_merkle_proof(rc.RC('101', (pruned_leaf,)))
        for fam, top_bits, w, end in (('dict-overlong-label-then-ladder', '10' + '1111' + '1' * 15, 8, pruned_leaf),      # hml_long n=15 although only m=8 key bits remain: m goes negative
                                      ('dict-overlong-same-label-then-ladder', '11' + '1' + '1111', 8, pruned_leaf),       # hml_same n=15, m=8
                                      ('dict-pruned-leaf-ladder', None, 1023, pruned_leaf),                              # valid empty labels, every path ends in a pruned branch
                                      ('dict-library-leaf-ladder', None, 1023, lib_leaf),
                                      ('dict-merkle-proof-leaf-ladder', None, 1023, proof_leaf)):
            c = end
            for i in range(d):
                c = rc.RC('00', (c, c))
            if top_bits:
                c = rc.RC(top_bits, (c, c))
            cell = bridge.to_lib(c, 'builder')
            n, e = dag_size(c)
            W = {'depth': d, 'width': w, 'boc': rc.encode_boc([c]), 'paths': 2 ** d}
            got = S.run(fam, 'parse_hashmap', n + e, lambda: parse_hashmap(cell.begin_parse(), w), W)
            S.run(fam, 'load_dict', n + e, lambda: bridge.lib().Builder().store_dict(cell).end_cell().begin_parse().load_dict(w), W)
            # the augmented parser returns one augmentation value per fork visited, so its output (and honest size measure) is the unfolded tree;
            # an over-long label must stop it at once
            S.run(fam, 'parse_hashmap_aug', (n + e) if top_bits else 2 ** (min(d, 40) + 1), lambda: parse_hashmap_aug(cell.begin_parse(), w, lambda s: s, lambda s: 0), W) \
                if (top_bits or d <= 12) else None
            # ... and measured against the INPUT (n + e) as the property words it ("a few-hundred-byte input cannot make the library run for more than a fraction of
            # a second"): the augmented parser has no memo for shared subtrees that yield no leaf, it walks them once per path and returns one augmentation value per
            # fork visit - a recorded finding (known_findings.txt, key unbounded-parse_hashmap_aug-dict-leafless-ladder-by-input-size); also through the typed entry point
            if not top_bits and d >= 16:
                S.run('dict-leafless-ladder-by-input-size', 'parse_hashmap_aug', n + e, lambda: parse_hashmap_aug(cell.begin_parse(), w, lambda s: s, lambda s: 0), dict(W, leaf=fam))
                S.run('dict-leafless-ladder-by-input-size', 'load_hashmap_aug_e', n + e,
                      lambda: bridge.lib().Builder().store_dict(cell).end_cell().begin_parse().load_hashmap_aug_e(w, lambda s: s, lambda s: 0), dict(W, leaf=fam))
            R.case(mon.fp('dictladder', fam, d))
    # a shared leafless ladder next to real entries: before it (smaller keys), after it, on both sides - the leaves found must not change what is remembered as leafless
    for d in ([8, 16, 30] if quick else [4, 8, 16, 24, 40, 64, 128]):
        pruned_leaf = rc.make_pruned(rc.RC('1'), 1)
        barren = pruned_leaf
        for i in range(d):
            barren = rc.RC('00', (barren, barren))
        w = d + 2

        def real(bits_left):
            # a path of forks (empty labels) ending in a leaf with an 8-bit value; the unused side of each fork is a pruned branch
            c = rc.RC('00' + '11001100')
            for i in range(bits_left):
                c = rc.RC('00', (c, pruned_leaf))
            return c
        for fam, build in (('dict-entry-before-barren', lambda: rc.RC('00', (rc.RC('00', (real(d), pruned_leaf)), rc.RC('00', (barren, barren))))),
                           ('dict-entry-after-barren', lambda: rc.RC('00', (rc.RC('00', (barren, barren)), rc.RC('00', (real(d), pruned_leaf))))),
                           ('dict-entries-around-barren', lambda: rc.RC('00', (rc.RC('00', (real(d), barren)), rc.RC('00', (barren, real(d))))))):
            c = build()
            cell = bridge.to_lib(c, 'builder')
            n, e = dag_size(c)
            W = {'depth': d, 'width': w, 'boc': rc.encode_boc([c]) if n < 80 else None, 'paths': 2 ** d}
            got = S.run(fam, 'parse_hashmap', n + e, lambda: parse_hashmap(cell.begin_parse(), w), W, expect='ok')
            if got is not None:
                R.check(len(got) in (1, 2), 'dict-entries-around-barren-leaves', f'{fam}: {len(got)} leaves returned', W)
            S.run(fam, 'HashMap.parse', n + e, lambda: HashMap.parse(cell.begin_parse(), w), W, expect='ok')
            S.run(fam, 'load_dict', n + e, lambda: bridge.lib().Builder().store_dict(cell).end_cell().begin_parse().load_dict(w), W, expect='ok')
            R.case(mon.fp('dictbarren', fam, d))
    # many real entries (more than 256, more than 1000) parsed before a shared leafless ladder is reached
    for nkeys, d in ([(300, 40), (1200, 30)] if quick else [(257, 24), (300, 40), (1200, 30), (5000, 60)]):
        pruned_leaf = rc.make_pruned(rc.RC('1'), 1)
        barren = pruned_leaf
        for i in range(d):
            barren = rc.RC('00', (barren, barren))
        keys = {dictref.u(k, d): ('1' * 8, []) for k in rng.sample(range(1 << min(d, 30)), nkeys)}
        left = dictref.encode(keys, d)
        c = rc.RC('00', (left, barren))                     # key width d + 1: entries under bit 0, the leafless ladder under bit 1
        cell = bridge.to_lib(c, 'builder')
        n, e = dag_size(c)
        W = {'entries': nkeys, 'ladder_depth': d, 'paths': 2 ** d}
        got = S.run('dict-many-entries-before-barren', 'parse_hashmap', n + e, lambda: parse_hashmap(cell.begin_parse(), d + 1), W, expect='ok')
        if got is not None:
            R.check(len(got) == nkeys, 'dict-many-entries-before-barren-leaves', f'{len(got)} leaves returned, {nkeys} in the tree', W)
        S.run('dict-many-entries-before-barren', 'load_dict', n + e, lambda: bridge.lib().Builder().store_dict(cell).end_cell().begin_parse().load_dict(d + 1), W, expect='ok')
        R.case(mon.fp('dictmany', nkeys, d))
    # fuzzed dictionary cells: random bits/refs fed to the parsers (must stop: raise or return)
    for i in range(100 if quick else 2000):
        root = gen.rand_dag(rng, rng.choice([1, 3, 10, 30]), max_bits=40)
        n, e = dag_size(root)
        cell = bridge.to_lib(root, 'builder')
        w = rng.choice([1, 8, 32, 256, 1023])
        S.run('dict-fuzzed', 'parse_hashmap', 4 ** 4 + n + e, lambda: parse_hashmap(cell.begin_parse(), w), {'boc': rc.encode_boc([root]), 'width': w})
        S.run('dict-fuzzed', 'parse_hashmap_aug', 4 ** 4 + n + e, lambda: parse_hashmap_aug(cell.begin_parse(), w, lambda s: s, lambda s: s.load_uint(1)),
              {'boc': rc.encode_boc([root]), 'width': w})
        R.case(mon.fp('dictfuzz', root.hash, w))


def run(R):
    rng = R.rng
    quick = R.tier == 'quick'
    R.rule = (f'every measured call runs under a sys.monitoring LINE-event counter restricted to repository code and is cut (violation) when it exceeds '
              f'{A} + {B}*s^2 logical steps (byte parsers additionally {A} + {LIN}*s), s = distinct cells + references for DAG operations (build/hash, order, to_boc x options, from_boc, copy ...), input bytes '
              f'for the BoC and TL parsers, unfolded cells for dictionary parsers; additionally the fitted growth exponent per (family, operation) must be <= '
              f'{EXPONENT_LIMIT}. Families: chains, random DAGs, wide trees, 2- and 4-way ladders (exponential path count), diamonds, k-ary trees; BoC headers with every '
              'count/size field rewritten and headers assembled as the product of flag/width/count values (incl. zero widths and huge counts); TL object lists nested inside object lists; TL vectors with rewritten counts, nested bytes-in-bytes, object lists in bytes, rewritten bytes lengths, random bytes '
              'after valid ids; canonical, shared-subtree and fuzzed dictionaries. distinct = distinct (family, parameter/input); non-trivial = all')
    R.assumptions = ['"terminates" is decided as bounded progress in logical steps (LINE events of repository code), not wall-clock',
                     'work inside C extensions (bitarray, hashlib) is not counted', 'Cell.__str__ (tree dump, output itself exponential on DAGs) is not measured']
    with Steps(R) as S:
        parts = [dag_part, boc_part, tl_part, dict_part]
        for i, part in enumerate(parts):
            if R.nshards > 1 and i % R.nshards != R.shard:
                continue
            part(R, S, rng, quick)
        boc_header_product(R, S, rng, quick)          # every shard takes its slice of the product
        ex = S.exponents()
        R.extra['growth_exponents'] = ex
        R.extra['steps_tables'] = {k: sorted(set(v))[:12] for k, v in S.table.items() if len(v) < 60 or k.startswith(('chain', 'ladder', 'tl-nested', 'dict-canonical'))}
        R.extra['max_steps_per_family'] = {k: max(st for _, st in v) for k, v in S.table.items()}
    if R.nshards == 1:
        R.floor('measured_calls', 1000)
        R.floor('exponents_fitted', 8)
        R.floor('calls_tl-vector-count', 50)
        R.floor('calls_ladder2', 20)
        R.floor('calls_boc-header-product', 2000)
        R.floor('calls_tl-nested-object-lists', 8)
        R.floor('calls_boc-invalid-cell-above-ladder', 10)


def replay(R, w, rec):
    R.inconc('replay-by-rerun: C19 witnesses name the family and parameter; run the quick tier')

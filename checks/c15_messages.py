"""C15 - messages, state-inits and currency values serialise per block.tlb and round-trip (every valid placement parses alike)."""
from lib import bridge, gen, mon, refcell as rc, tlbref as T

SHARDS = 16
SHARD_TIMEOUT = 3600
PLACEMENTS = [('inline', 'inline'), ('inline', 'ref'), ('ref', 'inline'), ('ref', 'ref')]


# ------------------------------------------------------------------------------------------- logical values
def g_int_addr(rng, anycast_ok=True):
    a = {'workchain_id': rng.choice([0, -1, 127, -128, rng.randrange(-128, 128)]), 'address': rng.choice([bytes(32), b'\xff' * 32, rng.randbytes(32)])}
    if anycast_ok and rng.random() < 0.2:
        d = rng.choice([1, 2, 30, rng.randint(1, 30)])
        a['anycast'] = (d, rng.getrandbits(d))
    return a


def g_ext_addr(rng):
    if rng.random() < 0.4:
        return None
    ln = rng.choice([0, 1, 8, 255, 256, 511, rng.randrange(512)])
    return {'len': ln, 'external_address': rng.getrandbits(ln) if ln else 0}


def g_grams(rng):
    return rng.choice([0, 1, 255, 256, 65535, 65536, 10 ** 9, (1 << 120) - 1, rng.getrandbits(rng.choice([7, 8, 9, 64, 119, 120]))])


def g_cc(rng, n_extra=None):
    n = rng.choice([0, 0, 0, 1, 2, 5]) if n_extra is None else n_extra
    other = {}
    for _ in range(n):
        other[rng.choice([0, 1, 2 ** 32 - 1, rng.getrandbits(32)])] = rng.choice([1, 255, 256, (1 << 248) - 1, rng.getrandbits(rng.choice([8, 64, 247]))])
    return {'grams': g_grams(rng), 'other': other}


def g_cell(rng, bits, refs):
    return rc.RC(gen.rand_bits(rng, bits), [rc.RC(gen.rand_bits(rng, 5 + i)) for i in range(refs)])


def g_state_init(rng, subset=None):
    parts = subset if subset is not None else [p for p in ('split_depth', 'special', 'code', 'data', 'library') if rng.random() < 0.5]
    s = {}
    if 'split_depth' in parts:
        s['split_depth'] = rng.choice([0, 1, 30, 31])
    if 'special' in parts:
        s['special'] = {'tick': rng.random() < 0.5, 'tock': rng.random() < 0.5}
    for i, k in enumerate(('code', 'data', 'library')):
        if k in parts:
            s[k] = g_cell(rng, rng.choice([0, 9, 300]), rng.choice([0, 1, 2]))
    return s


def g_info(rng, kind=None, n_extra=None):
    kind = kind or rng.choice(['int_msg_info', 'ext_in_msg_info', 'ext_out_msg_info'])
    if kind == 'int_msg_info':
        return {'_': kind, 'ihr_disabled': rng.random() < 0.5, 'bounce': rng.random() < 0.5, 'bounced': rng.random() < 0.5,
                'src': g_int_addr(rng) if rng.random() < 0.8 else None, 'dest': g_int_addr(rng), 'value': g_cc(rng, n_extra), 'ihr_fee': g_grams(rng), 'fwd_fee': g_grams(rng),
                'created_lt': rng.choice([0, 2 ** 64 - 1, 2 ** 63, rng.getrandbits(64)]), 'created_at': rng.choice([0, 2 ** 32 - 1, 2 ** 31, rng.getrandbits(32)])}
    if kind == 'ext_in_msg_info':
        return {'_': kind, 'src': g_ext_addr(rng), 'dest': g_int_addr(rng), 'import_fee': g_grams(rng)}
    return {'_': kind, 'src': g_int_addr(rng) if rng.random() < 0.9 else None, 'dest': g_ext_addr(rng), 'created_lt': rng.getrandbits(64), 'created_at': rng.getrandbits(32)}


# ------------------------------------------------------------------------------------------- to / from library objects
class Lib:
    def __init__(self):
        import importlib
        self.tr = importlib.import_module('pytoniq_core.tlb.transaction')
        self.acc = importlib.import_module('pytoniq_core.tlb.account')
        self.blk = importlib.import_module('pytoniq_core.tlb.block')
        self.B = bridge.lib()
        from pytoniq_core.boc.address import Address, ExternalAddress
        self.Address, self.ExternalAddress = Address, ExternalAddress

    def addr(self, a):
        if a is None:
            return None
        if 'len' in a:
            return self.ExternalAddress(a['external_address'], a['len'])
        x = self.Address((a['workchain_id'], a['address']))
        if a.get('anycast'):
            x.set_anycast(*a['anycast'])
        return x

    def cc(self, c):
        return self.blk.CurrencyCollection(c['grams'], self.blk.ExtraCurrencyCollection(dict(c.get('other') or {})))

    def state_init(self, s):
        if s is None:
            return None
        sp = self.acc.TickTock(s['special']['tick'], s['special']['tock']) if s.get('special') else None
        return self.acc.StateInit(split_depth=s.get('split_depth'), special=sp, code=bridge.to_lib(s['code']) if s.get('code') else None,
                                  data=bridge.to_lib(s['data']) if s.get('data') else None, library=bridge.to_lib(s['library']) if s.get('library') else None)

    def info(self, m):
        k = m['_']
        if k == 'int_msg_info':
            return self.tr.InternalMsgInfo(m['ihr_disabled'], m['bounce'], m['bounced'], self.addr(m['src']), self.addr(m['dest']), self.cc(m['value']),
                                           m['ihr_fee'], m['fwd_fee'], m['created_lt'], m['created_at'])
        if k == 'ext_in_msg_info':
            return self.tr.ExternalMsgInfo(self.addr(m['src']), self.addr(m['dest']), m['import_fee'])
        return self.tr.ExternalOutMsgInfo(self.addr(m['src']), self.addr(m['dest']), m['created_lt'], m['created_at'])

    def message(self, msg):
        return self.tr.MessageAny(self.info(msg['info']), self.state_init(msg.get('init')), bridge.to_lib(msg['body']))

    # ---- back to logical values (reads public attributes only)
    def l_addr(self, a):
        if a is None:
            return None
        if isinstance(a, self.ExternalAddress):
            if a.external_address is None:
                return None
            return {'len': a.len, 'external_address': a.external_address}
        out = {'workchain_id': a.wc, 'address': a.hash_part}
        if getattr(a, 'anycast', None) is not None:
            out['anycast'] = (a.anycast.depth, a.anycast.rewrite_pfx)
        return out

    def l_cc(self, c):
        return {'grams': c.grams, 'other': dict(c.other.dict or {})}

    def l_state_init(self, s):
        if s is None:
            return None
        out = {}
        if s.split_depth is not None:
            out['split_depth'] = s.split_depth
        if s.special is not None:
            out['special'] = {'tick': s.special.tick, 'tock': s.special.tock}
        for k in ('code', 'data', 'library'):
            if getattr(s, k) is not None:
                out[k] = bridge.from_lib(getattr(s, k))
        return out

    def l_info(self, i):
        if isinstance(i, self.tr.InternalMsgInfo):
            return {'_': 'int_msg_info', 'ihr_disabled': i.ihr_disabled, 'bounce': i.bounce, 'bounced': i.bounced, 'src': self.l_addr(i.src), 'dest': self.l_addr(i.dest),
                    'value': self.l_cc(i.value), 'ihr_fee': i.ihr_fee, 'fwd_fee': i.fwd_fee, 'created_lt': i.created_lt, 'created_at': i.created_at}
        if isinstance(i, self.tr.ExternalMsgInfo):
            return {'_': 'ext_in_msg_info', 'src': self.l_addr(i.src), 'dest': self.l_addr(i.dest), 'import_fee': i.import_fee}
        return {'_': 'ext_out_msg_info', 'src': self.l_addr(i.src), 'dest': self.l_addr(i.dest), 'created_lt': i.created_lt, 'created_at': i.created_at}

    def l_message(self, m):
        return {'info': self.l_info(m.info), 'init': self.l_state_init(m.init), 'body': bridge.from_lib(m.body)}


def diff(a, b, path='$'):
    if isinstance(a, dict) and isinstance(b, dict):
        for k in sorted(set(a) | set(b), key=str):
            if k not in a or k not in b:
                return f'{path}.{k}: only on one side'
            d = diff(a[k], b[k], f'{path}.{k}')
            if d:
                return d
        return None
    if type(a) is not type(b) and not (isinstance(a, (int, bool)) and isinstance(b, (int, bool)) and a == b and not isinstance(a, bool) ^ isinstance(b, bool)):
        return f'{path}: {type(a).__name__} {mon.srepr(a, 40)} vs {type(b).__name__} {mon.srepr(b, 40)}'
    return None if a == b else f'{path}: {mon.srepr(a, 50)} vs {mon.srepr(b, 50)}'


def describe(msg):
    i = msg['info']
    return {'kind': i['_'], 'extra_currencies': len((i.get('value') or {}).get('other') or {}), 'init': sorted(msg['init']) if msg.get('init') is not None else None,
            'init_refs': sum(1 for k in ('code', 'data', 'library') if (msg.get('init') or {}).get(k) is not None),
            'body_bits': len(msg['body'].bits), 'body_refs': len(msg['body'].refs),
            'anycast': bool((i.get('src') or {}).get('anycast') or (i.get('dest') or {}).get('anycast'))}


def one_message(R, L, msg):
    try:
        T.cell_of(T.enc_common_msg_info, msg['info'])
        T.cell_of(T.enc_message, msg, 'ref' if msg.get('init') is not None else 'inline', 'ref')
    except rc.RefError:
        R.count('header_does_not_fit_a_cell_skipped')      # not a valid message: the header itself cannot be moved into a reference
        return
    W = dict(describe(msg), boc_ref_ref=rc.encode_boc([T.cell_of(T.enc_message, msg, 'ref' if msg.get('init') is not None else 'inline', 'ref')]))
    want = T.norm_msg(msg)
    hdr = T.cell_of(T.enc_common_msg_info, msg['info'])
    budget = f'hdr-refs{len(hdr.refs)}-init-refs{W["init_refs"] if msg.get("init") is not None else "none"}-body-refs{len(msg["body"].refs)}'
    R.cover('budget_classes', budget)
    st, lm = mon.call(L.message, msg)
    if st == 'exc':
        R.violation(f'construct-raises-{type(lm).__name__}', f'constructing MessageAny raised {lm!r}', W)
        return
    # (1) serialising never fails for lack of room
    st, cell = mon.call(lm.serialize)
    R.counters['oracle_evaluations'] += 1
    R.count('serialisations')
    if st == 'exc':
        R.exc(cell)
        fits = [p for p in PLACEMENTS if _fits(msg, p)]
        R.violation(f'serialize-raises-{type(cell).__name__}-{"room" if "overflow" in str(cell).lower() else "other"}', f'MessageAny.serialize raised {cell!r} although placements '
                    f'{fits} fit ({budget})', W)
    else:
        # (2) an independent reading of block.tlb gives the same logical message
        try:
            got, placement = T.dec_message(bridge.from_lib(cell))
            d = diff(T.norm_msg(got), want)
            R.cover('library_placements', placement)
            R.cover('placement_by_budget', (budget, placement))
        except (rc.RefError, dictref_error()) as e:
            d = f'reference decoder rejects the cell: {e!r}'
        if d:
            R.violation(f'cell-denotes-other-message-{d.split(":")[0].split(".")[1] if "." in d.split(":")[0] else "structure"}', f'the serialised cell decodes (block.tlb) to another message: {d}', W)
        # (3) the library's own parser
        st, back = mon.call(parse_and_drain, L, cell)
        if st == 'exc':
            R.violation(f'deserialize-own-raises-{type(back).__name__}', f'MessageAny.deserialize of its own cell raised {back!r}', W)
        else:
            d = diff(T.norm_msg(L.l_message(back)), want)
            R.check(d is None, f'roundtrip-own-differs-{(d or "").split(":")[0].split(".")[1] if d and "." in d.split(":")[0] else "x"}', f'parse(serialize(m)) differs: {d}', W)
    # (3b) a message object is edited in place and serialised again: the cell is the encoding of the object as it is now
    edited_message(R, L, msg, lm, W)
    # (4) every other valid encoding parses to the same message
    for ip, bp in PLACEMENTS:
        if msg.get('init') is None and ip == 'ref':
            continue
        try:
            enc = T.cell_of(T.enc_message, msg, ip, bp)
        except rc.RefError:
            R.count('placements_not_fitting')
            continue
        if R.rng.random() < 0.15:
            bridge.damaged_before_valid(R, R.rng, enc, lambda c: parse_and_drain(L, c))
        st, back = mon.call(parse_and_drain, L, bridge.to_lib(enc))
        R.counters['oracle_evaluations'] += 1
        R.count('alternative_encodings_parsed')
        R.cover('alternative_placements', (ip if msg.get('init') is not None else None, bp))
        if st == 'exc':
            R.exc(back)
            R.violation(f'deserialize-valid-encoding-raises-{type(back).__name__}-init-{ip if msg.get("init") is not None else "none"}-body-{bp}',
                        f'MessageAny.deserialize raised {back!r} on a valid encoding (init {ip}, body {bp})', dict(W, boc=rc.encode_boc([enc])))
            continue
        d = diff(T.norm_msg(L.l_message(back)), want)
        if d:
            R.violation(f'valid-encoding-parses-differently-init-{ip if msg.get("init") is not None else "none"}-body-{bp}',
                        f'a valid encoding (init {ip}, body {bp}) parses to another message: {d}', dict(W, boc=rc.encode_boc([enc])))
    R.case(mon.fp('msg', W['boc_ref_ref']), sample=describe(msg))
    R.cover('header_kinds', msg['info']['_'])


def parse_and_drain(L, cell):
    """parse a message from a slice, then read whatever the slice still holds: the parsed object is the caller's and must not depend on the slice any more"""
    sl = cell.begin_parse()
    m = L.tr.MessageAny.deserialize(sl)
    sl.skip_bits(sl.remaining_bits)
    while sl.remaining_refs:
        sl.load_ref()
    return m


def edited_message(R, L, msg, lm, W):
    """wallet code builds a message once and adjusts it (amount, flags, timestamps, addresses, body) before each send: every serialisation must encode the current field values"""
    import copy as _copy
    rng = R.rng
    info = msg['info']
    m2 = {'info': _copy.deepcopy({k: v for k, v in info.items()}), 'init': msg.get('init'), 'body': msg['body']}
    li = lm.info
    edits = []
    try:
        if info['_'] == 'int_msg_info':
            how = rng.choice(['grams-in-place', 'value-replaced', 'flags', 'lt', 'dest'])
            if how == 'grams-in-place':
                g = g_grams(rng)
                li.value.grams = g
                m2['info']['value'] = dict(m2['info']['value'], grams=g)
            elif how == 'value-replaced':
                cc = g_cc(rng)
                li.value = L.cc(cc)
                m2['info']['value'] = cc
            elif how == 'flags':
                li.bounce, li.ihr_disabled = not info['bounce'], not info['ihr_disabled']
                m2['info']['bounce'], m2['info']['ihr_disabled'] = not info['bounce'], not info['ihr_disabled']
            elif how == 'lt':
                li.created_lt, li.created_at = 77, 99
                m2['info']['created_lt'], m2['info']['created_at'] = 77, 99
            else:
                a = g_int_addr(rng, False)
                li.dest = L.addr(a)
                m2['info']['dest'] = a
        elif info['_'] == 'ext_in_msg_info':
            how = 'import-fee'
            f = g_grams(rng)
            li.import_fee = f
            m2['info']['import_fee'] = f
        else:
            how = 'lt'
            li.created_lt, li.created_at = 1234567, 42
            m2['info']['created_lt'], m2['info']['created_at'] = 1234567, 42
        if rng.random() < 0.3:
            nb = g_cell(rng, 16, 0)
            lm.body = bridge.to_lib(nb)
            m2['body'] = nb
            how += '+body'
    except AttributeError:
        R.count('edit_not_applicable')
        return
    try:
        T.cell_of(T.enc_message, m2, 'ref' if m2.get('init') is not None else 'inline', 'ref')
    except rc.RefError:
        R.count('edited_message_does_not_fit')
        return
    st, cell = mon.call(lm.serialize)
    R.counters['oracle_evaluations'] += 1
    R.count('edited_serialisations')
    R.cover('edit_kinds', how)
    W2 = dict(W, edit=how)
    if st == 'exc':
        R.violation(f'serialize-after-edit-raises-{type(cell).__name__}', f'serialize after editing the message in place ({how}) raised {cell!r}', W2)
        return
    try:
        got, _ = T.dec_message(bridge.from_lib(cell))
        d = diff(T.norm_msg(got), T.norm_msg(m2))
    except (rc.RefError, dictref_error()) as e:
        d = f'reference decoder rejects the cell: {e!r}'
    R.check(d is None, f'stale-after-edit-{how.split("+")[0]}', f'after editing the message in place ({how}) the serialised cell is not the encoding of the current values: {d}', W2)


def dictref_error():
    from lib import dictref
    return dictref.DictDecodeError


def _fits(msg, placement):
    try:
        T.cell_of(T.enc_message, msg, *placement)
        return True
    except rc.RefError:
        return False


def boundary_messages(rng, quick):
    """messages whose header + init + body sit exactly at, just below and just above the bit and reference budgets of the root cell"""
    for kind in ('int_msg_info', 'ext_in_msg_info', 'ext_out_msg_info'):
        for n_extra in ((0, 2) if kind == 'int_msg_info' else (0,)):
            for init_parts in (None, [], ['code'], ['code', 'data'], ['code', 'data', 'library'], ['split_depth', 'special', 'code', 'data', 'library']):
                info = g_info(rng, kind, n_extra)
                init = g_state_init(rng, init_parts) if init_parts is not None else None
                base = T.W()
                T.enc_common_msg_info(base, info)
                h = base.nbits()
                ibits = 0
                if init is not None:
                    iw = T.W()
                    T.enc_state_init(iw, init)
                    ibits = iw.nbits()
                # bits left for an inline body in the four layouts
                avail_inline_init = 1023 - h - 1 - (1 + ibits if init is not None else 0) - 1
                avail_ref_init = 1023 - h - 1 - (1 if init is not None else 0) - 1
                sizes = {0, 1, 1023, max(0, avail_inline_init - 1), max(0, avail_inline_init), avail_inline_init + 1, max(0, avail_ref_init - 1), max(0, avail_ref_init), avail_ref_init + 1}
                sizes = sorted(s for s in sizes if 0 <= s <= 1023)
                if quick:
                    sizes = sorted(set(rng.sample(sizes, min(4, len(sizes))) + [max(0, avail_inline_init), min(1023, avail_inline_init + 1)]))
                for bb in sizes:
                    for br in ((0, 1, 4) if quick else range(5)):
                        yield {'info': info, 'init': init, 'body': g_cell(rng, bb, br)}


def header_of_size(rng, target):
    """an int_msg_info whose encoding has exactly `target` bits (647..1077), by tuning anycast depths and the byte lengths of the three amounts"""
    base = 4 + 267 + 267 + (4 + 1) + 4 + 4 + 96
    need = target - base
    if need < 0:
        return None
    for _ in range(200):
        d1 = rng.choice([0] + list(range(1, 31)))
        d2 = rng.choice([0] + list(range(1, 31)))
        extra = (5 + d1 if d1 else 0) + (5 + d2 if d2 else 0)
        rem = need - extra
        if rem < 0 or rem % 8 or rem // 8 > 45:
            continue
        nb = rem // 8
        a = min(15, nb)
        b = min(15, nb - a)
        c = nb - a - b
        if c > 15:
            continue

        def amount(k):
            return 0 if k == 0 else (1 << (8 * k - 1)) | rng.getrandbits(8 * k - 1)

        def addr(d):
            x = {'workchain_id': rng.randrange(-128, 128), 'address': rng.randbytes(32)}
            if d:
                x['anycast'] = (d, rng.getrandbits(d))
            return x
        info = {'_': 'int_msg_info', 'ihr_disabled': True, 'bounce': rng.random() < 0.5, 'bounced': False, 'src': addr(d1), 'dest': addr(d2),
                'value': {'grams': amount(a), 'other': {}}, 'ihr_fee': amount(b), 'fwd_fee': amount(c), 'created_lt': rng.getrandbits(64), 'created_at': rng.getrandbits(32)}
        w = T.W()
        T.enc_common_msg_info(w, info)
        if w.nbits() == target:
            return info
    return None


def tight_header_messages(rng, quick):
    """headers so large that an inline state-init leaves -1, 0, 1 or 2 bits for what follows it"""
    for parts in ([], ['code'], ['split_depth', 'code', 'data'], ['split_depth', 'special', 'code', 'data', 'library']):
        init = g_state_init(rng, parts)
        iw = T.W()
        T.enc_state_init(iw, init)
        ibits = iw.nbits()
        for slack in (-1, 0, 1, 2, 3, 9):
            # bits in the root: H + maybe(1) + either(1) + ibits + either(1) + body
            target = 1023 - 1 - 1 - ibits - 1 - slack
            info = header_of_size(rng, target)
            if info is None:
                continue
            for bb, br in ((0, 0), (1, 0), (slack if slack > 0 else 0, 0), (0, 1), (200, 2)):
                yield {'info': info, 'init': init, 'body': g_cell(rng, bb, br)}


def run(R):
    rng = R.rng
    quick = R.tier == 'quick'
    L = Lib()
    R.rule = ('messages = (header kind, addresses none/extern/std +- anycast, amounts at var-length boundaries, 0..5 extra currencies, state-init subset of {split_depth, '
              'special, code, data, library}, body bits/refs); boundary sweep: body sizes at / one below / one above the bit budget of each layout x body refs 0..4 x '
              'header refs 0..1 x init refs 0..3; for each: serialize must not raise, the cell must decode under an independent block.tlb reader to the same message, the '
              'library parser must return it from its own cell and from each of the (up to 4) valid placements produced by the reference encoder. Stand-alone StateInit, '
              'CurrencyCollection, ExtraCurrencyCollection, WalletV3/V4 data, NftItemData, NftItemSaleData/Fees, HashUpdate likewise. distinct = distinct message; non-trivial = all')
    R.assumptions = ['R3 (lib/tlbref.py) written from the bundled block.tlb', 'int_msg_info.src may be addr_none (as wallets send it); addr_var is not generated']
    inv = bridge.CellInvariant(R).install()
    try:
        msgs = list(boundary_messages(rng, quick)) + list(tight_header_messages(rng, quick))
        for i, msg in enumerate(msgs):
            if i % R.nshards == R.shard:
                one_message(R, L, msg)
        R.count('boundary_messages', len(msgs) // R.nshards)
        for i in range((1500 if quick else 80000) // R.nshards + 1):
            msg = {'info': g_info(rng), 'init': g_state_init(rng) if rng.random() < 0.5 else None,
                   'body': g_cell(rng, rng.choice([0, 1, 32, 300, 700, 1023, rng.randrange(1024)]), rng.randrange(5))}
            one_message(R, L, msg)
        standalone(R, L, rng, quick)
        hunted_wrappers(R, L, rng, quick)
    finally:
        inv.uninstall()
    R.floor('serialisations', 300)
    R.floor('alternative_encodings_parsed', 600)
    R.floor('alternative_placements', 6, 'set')
    R.floor('budget_classes', 20, 'set')
    R.floor('standalone_cases', 100)
    R.floor('edited_serialisations', 100)
    if R.nshards == 1:
        R.floor('grams_byte_lengths', 16, 'set')
        R.floor('extra_value_byte_lengths', 32, 'set')
    R.floor('edit_kinds', 5, 'set')


def hunted_wrappers(R, L, rng, quick):
    """three input classes the first versions never built (all found broken on the unchanged tree by sub-agents hunting for defects, fixed in the repository since):
    a body that is an exotic cell, NFT data whose addresses are given as text, highload-wallet data with a non-empty query dictionary"""
    import importlib
    from lib import dictref
    wal = importlib.import_module('pytoniq_core.tlb.custom.wallet')
    nft = importlib.import_module('pytoniq_core.tlb.custom.nft')
    from pytoniq_core.boc.address import Address
    # (a) exotic bodies: a library reference, a pruned branch, a Merkle proof / update - small enough to fit inline, where only a reference keeps them what they are
    leaf = rc.RC(gen.rand_bits(rng, 40), [rc.RC('101')])
    bodies = [('library', rc.make_library(rng.randbytes(32))), ('pruned', rc.make_pruned(leaf, 1)), ('merkle-proof', rc.make_merkle_proof(rc.make_pruned(leaf, 1))),
              ('merkle-update', rc.make_merkle_update(rc.make_pruned(leaf, 1), rc.make_pruned(rc.RC('11'), 1)))]
    for bname, body in bodies:
        for rep in range(7 if quick else 30):
            msg = {'info': g_info(rng), 'init': g_state_init(rng) if rng.random() < 0.4 else None, 'body': body}
            if rep >= 3:
                # tight on references: the header's extra-currency dictionary and a state-init with code, data and library take all four references of the root when
                # the state-init is inline; the exotic body (which can only go by reference) then needs the state-init moved into a reference
                msg = {'info': g_info(rng, 'int_msg_info', n_extra=rng.randint(1, 3)) if rep % 2 else g_info(rng, rng.choice(['ext_in_msg_info', 'ext_out_msg_info'])),
                       'init': g_state_init(rng, ['code', 'data', 'library'] + (['special'] if rep % 3 == 0 else [])), 'body': body}
                R.count('exotic_body_tight_reference_cases')
            W = dict(describe(msg), body_kind=bname)
            st, cell = mon.call(lambda: L.message(msg).serialize())
            R.counters['oracle_evaluations'] += 1
            R.count('exotic_body_cases')
            if st == 'exc':
                R.exc(cell)
                if isinstance(cell, rc.RefError) or 'fit' in repr(cell):
                    continue
                R.violation(f'serialize-raises-exotic-body-{type(cell).__name__}', f'serialising a message whose body is a {bname} cell raised {cell!r}', W)
                continue
            try:
                got, placement = T.dec_message(bridge.from_lib(cell))
                ok = got['body'].hash == body.hash and got['body'].type == body.type
            except Exception as e:
                ok, placement = False, repr(e)
            R.check(ok, 'exotic-body-not-preserved', f'a message with a {bname} body serialises to a cell whose body (read by block.tlb, placement {placement}) is another cell', W)
            st, back = mon.call(parse_and_drain, L, cell)
            R.check(st == 'ok' and back.body.hash == body.hash and back.body.type_ == body.type, 'exotic-body-not-preserved-by-parser',
                    f'parse(serialize(m)) of a message with a {bname} body returns another body: {mon.srepr(getattr(back, "body", back), 60)}', W)
    # (b) NFT item data built from address text (raw and friendly), collection with an anycast prefix or absent
    for rep in range(8 if quick else 60):
        idx, own, content = rng.getrandbits(64), g_int_addr(rng, False), g_cell(rng, 24, 0)
        coll = rng.choice([None, g_int_addr(rng, False), dict(g_int_addr(rng, False), anycast=(3, 5))])
        nw = T.W().u(idx, 64)
        T.enc_msg_address(nw, coll)
        T.enc_msg_address(nw, own)
        nw.ref(content)
        own_text = L.addr(own).to_str(rep % 2 == 0)
        coll_arg = L.addr(coll) if (coll is None or 'anycast' in coll or rep % 3) else L.addr(coll).to_str(False)
        W = {'owner_given_as': 'friendly text' if rep % 2 == 0 else 'raw text', 'collection': 'none' if coll is None else ('anycast' if 'anycast' in coll else type(coll_arg).__name__)}
        st, c = mon.call(lambda: nft.NftItemData(idx, coll_arg, own_text, bridge.to_lib(content)).serialize())
        R.counters['oracle_evaluations'] += 1
        R.count('nft_text_address_cases')
        if st == 'exc':
            R.exc(c)
            R.violation(f'NftItemData-text-address-raises-{type(c).__name__}', f'NftItemData with its owner address given as text raised {c!r}', W)
        else:
            R.check(c.hash == nw.cell().hash, 'NftItemData-text-address-encoding-differs', 'NftItemData built from address text differs from the block.tlb encoding of the same addresses', W)
    # (c) highload wallet data with 0..5 remembered queries
    for nq in ([0, 1, 2, 5] if quick else [0, 1, 2, 3, 5, 9, 20]):
        wid, last, pk = rng.getrandbits(32), rng.getrandbits(64), rng.randbytes(32)
        queries, enc = {}, {}
        for _ in range(nq):
            q = rng.getrandbits(64)
            m = {'info': g_info(rng, 'int_msg_info', 0), 'init': None, 'body': g_cell(rng, rng.choice([0, 32]), 0)}
            try:
                mcell = T.cell_of(T.enc_message, m, 'inline', 'ref')
            except rc.RefError:
                continue
            mode = rng.choice([0, 1, 3, 64, 128, 255])
            queries[q] = (mode, m)
            enc[dictref.u(q, 64)] = (dictref.u(mode, 8), [mcell])
        w = T.W().u(wid, 32).u(last, 64).bits(rc.bytes_to_bits(pk))
        if enc:
            w.bits('1').ref(dictref.encode(enc, 64))
        else:
            w.bits('0')
        W = {'queries': len(enc)}
        st, c = mon.call(lambda: wal.HighloadWalletData(wid, last, pk, {q: wal.WalletMessage(mode, L.message(m)) for q, (mode, m) in queries.items()}).serialize())
        R.counters['oracle_evaluations'] += 1
        R.count('highload_wallet_cases')
        if st == 'exc':
            R.exc(c)
            R.violation(f'HighloadWalletData-serialize-raises-{type(c).__name__}', f'HighloadWalletData.serialize with {len(enc)} queries raised {c!r}', W)
            continue
        R.check(bridge.from_lib(c).hash == w.cell().hash or all(_same_msg_cells(L, c, queries)), 'HighloadWalletData-encoding-differs',
                f'HighloadWalletData with {len(enc)} queries: the cell does not hold the queries given', W)
        st, back = mon.call(lambda: wal.HighloadWalletData.deserialize(bridge.to_lib(w.cell()).begin_parse()))
        ok = st == 'ok' and back.wallet_id == wid and back.last_cleaned == last and back.public_key == pk and \
            sorted((back.old_queries or {}).keys()) == sorted(queries) and \
            all(getattr(back.old_queries[q], 'send_mode', None) == mode and diff(T.norm_msg(L.l_message(back.old_queries[q].message)), T.norm_msg(m)) is None for q, (mode, m) in queries.items())
        R.check(ok, 'HighloadWalletData-roundtrip-differs', f'HighloadWalletData with {len(enc)} queries parses differently: {mon.srepr(back, 80)}', W)


def _same_msg_cells(L, cell, queries):
    """the library may place init / body differently from the reference: compare the parsed dictionary instead of the bytes"""
    s = cell.begin_parse()
    s.skip_bits(32 + 64 + 256)
    d = s.load_dict(64) or {}
    yield sorted(d) == sorted(queries)
    for q, (mode, m) in queries.items():
        v = d.get(q)
        if v is None:
            yield False
            continue
        yield v.load_uint(8) == mode and diff(T.norm_msg(L.l_message(L.tr.MessageAny.deserialize(v.load_ref().begin_parse()))), T.norm_msg(m)) is None


def standalone(R, L, rng, quick):
    import importlib
    wal = importlib.import_module('pytoniq_core.tlb.custom.wallet')
    nft = importlib.import_module('pytoniq_core.tlb.custom.nft')
    utl = importlib.import_module('pytoniq_core.tlb.utils')
    n = 200 if quick else 6000

    def same_cell(name, libcell_fn, want, W):
        st, c = mon.call(libcell_fn)
        R.counters['oracle_evaluations'] += 1
        R.count('standalone_cases')
        R.cover('standalone_types', name)
        if st == 'exc':
            R.violation(f'{name}-serialize-raises-{type(c).__name__}', f'{name}.serialize raised {c!r}', W)
            return None
        if not R.check(c.hash == want.hash, f'{name}-encoding-differs', f'{name} cell differs from the block.tlb encoding', dict(W, want_boc=rc.encode_boc([want]))):
            return None
        return c
    # amounts of every byte length: Grams = VarUInteger 16 (0..15 bytes), extra currencies = VarUInteger 32 (0..31 bytes); smallest and largest value of each length
    if R.shard == 0:
        for nbytes in range(16):
            for g in ({0} if nbytes == 0 else {1 << (8 * (nbytes - 1)), (1 << (8 * nbytes)) - 1, (1 << (8 * nbytes - 1))}):
                cc = {'grams': g, 'other': {}}
                W = {'grams_bytes': nbytes, 'grams': str(g)}
                c = same_cell('CurrencyCollection', lambda: L.cc(cc).serialize(), T.cell_of(T.enc_currency_collection, cc), W)
                st, back = mon.call(lambda: L.blk.CurrencyCollection.deserialize(bridge.to_lib(T.cell_of(T.enc_currency_collection, cc)).begin_parse()))
                R.check(st == 'ok' and L.l_cc(back) == T.norm_cc(cc), 'CurrencyCollection-roundtrip-differs', f'CurrencyCollection with a {nbytes}-byte amount parses differently: {mon.srepr(back)}', W)
                R.cover('grams_byte_lengths', nbytes)
        for L2 in range(32):
            for v in ({0} if L2 == 0 else {1 << (8 * (L2 - 1)), (1 << (8 * L2)) - 1}):
                cc = {'grams': 7, 'other': {0x11: v, 0xFFFFFFFF: 1}}
                W = {'extra_value_bytes': L2, 'value': str(v)}
                same_cell('CurrencyCollection', lambda: L.cc(cc).serialize(), T.cell_of(T.enc_currency_collection, cc), W)
                st, back = mon.call(lambda: L.blk.CurrencyCollection.deserialize(bridge.to_lib(T.cell_of(T.enc_currency_collection, cc)).begin_parse()))
                R.check(st == 'ok' and L.l_cc(back) == T.norm_cc(cc), 'CurrencyCollection-roundtrip-differs', f'extra currency with a {L2}-byte value parses differently: {mon.srepr(back)}', W)
                R.cover('extra_value_byte_lengths', L2)
    subsets = [[p for j, p in enumerate(('split_depth', 'special', 'code', 'data', 'library')) if (m >> j) & 1] for m in range(32)]
    for i in range(n):
        # StateInit: every subset of its five optional parts
        s = g_state_init(rng, subsets[i % 32])
        W = {'state_init': sorted(s)}
        c = same_cell('StateInit', lambda: L.state_init(s).serialize(), T.cell_of(T.enc_state_init, s), W)
        st, back = mon.call(lambda: L.acc.StateInit.deserialize(bridge.to_lib(T.cell_of(T.enc_state_init, s)).begin_parse()))
        if st == 'exc':
            R.violation('StateInit-deserialize-raises', f'{back!r}', W)
        else:
            d = diff(T.norm_msg({'info': {'_': 'x', 'src': None, 'dest': None}, 'init': L.l_state_init(back), 'body': rc.RC('')})['init'],
                     T.norm_msg({'info': {'_': 'x', 'src': None, 'dest': None}, 'init': s, 'body': rc.RC('')})['init'])
            R.check(d is None, 'StateInit-roundtrip-differs', f'StateInit parses differently: {d}', W)
        # currencies
        cc = g_cc(rng)
        W = {'cc': {'grams': str(cc['grams']), 'other': {str(k): str(v) for k, v in cc['other'].items()}}}
        same_cell('CurrencyCollection', lambda: L.cc(cc).serialize(), T.cell_of(T.enc_currency_collection, cc), W)
        same_cell('ExtraCurrencyCollection', lambda: L.blk.ExtraCurrencyCollection(dict(cc['other'])).serialize(), T.cell_of(T.enc_extra_currencies, cc['other']), W)
        st, back = mon.call(lambda: L.blk.CurrencyCollection.deserialize(bridge.to_lib(T.cell_of(T.enc_currency_collection, cc)).begin_parse()))
        R.check(st == 'ok' and L.l_cc(back) == T.norm_cc(cc), 'CurrencyCollection-roundtrip-differs', f'CurrencyCollection parses differently: {mon.srepr(back)}', W)
        # wallets
        seqno, wid, pk = rng.choice([0, 2 ** 32 - 1, rng.getrandbits(32)]), rng.choice([0, 698983191, 2 ** 32 - 1]), rng.randbytes(32)
        w3 = T.W().u(seqno, 32).u(wid, 32).bytes(pk).cell()
        W = {'seqno': seqno, 'wallet_id': wid}
        same_cell('WalletV3Data', lambda: wal.WalletV3Data(seqno, wid, pk).serialize(), w3, W)
        st, back = mon.call(lambda: wal.WalletV3Data.deserialize(bridge.to_lib(w3).begin_parse()))
        R.check(st == 'ok' and (back.seqno, back.wallet_id, back.public_key) == (seqno, wid, pk), 'WalletV3Data-roundtrip-differs', 'WalletV3Data parses differently', W)
        plugins = g_cell(rng, 20, 1) if rng.random() < 0.5 else None
        w4 = T.W().u(seqno, 32).u(wid, 32).bytes(pk)
        w4 = (w4.u(1, 1).ref(plugins) if plugins else w4.u(0, 1)).cell()
        same_cell('WalletV4Data', lambda: wal.WalletV4Data(seqno, wid, pk, bridge.to_lib(plugins) if plugins else None).serialize(), w4, W)
        st, back = mon.call(lambda: wal.WalletV4Data.deserialize(bridge.to_lib(w4).begin_parse()))
        R.check(st == 'ok' and (back.seqno, back.wallet_id, back.public_key) == (seqno, wid, pk) and ((back.plugins is None) == (plugins is None)) and
                (plugins is None or back.plugins.hash == plugins.hash), 'WalletV4Data-roundtrip-differs', 'WalletV4Data parses differently', W)
        # NFT item data
        idx, coll, own, content = rng.getrandbits(64), g_int_addr(rng), g_int_addr(rng) if rng.random() < 0.8 else None, g_cell(rng, 40, 1)
        nw = T.W().u(idx, 64)
        T.enc_msg_address(nw, coll)
        T.enc_msg_address(nw, own)
        nw.ref(content)
        W = {'index': str(idx)}
        same_cell('NftItemData', lambda: nft.NftItemData(idx, L.addr(coll), L.addr(own), bridge.to_lib(content)).serialize(), nw.cell(), W)
        st, back = mon.call(lambda: nft.NftItemData.deserialize(bridge.to_lib(nw.cell()).begin_parse()))
        R.check(st == 'ok' and back.index == idx and L.l_addr(back.collection_address) == coll and L.l_addr(back.owner_address) == own and back.content.hash == content.hash,
                'NftItemData-roundtrip-differs', 'NftItemData parses differently', W)
        # NFT sale data + fees
        fees = (g_int_addr(rng, False), g_grams(rng), g_int_addr(rng, False), g_grams(rng))
        fw = T.W()
        T.enc_msg_address(fw, fees[0])
        T.enc_grams(fw, fees[1])
        T.enc_msg_address(fw, fees[2])
        T.enc_grams(fw, fees[3])
        same_cell('NftItemSaleFees', lambda: nft.NftItemSaleFees(L.addr(fees[0]), fees[1], L.addr(fees[2]), fees[3]).serialize(), fw.cell(), {})
        sale = (rng.random() < 0.5, rng.getrandbits(32), g_int_addr(rng, False), g_int_addr(rng, False), g_int_addr(rng, False), g_grams(rng), rng.random() < 0.5)
        sw = T.W().bool(sale[0]).u(sale[1], 32)
        for a in sale[2:5]:
            T.enc_msg_address(sw, a)
        T.enc_grams(sw, sale[5])
        sw.ref(fw.cell()).bool(sale[6])
        same_cell('NftItemSaleData', lambda: nft.NftItemSaleData(sale[0], sale[1], L.addr(sale[2]), L.addr(sale[3]), L.addr(sale[4]), sale[5],
                                                                   nft.NftItemSaleFees(L.addr(fees[0]), fees[1], L.addr(fees[2]), fees[3]), sale[6]).serialize(), sw.cell(), {})
        st, back = mon.call(lambda: nft.NftItemSaleData.deserialize(bridge.to_lib(sw.cell()).begin_parse()))
        R.check(st == 'ok' and (back.is_complete, back.created_at, back.full_price, back.can_deploy_by_external) == (sale[0], sale[1], sale[5], sale[6]) and
                L.l_addr(back.nft_owner_address) == sale[4] and back.fees_cell.royalty_amount == fees[3] and L.l_addr(back.fees_cell.marketplace_fee_address) == fees[0],
                'NftItemSaleData-roundtrip-differs', 'NftItemSaleData parses differently', {})
        # hash update
        oh, nh = rng.randbytes(32), rng.randbytes(32)
        hw = T.W().u(0x72, 8).bytes(oh).bytes(nh).cell()
        same_cell('HashUpdate', lambda: utl.HashUpdate(oh, nh).serialize(), hw, {})
        st, back = mon.call(lambda: utl.HashUpdate.deserialize(bridge.to_lib(hw).begin_parse()))
        R.check(st == 'ok' and (back.old_hash, back.new_hash) == (oh, nh), 'HashUpdate-roundtrip-differs', 'HashUpdate parses differently', {})
        # ---- values built with default arguments are independent of each other: editing one in place (as wallet code does when it adds an
        # extra currency to an amount it built earlier) must not show up in a value or message built afterwards
        g1, g2 = g_grams(rng), g_grams(rng)
        st, res = mon.call(lambda: L.blk.CurrencyCollection(g1))
        if st == 'ok' and isinstance(getattr(getattr(res, 'other', None), 'dict', None), dict):
            res.other.dict[rng.choice([7, 239, 2 ** 32 - 1])] = rng.getrandbits(40) + 1
            W = {'sequence': 'CurrencyCollection(g1); its .other.dict edited in place; then a new grams-only value', 'g1': str(g1), 'g2': str(g2)}
            same_cell('CurrencyCollection-after-inplace-edit-of-another', lambda: L.blk.CurrencyCollection(g2).serialize(), T.cell_of(T.enc_currency_collection, {'grams': g2}), W)
            same_cell('CurrencyCollection-edited-in-place', lambda: res.serialize(), T.cell_of(T.enc_currency_collection, {'grams': g1, 'other': dict(res.other.dict)}), W)
            info = {'_': 'int_msg_info', 'ihr_disabled': True, 'bounce': False, 'bounced': False, 'src': None, 'dest': g_int_addr(rng, False), 'value': {'grams': g2, 'other': {}},
                    'ihr_fee': 0, 'fwd_fee': 0, 'created_lt': 0, 'created_at': 0}
            m2 = {'info': info, 'init': None, 'body': rc.RC('1')}
            st2, lm = mon.call(lambda: L.tr.MessageAny(L.tr.InternalMsgInfo(True, False, False, None, L.addr(info['dest']), L.blk.CurrencyCollection(g2), 0, 0, 0, 0),
                                                        None, bridge.to_lib(m2['body'])).serialize())
            if st2 == 'ok':
                try:
                    got, _ = T.dec_message(bridge.from_lib(lm))
                    R.check(diff(T.norm_msg(got), T.norm_msg(m2)) is None, 'message-after-inplace-edit-of-another-value',
                            f'a grams-only message built after another value was edited in place decodes to {mon.srepr(T.norm_msg(got)["info"].get("value"))}', W)
                except Exception as e:
                    R.violation('message-after-inplace-edit-undecodable', f'{e!r}', W)
            R.count('inplace_edit_sequences')
        R.case(mon.fp('standalone', i, R.shard))


def replay(R, w, rec):
    L = Lib()
    R.case(None)
    if not w.get('boc_ref_ref'):
        R.inconc('replay-supports-message-witnesses-only')
        return
    msg, _ = T.dec_message(rc.decode_boc(w['boc_ref_ref'], strict_distinct=False)['roots'][0])
    one_message(R, L, msg)

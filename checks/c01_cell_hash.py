"""C01 - cell hash and depth are the TON representation hash and depth (ordinary cells, every route)."""
import itertools
import traceback

from bitarray import bitarray

from lib import bridge, gen, mon, refcell as rc

SHARDS = 16
BOC_OPTS = [(False, False, False), (True, False, False), (False, True, False), (True, True, False),
            (True, False, True), (True, True, True)]


def routes(R, B, r, base, heavy=True):
    """(route name, thunk) for every way of obtaining the logical cell r"""
    out = [
        ('builder', lambda: base),
        ('copy', lambda: base.copy()),
        ('slice.to_cell', lambda: base.begin_parse().to_cell()),
        ('from_cell.to_cell', lambda: B.Slice.from_cell(base).to_cell()),
        ('to_builder.end_cell', lambda: base.to_builder().end_cell()),
        ('slice.copy.to_cell', lambda: base.begin_parse().copy().to_cell()),
        ('builder.to_slice.to_cell', lambda: base.to_builder().to_slice().to_cell()),
        ('direct_tvm', lambda: B.Cell(bridge.tvm_bits(r.bits), list(base.refs), -1)),
        ('direct_plain', lambda: B.Cell(bitarray(r.bits), list(base.refs), -1)),
        # the same bit string in a bit array of the other (little-endian) storage order, plain and TvmBitarray: the bits are the bits, whatever their storage
        ('direct_little_endian', lambda: B.Cell(bitarray(r.bits, endian='little'), list(base.refs), -1)),
        ('direct_refs_tuple_free', lambda: B.Cell(bitarray(r.bits), [k for k in base.refs], -1)),
    ]
    import copy as _copy
    import pickle as _pickle

    def loaded_bits():
        # the bit string is what Slice.load_bits handed out (read out of a longer cell), given to the constructor as it is
        s = B.Builder().store_bits('10' + r.bits[:1020]).end_cell().begin_parse()
        s.skip_bits(2)
        return s.load_bits(len(r.bits[:1020]))
    if len(r.bits) <= 1020:
        out.append(('direct_loaded_bits', lambda: B.Cell(loaded_bits(), list(base.refs), -1)))
        out.append(('builder.store_bits(loaded_bits)', lambda: (lambda b: ([b.store_ref(k) for k in base.refs], b.end_cell())[1])(B.Builder().store_bits(loaded_bits()))))
    out.append(('copy.copy', lambda: _copy.copy(base)))
    if r.depth <= 150:
        # Python's own deepcopy / pickle recurse once per level of any object graph: deep trees are out of their reach whatever the library does
        out += [('copy.deepcopy', lambda: _copy.deepcopy(base)), ('pickle', lambda: _pickle.loads(_pickle.dumps(base)))]
    if len(r.bits) <= 1000 and len(r.refs) <= 3:
        # "converted from a slice": the slice is what is left of a larger cell after some bits and references were read
        pre_bits, pre_refs = '1' * (1 + len(r.bits) % 7), 1 + (len(r.bits) % (4 - len(r.refs)))

        def rest():
            b = B.Builder().store_bits(pre_bits)
            for i in range(pre_refs):
                b.store_ref(B.Builder().store_uint(i, 3).end_cell())
            b.store_bits(r.bits)
            for k in base.refs:
                b.store_ref(k)
            s = b.end_cell().begin_parse()
            s.skip_bits(len(pre_bits))
            for i in range(pre_refs):
                s.load_ref()
            return s
        out += [('consumed-slice.to_cell', lambda: rest().to_cell()), ('consumed-slice.copy.to_cell', lambda: rest().copy().to_cell()),
                ('consumed-slice.to_builder.end_cell', lambda: rest().to_builder().end_cell()),
                ('consumed-slice.store_slice.end_cell', lambda: B.Builder().store_slice(rest()).end_cell()),
                ('consumed-slice.copy.store_slice', lambda: B.Builder().store_slice(rest().copy()).end_cell())]
    if heavy:
        for i, o in enumerate(BOC_OPTS):
            if i % 3 == 0:
                out.append((f'boc{o}.one_from_boc', lambda o=o: B.Cell.one_from_boc(base.to_boc(*o))))
            elif i % 3 == 1:
                out.append((f'boc{o}.from_boc', lambda o=o: B.Cell.from_boc(base.to_boc(*o).hex())[0]))
            else:
                out.append((f'boc{o}.slice', lambda o=o: B.Slice.one_from_boc(base.to_boc(*o)).to_cell()))
        out.append(('boc.builder', lambda: B.Builder.one_from_boc(base.to_boc()).end_cell()))
        out.append(('foreign_boc', lambda: B.Cell.one_from_boc(rc.encode_boc([r], has_crc=True))))
        out.append(('foreign_boc_stored_hashes', lambda: B.Cell.one_from_boc(rc.encode_boc([r], has_idx=True, with_hashes=True))))
    return out


def builder_reuse(R, B, r, W):
    """end_cell, keep storing into the same builder, end_cell again: the first cell must still be the cell it was"""
    b = B.Builder()
    b.store_bits(r.bits)
    kids = [bridge.to_lib(x) for x in r.refs]
    for k in kids:
        b.store_ref(k)
    c1 = b.end_cell()
    more = []
    if len(r.bits) < 1023:
        b.store_bit(1)
        more.append('bit')
    if len(r.refs) < 4:
        b.store_ref(B.Builder().store_uint(7, 3).end_cell())
        more.append('ref')
    if more:
        c2 = b.end_cell()
        r2 = rc.RC(r.bits + ('1' if 'bit' in more else ''), list(r.refs) + ([rc.RC('111')] if 'ref' in more else []))
        check_cell(R, r2, c2, 'builder-reuse-second', W)
    check_cell(R, r, c1, 'builder-reuse-first', W)
    R.count('builder_reuse')


def derived_use(R, B, r, base, W):
    """objects derived from a cell are used the way callers use them (a builder made from it gets more references and bits, slices are read, a copy is
    parsed); afterwards the cell must still be the cell it was - hash, depth, content, recomputed representation"""
    def use():
        b = base.to_builder()
        if b.available_refs:
            b.store_ref(B.Builder().store_uint(5, 3).end_cell())
        if b.available_bits >= 2:
            b.store_uint(2, 2)
        other = b.end_cell()
        s = base.begin_parse()
        while s.remaining_refs:
            s.load_ref()
        s.skip_bits(s.remaining_bits)
        s2 = B.Slice.from_cell(base)
        s2.load_bits(min(5, s2.remaining_bits))
        b2 = B.Builder().store_cell(base)
        if b2.available_refs:
            b2.store_ref(other)
        sl = base.copy().begin_parse()
        sl.to_cell()
        sl.skip_bits(min(1, sl.remaining_bits))
    st, e = mon.call(use)
    if st == 'exc':
        R.violation(f'derived-use-raises-{type(e).__name__}', f'using objects derived from a cell raised {e!r}', W)
        return
    check_cell(R, r, base, 'after-derived-objects-were-used', W)
    R.count('derived_use')


def type_twins(R, B, rng):
    """one bag holding an exotic cell and an ordinary cell with the very same data bits and references (a library reference and a 264-bit leaf with the same
    bytes; a pruned branch and its ordinary twin): type is part of the cell, so hashes differ and neither may stand in for the other"""
    for rep in range(6):
        h = gen.rand_hash(rng)
        lib = rc.make_library(h)
        twin = rc.RC(lib.bits)
        pr = gen.raw_pruned(rng, 1)
        ptwin = rc.RC(pr.bits)
        for order in ((lib, twin, pr, ptwin), (twin, lib, ptwin, pr), (ptwin, twin, pr, lib)):
            root = rc.RC(gen.rand_bits(rng, 9), order)
            W = {'class': 'type-twins', 'boc': rc.encode_boc([root])}
            for kw in (dict(), dict(has_idx=True, has_crc=True), dict(with_hashes=lambda c: c.mask in (0, 1))):
                data = rc.encode_boc([root], **kw)
                st, c = mon.call(B.Cell.one_from_boc, data)
                R.count('type_twin_bags')
                if st == 'exc':
                    R.violation(f'type-twins-rejected-{type(c).__name__}', f'a bag with an exotic cell and its ordinary twin is rejected: {c!r}', W)
                    continue
                R.check(c.hash == root.hash and [x.hash for x in c.refs] == [x.hash for x in order] and [x.type_ for x in c.refs] == [x.type for x in order],
                        'type-twins-confused', 'exotic cell and ordinary cell with equal data came back as the same cell / with the wrong type or hash', W)
                st2, again = mon.call(lambda: B.Cell.one_from_boc(c.to_boc()))
                R.check(st2 == 'ok' and again.hash == root.hash and [x.type_ for x in again.refs] == [x.type for x in order], 'type-twins-confused-on-reserialisation',
                        're-serialising a bag with type twins merges or retypes them', W)
            R.case(mon.fp('twins', root.hash))


def ordinary_over_exotic(R, B, rng):
    """ordinary cells whose children are not level-0 cells (pruned branches of every mask, also pairs with non-nested masks such as 1 and 2, 1 and 4, 5 and 2;
    library references; Merkle cells): they are ordinary cells all the same, and their hash is the representation hash of the specification"""
    def pruned(mask):
        n = rc.popcount(mask)
        return rc.RC(rc.u(rc.PRUNED, 8) + rc.u(mask, 8) + ''.join(rc.bytes_to_bits(gen.rand_hash(rng)) for _ in range(n)) + ''.join(rc.u(rng.randrange(50), 16) for _ in range(n)), (), rc.PRUNED)
    combos = [(a,) for a in range(1, 8)] + [(1, 2), (2, 1), (1, 4), (4, 1), (2, 4), (5, 2), (2, 5), (3, 4), (6, 1), (1, 2, 4), (7, 1, 2, 4)]
    for masks in combos:
        kids = [pruned(m) for m in masks]
        if rng.random() < 0.5 and len(kids) < 4:
            kids.insert(rng.randrange(len(kids) + 1), rc.RC(gen.rand_bits(rng, 7)))
        r = rc.RC(gen.rand_bits(rng, rng.choice([0, 5, 64])), kids)
        W = {'class': 'ordinary-over-exotic', 'child_masks': list(masks), 'boc': rc.encode_boc([r])}
        for route in ('builder', 'boc', 'boc-hashes'):
            st, c = mon.call(bridge.to_lib, r, route)
            R.count('ordinary_over_exotic')
            if st == 'exc':
                R.violation(f'ordinary-over-exotic-raises-{route}', f'an ordinary cell over pruned branches with masks {masks} cannot be obtained via {route}: {c!r}', W)
                continue
            R.check(c.hash == r.hash and c.get_depth(0) == r.get_depth(0) and [c.get_hash(l) for l in range(4)] == [r.get_hash(l) for l in range(4)], 'hash-ordinary-over-exotic',
                    f'hash / per-level hashes of an ordinary cell over pruned branches with masks {masks} ({route}) differ from the specification', W)
            st2, c2 = mon.call(lambda: B.Cell.one_from_boc(c.to_boc()))
            R.check(st2 == 'ok' and c2.hash == r.hash and c2 == c and hash(c2) == hash(c), 'hash-ordinary-over-exotic-roundtrip', 'round trip of an ordinary cell over exotic children changes its hash / equality', W)
            # "the explicitly recomputed representation hash agrees with the cached one" - for these ordinary cells too, and for an ordinary cell above them
            st3, rh = mon.call(c.calculate_representation_hash)
            R.check(st3 == 'ok' and rh == r.hash, 'repr-hash-differs-ordinary-over-exotic', f'calculate_representation_hash() of an ordinary cell over pruned branches with masks {masks} ({route}) is not its hash', W)
            st3, rh2 = mon.call(lambda: B.Builder().store_uint(5, 3).store_ref(c).end_cell())
            R.check(st3 == 'ok' and mon.call(rh2.calculate_representation_hash) == ('ok', rh2.hash) and rh2.hash == rc.RC('101', (r,)).hash, 'repr-hash-differs-ordinary-over-exotic',
                    'calculate_representation_hash() of an ordinary cell two levels above pruned branches is not its hash', W)
            R.count('repr_hash_evals_over_exotic')
        R.case(mon.fp('ooe', r.hash))
    for kid in (rc.make_library(gen.rand_hash(rng)), rc.make_merkle_proof(rc.RC('101', (rc.RC('1'),))), rc.make_merkle_update(rc.RC('1'), rc.RC('0'))):
        r = rc.RC('11', (kid, rc.RC('0')))
        c = bridge.to_lib(r, 'boc')
        R.check(c.hash == r.hash and c.get_depth(0) == r.depth, 'hash-ordinary-over-exotic', 'ordinary cell over a library / Merkle cell: hash differs from the specification', {'boc': rc.encode_boc([r])})


def subclass_equality(R, B, rng):
    """cells of a subclass of Cell (the parser constructs `cls` objects) are cells: equal to, and colliding as dictionary keys with, plain cells of the same hash"""
    class MyCell(B.Cell):
        pass
    for i in range(12):
        r = gen.rand_dag(rng, rng.choice([1, 3, 6]), max_bits=40)
        plain = bridge.to_lib(r, 'builder')
        data = plain.to_boc()
        st, sub = mon.call(MyCell.one_from_boc, data)
        if st == 'exc':
            R.violation('subclass-parse-raises', f'a subclass of Cell cannot parse a bag: {sub!r}', {})
            continue
        W = {'boc': rc.encode_boc([r]), 'class_of_parsed': type(sub).__name__}
        others = [('plain built', plain), ('plain parsed', B.Cell.one_from_boc(data)), ('copy of subclass object', sub.copy()), ('via slice', sub.begin_parse().to_cell()),
                  ('via builder', sub.to_builder().end_cell()), ('subclass list parse', MyCell.from_boc(data)[0])]
        for name, o in others:
            R.check(sub == o and o == sub and not (sub != o) and hash(sub) == hash(o) and len({sub, o}) == 1 and {sub: 1}.get(o) == 1 and {o: 1}.get(sub) == 1, 'equality-across-cell-classes',
                    f'a cell parsed through a Cell subclass and the same cell obtained as "{name}" ({type(o).__name__}) do not compare equal / collide as dictionary keys', dict(W, other=name))
            R.count('subclass_equality_pairs')
        other_r = rc.RC(r.bits + '1' if len(r.bits) < 1023 else r.bits[:-1], r.refs)
        R.check(sub != bridge.to_lib(other_r), 'equality-across-cell-classes-neq', 'different cells compare equal across classes', W)


def forged_stored_hashes(R, B, r, rng, W):
    """a bag of cells whose optional stored hash / depth block is untrue: the parser may refuse it, but a cell it returns must report
    the hash and depth of its content"""
    cells = gen.all_cells(r)
    target = rng.randrange(len(cells))
    what = rng.choice(['hash', 'depth'])

    def forge(i, c, blob):
        if i != target:
            return blob
        b = bytearray(blob)
        nh = rc.popcount(c.mask) + 1
        if what == 'hash':
            b[2 + rng.randrange(32 * nh)] ^= 1 << rng.randrange(8)
        else:
            b[2 + 32 * nh + rng.randrange(2 * nh)] ^= 1 << rng.randrange(8)
        return bytes(b)
    data = rc.encode_boc([r], has_idx=rng.random() < 0.5, has_crc=rng.random() < 0.5, with_hashes=True, forge=forge)
    st, c = mon.call(B.Cell.one_from_boc, data)
    R.count('forged_stored_' + what)
    if st == 'exc':
        R.exc(c)
        R.count('forged_stored_rejected')
        return
    R.count('forged_stored_parsed')
    check_cell(R, r, c, f'boc-forged-stored-{what}', dict(W, forged_boc=data if len(data) < 2000 else None))


def check_cell(R, r, c, route, W):
    R.count(f'route:{route.split("(")[0]}')
    ok = R.check(c.hash == r.hash, f'hash-route-{route.split("(")[0]}', f'hash via {route} differs from spec', W)
    R.check(c.get_depth(0) == r.depth and c.get_depth(3) == r.depth, f'depth-route-{route.split("(")[0]}',
            f'depth via {route} = {c.get_depth(0)} want {r.depth}', W)
    for l in range(4):
        R.check(c.get_hash(l) == r.hash, f'get_hash-l{l}', f'get_hash({l}) of an ordinary level-0 cell must be its hash', W)
    st, v = mon.call(c.calculate_representation_hash)
    R.count('repr_hash_evals' + ('_with_refs' if r.refs else ''))
    if st == 'exc':
        R.violation('repr-hash-raises' + ('-with-refs' if r.refs else ''), f'calculate_representation_hash() raised {v!r}', W)
    else:
        R.check(v == r.hash, 'repr-hash-differs', 'calculate_representation_hash() != cached hash / spec', W)
    # what the cell reports about its own data must be what was put in
    R.check(c.bits.to01() == r.bits and len(c.refs) == len(r.refs), f'content-route-{route.split("(")[0]}',
            f'cell via {route} holds {len(c.bits)} bits, expected {len(r.bits)}', W)
    return ok


def one(R, B, r, heavy=True, sample=None):
    W = {'bits': r.bits, 'nrefs': len(r.refs), 'depth': r.depth, 'boc': rc.encode_boc([r]) if len(gen.all_cells(r)) < 60 else None}
    st, base = mon.call(bridge.to_lib, r, 'builder')
    if st == 'exc':
        R.exc(base)
        R.violation('build-raises', f'building a valid ordinary cell raised {base!r}', W)
        return None
    for route, thunk in routes(R, B, r, base, heavy):
        try:
            c = thunk()
        except mon.Budget:
            raise
        except (Exception, RecursionError) as e:
            R.exc(e)
            key = f'route-raises-{route.split("(")[0]}-{type(e).__name__}' + ('-deep' if r.depth > 400 else '')
            R.violation(key, f'construction route {route} raised {e!r} for a valid cell (depth {r.depth})',
                        dict(W, tb=traceback.format_exc()[-1500:]))
            continue
        check_cell(R, r, c, route, W)
        # a cell obtained this way is a cell like any other: what is derived from it is the same cell again
        if route.startswith(('direct_', 'copy.', 'pickle', 'builder.store_bits', 'consumed-slice')) or R.rng.random() < 0.15:
            for dname, d in (('copy', lambda: c.copy()), ('begin_parse.to_cell', lambda: c.begin_parse().to_cell()), ('to_builder.end_cell', lambda: c.to_builder().end_cell()),
                             ('Slice.from_cell.copy.to_cell', lambda: B.Slice.from_cell(c).copy().to_cell())):
                st, c2 = mon.call(d)
                R.count('second_order_routes')
                if st == 'exc':
                    R.exc(c2)
                    R.violation(f'route-raises-{route.split("(")[0]}-then-{dname}-{type(c2).__name__}', f'{dname} of a cell obtained via {route} raised {c2!r}', W)
                else:
                    R.check(c2.hash == r.hash and c2.bits.to01() == r.bits and len(c2.refs) == len(r.refs), f'hash-route-{route.split("(")[0]}-then-{dname}',
                            f'{dname} of a cell obtained via {route} is another cell', W)
    if heavy and r.depth < 900:
        st, e = mon.call(builder_reuse, R, B, r, W)
        if st == 'exc':
            R.violation(f'builder-reuse-raises-{type(e).__name__}', f'end_cell / store / end_cell on one builder raised {e!r}', W)
        if len(gen.all_cells(r)) < 200:
            forged_stored_hashes(R, B, r, R.rng, W)
        derived_use(R, B, r, base, W)
    R.case(mon.fp('c', r.hash), sample=sample)
    R.cover('bitlens', len(r.bits))
    R.cover('refcounts', len(r.refs))
    R.extra['max_depth'] = max(R.extra.get('max_depth', 0), r.depth)
    return base


def equality_pool(R, B, rng, n):
    """(a == b) <=> spec hashes equal; hash() consistent; dict/set collide exactly on equal hashes"""
    pool = []
    for _ in range(n):
        r = rc.RC(gen.some_bits(rng, 64), [rc.RC(gen.rand_bits(rng, 3)) for _ in range(rng.randrange(0, 3))])
        pool.append(r)
        b = r.bits
        if b:
            i = rng.randrange(len(b))
            pool.append(rc.RC(b[:i] + ('1' if b[i] == '0' else '0') + b[i + 1:], r.refs))   # one-bit neighbour
        pool.append(rc.RC(b + '0', r.refs))
        pool.append(rc.RC(b, r.refs[::-1]))      # same refs, other order
        pool.append(rc.RC(b, r.refs[:-1]))       # same bits, fewer refs
        pool.append(rc.RC(b, r.refs))            # the same logical cell again
    libs = []
    for i, r in enumerate(pool):
        route = ('builder', 'direct_tvm', 'boc', 'direct_plain')[i % 4]
        libs.append(bridge.to_lib(r, route))
    d, s = {}, set()
    for r, c in zip(pool, libs):
        d[c] = r.hash
        s.add(c)
    want = len({r.hash for r in pool})
    R.check(len(d) == want and len(s) == want, 'dict-collisions', f'dict/set keep {len(d)}/{len(s)} entries for {want} distinct hashes')
    for (ra, ca), (rb, cb) in itertools.combinations(list(zip(pool, libs))[:400], 2):
        eq = ra.hash == rb.hash
        R.count('pairs_compared')
        R.check((ca == cb) == eq, 'eq-mismatch', f'(a == b) is {ca == cb} but spec hashes equal is {eq}',
                {'a': ra.bits, 'b': rb.bits})
        if eq:
            R.check(hash(ca) == hash(cb), 'hash-mismatch', 'equal cells hash differently')
    for r, c in zip(pool, libs):
        R.check(d[c] == r.hash, 'dict-lookup', 'dictionary lookup by cell returned another cell\'s entry')


def depth_limits(R, B, rng, full):
    """depth 1022/1023 must succeed (every position of the deep child), 1024 must raise"""
    for width, pos in ([(1, 0), (4, 3), (4, 0), (2, 1)] if full else [(1, 0), (4, 3)]):
        r1023 = gen.chain(1023, pos=pos, width=width)
        base = one(R, B, r1023, heavy=full and width == 1)
        R.count('depth1023_built')
        if base is None:
            continue
        R.check(base.get_depth(0) == 1023, 'depth1023', 'chain of depth 1023 reports another depth')
        # one more level must be refused
        for maker in ('builder', 'direct'):
            def mk():
                refs = [B.Cell.empty()] * width
                refs[pos] = base
                if maker == 'builder':
                    b = B.Builder()
                    for x in refs:
                        b.store_ref(x)
                    return b.end_cell()
                return B.Cell(bridge.tvm_bits('1'), refs, -1)
            st, v = mon.call(mk)
            R.count('depth1024_attempts')
            if st == 'ok':
                R.violation('depth1024-accepted', f'cell of depth {v.get_depth(0)} constructed without error via {maker}')
            else:
                R.exc(v)
                R.check(True, 'x', '')
    r1022 = gen.chain(1022)
    one(R, B, r1022, heavy=False)


def run(R):
    B = bridge.lib()
    rng = R.rng
    quick = R.tier == 'quick'
    inv = bridge.CellInvariant(R).install()
    inv.retain = 20000
    R.rule = ('ordinary cells: every bit length 0..1023 x content patterns x 0..4 refs, random DAGs with sharing, chains to '
              'depth 1023; each pushed through every construction route; distinct = distinct spec hash of the root cell; '
              'non-trivial = all (no trivial cases: every cell is compared on hash, depth, content, recomputed representation)')
    R.assumptions = ['reference R1 (lib/refcell.py) validated by lib/selftest.py against the pinned main-net block hash',
                     'hashlib.sha256, bitarray trusted']
    leafs = [rc.RC(gen.rand_bits(rng, 5 + i)) for i in range(4)]
    deep = gen.chain(5)
    # exhaustive over bit lengths (sharded by length)
    lens = [n for n in range(1024) if n % R.nshards == R.shard]
    for n in lens:
        pats = gen.bit_patterns(rng, n)
        if quick:
            pats = [pats[(n + k) % len(pats)] for k in range(2)] if n else pats
        for pi, bits in enumerate(dict.fromkeys(pats)):
            for k in (range(5) if not quick else [(n + pi) % 5]):
                refs = [(leafs + [deep])[(n + j) % 5] for j in range(k)]
                heavy = (not quick) or n % 8 in (0, 1, 7) or n > 1015 or n < 10
                one(R, B, rc.RC(bits, refs), heavy=heavy, sample={'bits_len': n, 'pattern': pi, 'refs': k})
                if n % 8 and pi < 3 and n < 1016:
                    # the byte-aligned cell whose data equals this cell's tag-padded data (same padded bytes, other length): both must
                    # live in one process, in both creation orders, so that a cache keyed by the padded bytes alone would collide
                    padded = bits + '1' + '0' * (7 - n % 8)
                    if (n + pi) % 2:
                        one(R, B, rc.RC(padded, refs), heavy=False)
                    else:
                        one(R, B, rc.RC(padded, refs), heavy=False)
                        one(R, B, rc.RC(bits, refs), heavy=False)
                    R.count('tag_collision_siblings')
    # random DAGs with sharing
    for i in range(6 if quick else 20):
        r = gen.rand_dag(rng, rng.choice([5, 30, 120] if quick else [50, 400, 2000, 20000 // 4]))
        one(R, B, r, heavy=True, sample={'dag_cells': len(gen.all_cells(r)), 'depth': r.depth})
        R.count('dags')
    for r in (gen.ladder(12), gen.diamond(10), gen.kary(3, 4), gen.wide(300)):
        one(R, B, r, heavy=True)
        R.count('dags')
    equality_pool(R, B, rng, 25 if quick else 150)
    if R.shard == 0:
        type_twins(R, B, rng)
        ordinary_over_exotic(R, B, rng)
        subclass_equality(R, B, rng)
    if R.shard == 0:
        depth_limits(R, B, rng, full=not quick)
    inv.revalidate('end of run')
    inv.uninstall()
    if R.nshards == 1 or R.shard == 0:
        R.floor('depth1023_built', 1)
        R.floor('depth1024_attempts', 2)
    R.floor('inv_cells', 1000)
    R.floor('inv_revalidated', 1000)
    R.floor('builder_reuse', 50)
    R.floor('derived_use', 50)
    R.floor('tag_collision_siblings', 100)
    R.floor('forged_stored_hash', 10)
    R.floor('forged_stored_depth', 10)
    R.floor('repr_hash_evals_with_refs', 100)
    R.floor('pairs_compared', 100)
    if R.nshards == 1:
        R.floor('bitlens', 1024, 'set')
        R.floor('refcounts', 5, 'set')


def replay(R, w, rec):
    B = bridge.lib()
    inv = bridge.CellInvariant(R).install()
    if w and w.get('boc'):
        r = rc.decode_boc(w['boc'])['roots'][0]
    elif w and 'bits' in w:
        r = rc.RC(w['bits'], [rc.RC('1')] * w.get('nrefs', 0))
    else:
        r = gen.chain(1023)
    one(R, B, r)
    inv.uninstall()

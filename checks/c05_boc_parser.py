"""C05 - the BoC parser agrees with the format on foreign input (every encoder freedom) and rejects corruption."""
from lib import bridge, crcref, dags, gen, mon, refcell as rc

SHARDS = 16
LEVEL = 'fault_enumeration'


def random_encoding(rng, roots):
    """a conforming encoding of `roots` with every freedom drawn at random; returns (bytes, description)"""
    order = rc.random_topo_order(roots, rng)
    n = len(order)
    magic = rng.choice(['generic'] * 4 + ['idx', 'idx_crc']) if len(roots) == 1 else 'generic'
    kw = {}
    if magic != 'generic':
        # lean forms: single root which must be cell 0
        order = [roots[0]] + [c for c in order if c.hash != roots[0].hash]
        # keep a valid topological order: the root has no parents so moving it first is safe
    else:
        kw['has_idx'] = rng.random() < 0.5
        kw['has_crc'] = rng.random() < 0.5
        kw['has_cache_bits'] = kw['has_idx'] and rng.random() < 0.4
        if kw['has_cache_bits']:
            kw['cache_bit_fn'] = lambda i: (i * 7 + n) % 3 == 0
    size = rng.randint(rc.minbytes(n), 4)
    stored = rng.random() < 0.35
    wh = (lambda c: c.mask in (0, 1, 3, 7) and (hash(c.hash) % 3 != 0)) if stored else False
    idx_of = {x.hash: i for i, x in enumerate(order)}
    tot = sum(len(c.serialize(idx_of, size, wh(c) if callable(wh) else False)) for c in order)
    mx = tot * 2 + 1 if kw.get('has_cache_bits') else tot
    off = rng.randint(rc.minbytes(mx), 8)
    b = rc.encode_boc(roots, order=order, magic=magic, size=size, off_bytes=off, with_hashes=wh, **kw)
    desc = {'magic': magic, 'size': size, 'off_bytes': off, 'stored_hashes': stored, 'roots': len(roots), 'cells': n,
            **{k: v for k, v in kw.items() if k != 'cache_bit_fn'}}
    return b, desc


def positive(R, B, rng, roots, W):
    b, desc = random_encoding(rng, roots)
    d = rc.decode_boc(b, strict_distinct=False)     # the encoding is conforming by construction; self-check of the encoder
    assert [x.hash for x in d['roots']] == [x.hash for x in roots]
    W = dict(W, boc=b if len(b) < 4000 else None, enc=desc)
    for k in ('magic', 'size', 'off_bytes', 'stored_hashes', 'roots', 'has_idx', 'has_crc', 'has_cache_bits'):
        if k in desc:
            R.cover(f'freedom:{k}', desc[k])
    st, got = mon.call(B.Cell.from_boc, b)
    R.count('foreign_encodings')
    if st == 'exc':
        R.exc(got)
        mech = f'magic-{desc["magic"]}' if desc['magic'] != 'generic' else ('stored-hashes' if desc['stored_hashes'] else
                                                                             f'size{desc["size"]}-off{desc["off_bytes"]}-roots{desc["roots"]}')
        R.violation(f'valid-encoding-rejected-{mech}', f'conforming encoding {desc} rejected: {got!r}', W)
        return b, desc
    R.check(isinstance(got, list) and len(got) == len(roots), f'root-count-{desc["magic"]}', f'{len(got)} roots returned, encoding denotes {len(roots)} ({desc})', W)
    for i, (g, r) in enumerate(zip(got, roots)):
        mech = f'magic-{desc["magic"]}' if desc['magic'] != 'generic' else ('stored-hashes' if desc['stored_hashes'] else 'generic')
        ok = R.check(g.hash == r.hash, f'root-differs-{mech}', f'root {i} differs from the denoted one ({desc})', W)
        if ok:
            R.check(bridge.struct_lib(g) == rc.structural(r), 'structure-differs', f'root {i} structure differs ({desc})', W)
    return b, desc


def width_product(R, B, rng):
    """the small dimensions exhaustively: every admissible size width (minimal..4) x offset width (minimal..8) x flag combination x magic, for a handful of
    tiny bags (a single empty cell, a single one-byte cell, two and three cells) - the encodings where fixed-size header arithmetic is most likely to be off"""
    tiny = [rc.RC(''), rc.RC('1'), rc.RC('10101010'), rc.RC('', (rc.RC(''),)), rc.RC('1', (rc.RC('0'), rc.RC('0'))), rc.RC('11', (rc.RC('0', (rc.RC(''),)), rc.RC('')))]
    for ti, r in enumerate(tiny):
        n = len(rc.topo_order([r]))
        for size in range(rc.minbytes(n), 5):
            for off in range(1, 9):
                variants = [dict(magic='generic', has_idx=i, has_crc=c, has_cache_bits=(i and k)) for i in (False, True) for c in (False, True) for k in ((False, True) if i else (False,))]
                variants += [dict(magic='idx'), dict(magic='idx_crc')]
                for kw in variants:
                    try:
                        b = rc.encode_boc([r], size=size, off_bytes=off, **kw)
                    except rc.RefError:
                        continue
                    st, got = mon.call(B.Cell.from_boc, b)
                    R.counters['oracle_evaluations'] += 1
                    R.count('width_product_encodings')
                    desc = dict(kw, size=size, off_bytes=off, cells=n, data_bytes=sum(len(c.serialize({x.hash: j for j, x in enumerate(rc.topo_order([r]))}, size)) for c in rc.topo_order([r])))
                    if st == 'exc':
                        R.exc(got)
                        R.violation(f'valid-encoding-rejected-tiny-bag-size{size}-off{off}' if n == 1 and not r.bits else f'valid-encoding-rejected-small-bag-{kw["magic"]}',
                                    f'conforming encoding of a {n}-cell bag ({desc}) rejected: {got!r}', {'boc': b, 'enc': {k: str(v) for k, v in desc.items()}})
                    else:
                        R.check(len(got) == 1 and got[0].hash == r.hash, 'root-differs-small-bag', f'{n}-cell bag ({desc}) parsed to another root', {'boc': b})
        R.case(mon.fp('wp', ti))
    # several roots in every position and order, repeated roots included, for a three-cell bag under every admissible width
    r3 = rc.RC('11', (rc.RC('0', (rc.RC(''),)), rc.RC('')))
    cells3 = rc.topo_order([r3])
    import itertools as _it
    for k in (1, 2, 3, 4):
        for roots in _it.product(cells3, repeat=k):
            if r3.hash not in {x.hash for x in roots}:
                continue          # every cell must be reachable from some root
            for size, off, kw in ((1, 1, {}), (2, 1, dict(has_idx=True)), (4, 8, dict(has_crc=True)), (3, 2, dict(has_idx=True, has_cache_bits=True, has_crc=True))):
                try:
                    b = rc.encode_boc(list(roots), size=size, off_bytes=off, **kw)
                except rc.RefError:
                    continue
                st, got = mon.call(B.Cell.from_boc, b)
                R.counters['oracle_evaluations'] += 1
                R.count('multi_root_encodings')
                if st == 'exc':
                    R.violation(f'valid-encoding-rejected-roots{k}', f'conforming encoding with {k} roots (size {size}, off {off}, {kw}) rejected: {got!r}', {'boc': b, 'roots': k})
                else:
                    R.check([g.hash for g in got] == [x.hash for x in roots], f'roots-differ-{k}-roots', f'{k} roots: returned roots differ from the root list (count, order or cells)', {'boc': b, 'roots': k})


_ENTRY = [0]


def must_reject(R, B, data, key, what, W):
    st, got = mon.call(B.Cell.from_boc, data)
    R.counters['oracle_evaluations'] += 1
    R.count(f'neg:{key}')
    if st == 'ok':
        R.violation(f'accepted-{key}', f'{what} was accepted: returned {len(got)} cell(s)', dict(W, corrupted=data if len(data) < 2000 else None))
        return False
    R.exc(got)
    # the other ways into the same parser (one of them per call, in rotation): the slice and builder entry points, and Boc(data).deserialize(cls) with each of
    # the classes the library itself passes for cls - the rejection must not depend on the class of object being built
    from pytoniq_core.boc.deserialize import Boc, NullCell
    _ENTRY[0] += 1
    ename, entry = [('Slice.one_from_boc', lambda: B.Slice.one_from_boc(data)), ('Builder.one_from_boc', lambda: B.Builder.one_from_boc(data)),
                    ('Boc.deserialize(Slice)', lambda: Boc(data).deserialize(B.Slice)), ('Boc.deserialize(NullCell)', lambda: Boc(data).deserialize(NullCell)),
                    ('Boc.deserialize(Builder)', lambda: Boc(data).deserialize(B.Builder)), ('Boc.deserialize()', lambda: Boc(data).deserialize())][_ENTRY[0] % 6]
    st2, got2 = mon.call(entry)
    R.count(f'neg-entry:{ename}')
    if st2 == 'ok':
        R.violation(f'accepted-{key}-via-{ename.split("(")[0]}{"-cls" if "(" in ename and not ename.endswith("()") else ""}', f'{what} was accepted through {ename}: returned {mon.srepr(got2, 80)}',
                    dict(W, corrupted=data if len(data) < 2000 else None, entry=ename))
        return False
    return True


def reseal(b):
    return b[:-4] + crcref.crc32c_fast(b[:-4]).to_bytes(4, 'little')


def raw_boc(blobs, root_idx, size, has_crc=True):
    """generic-magic bag assembled from ready-made cell blobs (no index), conforming in everything except possibly the references inside the blobs"""
    data = b''.join(blobs)
    off = rc.minbytes(len(data))
    out = bytearray(rc.MAGIC_GENERIC)
    out.append((64 if has_crc else 0) | size)
    out.append(off)
    out += len(blobs).to_bytes(size, 'big') + len(root_idx).to_bytes(size, 'big') + (0).to_bytes(size, 'big') + len(data).to_bytes(off, 'big')
    for r in root_idx:
        out += r.to_bytes(size, 'big')
    out += data
    if has_crc:
        out += crcref.crc32c_fast(bytes(out)).to_bytes(4, 'little')
    return bytes(out)


def rewritten_checksums(R, B, rng):
    """the stored checksum replaced by particular values (all zero bytes, all ones, its own byte-reversal, the checksum of the body alone): whatever the value, a
    checksum that is not the CRC-32C of everything before it is a corrupted bag"""
    for r in (rc.RC(''), rc.RC('10110011'), gen.chain(3), gen.ladder(3), gen.rand_dag(rng, 5, max_bits=40)):
        for magic in ('generic', 'idx_crc'):
            for has_idx in ((False, True) if magic == 'generic' else (True,)):
                good = rc.encode_boc([r], magic=magic, has_idx=has_idx, has_crc=True)
                true = good[-4:]
                for name, val in (('zero', bytes(4)), ('ones', b'\xff' * 4), ('reversed', true[::-1]), ('one-byte-zeroed', true[:3] + b'\x00'), ('incremented', ((int.from_bytes(true, 'little') + 1) & 0xFFFFFFFF).to_bytes(4, 'little'))):
                    if val == true:
                        continue
                    must_reject(R, B, good[:-4] + val, f'checksum-rewritten-{name}', f'a CRC-protected bag whose stored checksum was replaced ({name}: {val.hex()} instead of {true.hex()})',
                                {'magic': magic, 'idx': has_idx, 'cells': len(rc.topo_order([r]))})
                    R.count('rewritten_checksums')


def high_fan_in_bags(R, B, rng):
    """one cell referenced 255, 256, 257, 300 and 1000 times (and listed as a root besides): a well-formed bag whatever the number of references TO a cell"""
    for uses in (255, 256, 257, 300, 1000):
        leaf = rc.RC('1101')
        level = [rc.RC(rc.u(i, 16), (leaf,) * min(4, uses - 4 * i)) for i in range((uses + 3) // 4)]
        while len(level) > 1:
            level = [rc.RC(rc.u(j, 12) + '1', tuple(level[j * 4:j * 4 + 4])) for j in range((len(level) + 3) // 4)]
        root = level[0]
        for roots in ([root], [root, leaf], [leaf, root, leaf]):
            data = rc.encode_boc(roots, has_idx=uses % 2 == 0, has_crc=uses % 3 == 0)
            st, got = mon.call(B.Cell.from_boc, data)
            R.counters['oracle_evaluations'] += 1
            R.count('high_fan_in_bags')
            R.check(st == 'ok' and [g.hash for g in got] == [x.hash for x in roots], 'well-formed-bag-rejected-high-fan-in',
                    f'a bag in which one cell is referenced {uses} times ({len(roots)} roots) ' + (f'was rejected: {got!r}' if st == 'exc' else 'parsed to other roots'), {'uses': uses, 'roots': len(roots)})
        R.case(mon.fp('fanin', uses))


def large_bag_with_full_cells(R, B, rng):
    """more than 65 536 cells (three-byte reference indices) AND completely full cells (1023 bits, four references) among them, with and without stored hashes:
    the largest a single cell can be in the widest index form the small bags never reach"""
    import time as _t
    leaves = [rc.RC(rc.u(i, 17)) for i in range(65536 + 40)]
    level = [rc.RC(gen.rand_bits(rng, 1023) if j % 1000 == 0 else rc.u(j, 15), tuple(leaves[j * 4:j * 4 + 4])) for j in range((len(leaves) + 3) // 4)]
    while len(level) > 1:
        level = [rc.RC(gen.rand_bits(rng, 1023) if (j % 50 == 0 and len(level[j * 4:j * 4 + 4]) == 4) else rc.u(j, 13) + '1', tuple(level[j * 4:j * 4 + 4])) for j in range((len(level) + 3) // 4)]
    root = level[0]
    for kw in ({}, {'has_idx': True, 'has_crc': True}):
        data = rc.encode_boc([root], **kw)
        t0 = _t.time()
        st, got = mon.call(B.Cell.from_boc, data)
        R.counters['oracle_evaluations'] += 1
        R.count('large_bags_with_full_cells')
        R.check(st == 'ok' and len(got) == 1 and got[0].hash == root.hash, 'well-formed-bag-rejected-large-with-full-cells',
                f'a bag of {len(rc.topo_order([root]))} cells (3-byte indices) containing completely full cells ' + (f'was rejected: {got!r}' if st == 'exc' else 'parsed to another root'),
                {'cells': len(rc.topo_order([root])), 'bytes': len(data), 'options': kw})
        R.extra['large_bag_parse_seconds'] = round(_t.time() - t0, 1)
    R.case(mon.fp('largefull', root.hash))


def announced_refs_in_tiny_bags(R, B, rng):
    """a bag of ONE cell (and of two) whose descriptor announces 1..4 references: every index is necessarily a self reference (0), a backward one or a dangling
    one (>= cells_num) - there is nothing a one-cell bag could validly refer to.  With CRC and without, data lengths 0..3 bytes, every target value."""
    for ncells in (1, 2):
        for k in (1, 2, 3, 4):
            for nbytes in (0, 1, 3):
                for target in (0, 1, 2, 255):
                    for has_crc in (True, False):
                        root = bytes([k, 2 * nbytes]) + bytes(range(1, nbytes + 1)) + bytes([target] * k)
                        blobs = [root] + [bytes([0, 2, 0x55])] * (ncells - 1)
                        if ncells == 2 and target == 1:
                            continue        # 0 -> 1 is a valid forward reference in a two-cell bag
                        data = raw_boc(blobs, [0], 1, has_crc)
                        kind = 'self' if target == 0 else 'dangling'
                        must_reject(R, B, data, f'announced-refs-{ncells}cell-bag-{kind}', f'a {ncells}-cell bag whose root announces {k} reference(s) to index {target} ({kind})',
                                    {'cells': ncells, 'announced_refs': k, 'target': target, 'crc': has_crc})
                        R.count('announced_refs_tiny_bags')


MUST_REJECT_REASONS = ('not strictly forward', 'truncated', 'trailing bytes', 'crc mismatch', 'root index', 'cell data length', 'length with crc')


def differential(R, B, data, key, what, W):
    """judge a derived encoding by the strict reference decoder: conforming -> the library must return the denoted roots; rejected for one of the
    reasons the property names (references that are not forward / dangling, truncation, extension, CRC) -> the library must raise; anything else is not judged"""
    try:
        d = rc.decode_boc(data, strict_distinct=False)
        verdict = 'accept'
    except rc.RefError as e:
        verdict = 'reject' if any(m in str(e) for m in MUST_REJECT_REASONS) else 'unjudged'
    R.count(f'shift:{key}:{verdict}')
    if verdict == 'unjudged':
        return
    if verdict == 'reject':
        must_reject(R, B, data, key, what, W)
        return
    st, got = mon.call(B.Cell.from_boc, data)
    R.counters['oracle_evaluations'] += 1
    if st == 'exc':
        R.violation(f'valid-derived-encoding-rejected-{key}', f'{what}: conforming, but rejected with {got!r}', dict(W, derived=data if len(data) < 2000 else None))
    else:
        R.check([g.hash for g in got] == [x.hash for x in d['roots']], f'derived-encoding-roots-differ-{key}', f'{what}: parsed roots differ from the denoted ones',
                dict(W, derived=data if len(data) < 2000 else None))


def shifted_bags(R, B, rng, roots, W):
    """bags that share their cell bytes with a bag parsed just before, at shifted positions: the same reference bytes then denote other cells
    (a reference to the next cell becomes a self-reference, the last one dangles).  Nothing learnt from the earlier parse may be reused."""
    order = rc.topo_order(roots)
    n = len(order)
    size = rc.minbytes(n + 1)
    idx_of = {c.hash: i for i, c in enumerate(order)}
    blobs = [c.serialize(idx_of, size) for c in order]
    valid = raw_boc(blobs, [idx_of[r.hash] for r in roots], size)
    for variant in ('cold', 'after-valid-parse'):
        if variant == 'after-valid-parse':
            st, got = mon.call(B.Cell.from_boc, valid)
            R.check(st == 'ok' and [g.hash for g in got] == [r.hash for r in roots], 'raw-bag-rejected', 'hand-assembled conforming bag not parsed to its roots', dict(W, boc=valid))
        for tgt in sorted({1, n} | ({rng.randint(1, n)} if n > 1 else set())):
            newroot = bytes([1, 2, 0xA5]) + tgt.to_bytes(size, 'big')                 # ordinary cell, 8 data bits, one reference
            differential(R, B, raw_boc([newroot] + blobs, [0], size), f'prepended-root-{variant}',
                         f'a new root (reference -> cell {tgt}) prepended to the cell bytes of a valid bag ({variant}); every old reference now denotes the cell before', W)
        if n > 1:
            differential(R, B, raw_boc(blobs[1:], [0], size), f'dropped-first-cell-{variant}',
                         f'first cell removed from the cell bytes of a valid bag ({variant}); every reference now denotes the cell after', W)
            differential(R, B, raw_boc(blobs[1:] + blobs[:1], [0], size), f'rotated-cells-{variant}', f'cell bytes of a valid bag rotated by one ({variant})', W)
        differential(R, B, raw_boc(blobs + blobs, [idx_of[r.hash] for r in roots], size), f'cells-repeated-{variant}',
                     f'cell bytes of a valid bag repeated twice under one header ({variant})', W)
    R.count('shifted_bases')


def negative(R, B, rng, roots, W, full=True):
    order = rc.topo_order(roots)
    n = len(order)
    # base: CRC-protected generic encoding (with index half of the time)
    idx = rng.random() < 0.5
    base = rc.encode_boc(roots, has_crc=True, has_idx=idx)
    if len(base) > 320:
        return
    W = dict(W, base=base)
    for i in range(len(base) * 8):
        m = bytearray(base)
        m[i // 8] ^= 0x80 >> (i % 8)
        region = 'header' if i // 8 < 6 else ('crc' if i // 8 >= len(base) - 4 else 'body')
        must_reject(R, B, bytes(m), f'bitflip-crc-protected-{region}', f'single-bit flip at bit {i} of a CRC-protected BoC', W)
    for enc_name, enc in (('crc', base), ('nocrc', rc.encode_boc(roots, has_idx=idx)), ('lean', rc.encode_boc(roots[:1], magic='idx_crc'))):
        for k in range(len(enc)):
            must_reject(R, B, enc[:k], f'truncated-{enc_name}', f'input truncated to {k} of {len(enc)} bytes', W)
        for k in (1, 2, 3, 4):
            for fill in (b'\x00', b'\xff'):
                must_reject(R, B, enc + fill * k, f'extended-{enc_name}', f'input extended by {k} bytes', W)
    # reference rewrites with the CRC recomputed: the reference check itself is what is exercised
    size = rc.minbytes(n)
    idx_of = {c.hash: i for i, c in enumerate(order)}
    blobs = [c.serialize(idx_of, size) for c in order]
    hdr_len = len(base) - 4 - sum(map(len, blobs))
    pos = hdr_len
    for ci, (c, blob) in enumerate(zip(order, blobs)):
        for ri in range(len(c.refs)):
            at = pos + len(blob) - (len(c.refs) - ri) * size
            targets = {('self', ci), ('cells_num', n), ('max', (1 << (8 * size)) - 1)} | {('backward', j) for j in range(ci)}
            for kind, t in sorted(targets):
                if t >= 1 << (8 * size):
                    continue
                m = bytearray(base)
                m[at:at + size] = t.to_bytes(size, 'big')
                must_reject(R, B, reseal(bytes(m)), f'ref-{kind}', f'reference {ci}.{ri} rewritten to {t} ({kind}), CRC recomputed', W)
        pos += len(blob)
    # root index out of range, roots count zero
    h = bytearray(base)
    rootpos = 6 + 3 * size + base[5]
    h[rootpos:rootpos + size] = n.to_bytes(size, 'big')
    must_reject(R, B, reseal(bytes(h)), 'root-dangling', 'root index = cells count', W)
    R.count('negative_bases')
    shifted_bags(R, B, rng, roots, W)


def run(R):
    B = bridge.lib()
    rng = R.rng
    quick = R.tier == 'quick'
    R.rule = ('positive: every size width x offset width x flag set x magic for six tiny bags (exhaustive); DAG classes x random conforming encodings (size/offset widths minimal..max, index, cache bits incl. set cache '
              'flags, CRC, stored hashes for masks 0/1/3/7, 1..4 roots at arbitrary positions incl. repeats, random linear extension, '
              '3 magics); negative: for bases <= 320 bytes EVERY single-bit flip of the CRC-protected form, EVERY truncation, extensions '
              'by 1..4 bytes, every reference slot rewritten to self/each earlier index/cells_num/max with CRC resealed; '
              'bags re-using the cell bytes of a bag parsed just before at shifted positions (new root prepended, first cell dropped, rotated, repeated), judged by the strict decoder; '
              'distinct = distinct (roots, encoding bytes); non-trivial = all')
    R.assumptions = ['"rejected" = any Exception subclass propagates out of Cell.from_boc (the library has no error taxonomy)',
                     'stored hashes are only generated for level masks 0,1,3,7 (TON writer/reader disagree on gapped masks)']
    nb = 0
    for name, r in dags.classes(rng, R.tier, R.shard, R.nshards, bulk=1200 if quick else 20000):
        cells = gen.all_cells(r)
        W = {'class': name, 'cells': len(cells)}
        # 1..4 roots: the DAG root plus random inner cells / repeats / another small DAG
        for rep in range(1 if len(cells) > 400 else 3):
            k = rng.choice([1, 1, 1, 2, 3, 4])
            roots = [r]
            while len(roots) < k:
                roots.insert(rng.randrange(len(roots) + 1), rng.choice(cells) if rng.random() < 0.7 else gen.rand_dag(rng, 3, max_bits=9))
            roots = roots[:max(1, min(len(roots), len(rc.topo_order(roots))))]
            if r.hash not in {x.hash for x in roots}:
                roots[0] = r
            b, desc = positive(R, B, rng, roots, W)
            R.case(mon.fp(b), sample=desc if R.evaluations < 4 else None)
        if len(cells) <= 12 and nb < (16 if quick else 60):
            negative(R, B, rng, [r], W)
            nb += 1
    if R.shard == 0:
        width_product(R, B, rng)
        announced_refs_in_tiny_bags(R, B, rng)
        rewritten_checksums(R, B, rng)
        high_fan_in_bags(R, B, rng)
        large_bag_with_full_cells(R, B, rng)
    # deterministic small bases so that the negative half never depends on what the random classes produced
    for r in (rc.RC(''), rc.RC('1', (rc.RC('0'), rc.RC('0'))), gen.chain(3), gen.ladder(3), gen.rand_dag(rng, 4, max_bits=12)):
        negative(R, B, rng, [r], {'class': 'fixed-small'})
    R.floor('foreign_encodings', 100)
    R.floor('neg:bitflip-crc-protected-body', 500)
    R.floor('neg:truncated-crc', 100)
    R.floor('neg:ref-backward', 3)
    R.floor('neg:ref-self', 3)
    R.floor('shifted_bases', 5)
    if R.shard == 0:
        R.floor('width_product_encodings', 1000)
        R.floor('announced_refs_tiny_bags', 100)
    R.floor('shift:prepended-root-after-valid-parse:reject', 3)
    for v in ('generic', 'idx', 'idx_crc'):
        pass
    R.floor('freedom:magic', 3, 'set')
    R.floor('freedom:size', 3, 'set')


def replay(R, w, rec):
    B = bridge.lib()
    if w.get('corrupted'):
        must_reject(R, B, w['corrupted'], 'replay', 'replayed corrupted input', w)
    elif w.get('boc'):
        d = rc.decode_boc(w['boc'], strict_distinct=False)
        st, got = mon.call(B.Cell.from_boc, w['boc'])
        R.check(st == 'ok' and [g.hash for g in got] == [x.hash for x in d['roots']], 'replay-valid-encoding', f'conforming encoding not parsed to its roots: {got!r}', w)
    R.case(mon.fp(1)); R.case(mon.fp(2))

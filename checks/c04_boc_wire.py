"""C04 - emitted bag-of-cells bytes conform to the TON BoC wire format (strict independent decoder R2)."""
from lib import bridge, dags, gen, mon, refcell as rc

SHARDS = 16
OPTS = [(False, False, False), (True, False, False), (False, True, False), (True, True, False),
        (True, False, True), (True, True, True)]


def emit_and_check(R, name, r, c, W=None, opts=None):
    src = rc.structural(r)
    for o in (opts or OPTS):
        key = f'idx{int(o[0])}crc{int(o[1])}cache{int(o[2])}'
        st, b = mon.call(c.to_boc, *o)
        if st == 'exc':
            R.exc(b)
            R.violation(f'to_boc-raises-{type(b).__name__}', f'to_boc{o} raised {b!r} on class {name}', W)
            continue
        R.count('emissions:' + key)
        try:
            d = rc.decode_boc(b)
        except rc.RefError as e:
            reason = str(e).split('=')[0].split(' cell ')[0].split('[')[0].strip().replace(' ', '-')
            R.violation(f'nonconforming-{reason}-{"idx" if o[0] else "noidx"}{"-cache" if o[2] else ""}',
                        f'strict decoder rejects to_boc{o} output on class {name}: {e}', dict(W or {}, boc=b if len(b) < 3000 else None, opts=o))
            R.counters['oracle_evaluations'] += 1
            continue
        h = d['header']
        R.check(h['has_idx'] == o[0] and h['has_crc'] == o[1] and h['has_cache_bits'] == o[2], 'flags-not-as-requested',
                f'header flags {h} do not reflect options {o}', W)
        R.check(len(d['roots']) == 1 and d['roots'][0].hash == r.hash, 'decodes-to-other-root', f'emitted bytes decode to another root ({name})', W)
        R.check(rc.structural(d['roots'][0]) == src, 'decodes-to-other-dag', f'emitted bytes decode to another DAG ({name})', W)
        R.check(h['size'] == rc.minbytes(h['cells']) or h['size'] >= rc.minbytes(h['cells']), 'size-width', 'size width insufficient', W)
        if h['index'] is not None:
            R.count('index_entries_verified', len(h['index']))
        R.cover('size_bytes', h['size'])
        R.cover('off_bytes', h['off_bytes'])


def run(R):
    B = bridge.lib()
    rng = R.rng
    R.rule = ('DAG classes of lib/dags.py (random DAGs with sharing, exotic trees, ladders, diamonds, chains, cell-count and payload '
              'boundaries 255/256/257, 65535/65536/65537 in thorough) x the 6 valid option sets; every emission is decoded by the strict '
              'R2 decoder (widths, forward refs, distinct cells, index = cumulative end offsets (x2 with cache bits), CRC, flags, '
              'level mask byte, reachability) and compared structurally with the source DAG; distinct = distinct root hash; '
              'non-trivial = DAG with at least 2 cells')
    R.assumptions = ['R2 strict decoder written from crypto/tl/boc.tlb and validated on the pinned main-net block']
    for name, r in dags.classes(rng, R.tier, R.shard, R.nshards):
        ncells = len(gen.all_cells(r))
        W = {'class': name, 'cells': ncells, 'boc': rc.encode_boc([r]) if ncells < 80 else None}
        st, c = mon.call(bridge.to_lib, r, 'builder')
        if st == 'exc':
            R.exc(c)
            R.violation(f'build-raises-{type(c).__name__}', f'cannot build class {name}: {c!r}', W)
            continue
        emit_and_check(R, name, r, c, W)
        # the same DAG built so that equal sub-cells are distinct Python objects (a user who builds the same cell twice): still one cell on the wire
        if 1 < ncells <= 400:
            st, cf = mon.call(bridge.to_lib, r, 'builder-fresh')
            if st == 'ok':
                emit_and_check(R, name + '/equal-cells-as-distinct-objects', r, cf, dict(W, objects='distinct objects for equal cells'))
                R.count('fresh_object_emissions')
        # the same cell objects serialised as parts of different bags: a descendant on its own after its ancestor, then the ancestor again
        # (every emission must be right whatever was emitted before from the same objects)
        if 1 < ncells <= 400:
            subs = []
            stack = [(c, r)]
            seen = set()
            while stack and len(subs) < 4:
                lc, rr = stack.pop()
                for lk, rk in zip(lc.refs, rr.refs):
                    if rk.hash not in seen and rk.refs:
                        seen.add(rk.hash)
                        subs.append((lk, rk))
                        stack.append((lk, rk))
            for lk, rk in subs:
                emit_and_check(R, name + '/descendant-after-ancestor', rk, lk, dict(W, sequence='root, then descendant'))
                R.count('multi_bag_emissions')
            if subs:
                emit_and_check(R, name + '/ancestor-after-descendant', r, c, dict(W, sequence='root, descendants, root again'))
                # a new parent around an already serialised cell
                try:
                    parent_r = rc.RC('1011', (r, subs[0][1]))
                except rc.RefError:          # e.g. the root already has depth 1023: no parent exists
                    parent_r = None
                st2, parent = mon.call(lambda: B.Builder().store_bits('1011').store_ref(c).store_ref(subs[0][0]).end_cell()) if parent_r is not None else ('skip', None)
                if st2 == 'ok':
                    emit_and_check(R, name + '/new-parent-of-serialised-cells', parent_r, parent, dict(W, sequence='children first, then a new parent'))
        # the same DAG reached through two classes of cell objects: a subclass of Cell (the parser builds `cls` objects) and plain cells under one new parent
        if 1 < ncells <= 200 and r.type == rc.ORD:
            class _SubCell(B.Cell):
                pass
            st, sub = mon.call(lambda: _SubCell.one_from_boc(c.to_boc()))
            if st == 'ok':
                try:
                    mixed_r = rc.RC('0110', (r, r, rc.RC('1', (r,))))
                except rc.RefError:
                    mixed_r = None
                if mixed_r is not None:
                    st2, mixed = mon.call(lambda: B.Builder().store_bits('0110').store_ref(sub).store_ref(c).store_ref(B.Builder().store_bits('1').store_ref(sub.copy()).end_cell()).end_cell())
                    if st2 == 'ok':
                        emit_and_check(R, name + '/cells-of-two-classes', mixed_r, mixed, dict(W, objects='the same sub-DAG as Cell-subclass objects and as plain Cell objects'))
                        R.count('mixed_class_emissions')
        # objects derived from the cell are used (a builder made from it gets more references and bits, a slice of it is read), then the cell is emitted again
        if ncells <= 400 and r.type == rc.ORD:
            def use_derived():
                b = c.to_builder()
                if b.available_refs:
                    b.store_ref(B.Builder().store_uint(0x2A, 7).end_cell())
                if b.available_bits:
                    b.store_bit(1)
                b.end_cell()
                s = c.begin_parse()
                while s.remaining_refs:
                    s.load_ref()
                s.skip_bits(s.remaining_bits)
                cp = c.copy()
                cp.begin_parse().load_bits(min(3, len(cp.bits)))
            st, e = mon.call(use_derived)
            if st == 'ok':
                emit_and_check(R, name + '/after-derived-objects-were-used', r, c, dict(W, sequence='to_builder()+store_ref/store_bit, begin_parse()+reads, copy(); then to_boc again'))
                R.count('emissions_after_derived_use')
        R.case(mon.fp(r.hash) if ncells > 1 else None, sample={'class': name, 'cells': ncells})
        R.cover('classes', name)
        R.extra['largest_dag'] = max(R.extra.get('largest_dag', 0), ncells)
    # a bag whose (doubled) offsets need 4 bytes: 66 000 full cells = 8.6 MiB of cell data, index with cache bits (quick tier; the thorough tier has the 2^24-byte classes)
    if R.shard == 0 and R.tier == 'quick':
        r = gen.wide(66000, leaf_bits=lambda i: rc.u(i, 24) + '1' * 999)
        st, c = mon.call(bridge.to_lib, r, 'builder')
        if st == 'ok':
            emit_and_check(R, 'payload-8MiB-index-cache-bits', r, c, {'class': 'payload-8MiB-index-cache-bits', 'cells': 66000}, opts=[(True, False, True)])
            R.cover('classes', 'payload-8MiB-index-cache-bits')
    # cells built from a plain bit array and cells that came out of the parser serialise alike
    if R.shard == 0:
        from bitarray import bitarray
        for n in (0, 1, 5, 8, 13, 1023):
            bits = gen.rand_bits(rng, n)
            r = rc.RC(bits, (rc.RC('1'),))
            c = B.Cell(bitarray(bits), [B.Cell(bitarray('1'), [], -1)], -1)
            emit_and_check(R, f'plain-bitarray-{n}', r, c, {'bits': bits})
            c2 = B.Cell.one_from_boc(rc.encode_boc([r], has_idx=True, size=2, off_bytes=3))
            emit_and_check(R, f'parsed-foreign-{n}', r, c2, {'bits': bits})
            R.case(mon.fp('plain', bits))
    R.floor('emissions:idx1crc1cache1', 5)
    R.floor('index_entries_verified', 50)
    R.floor('off_bytes', 3, 'set')
    R.floor('multi_bag_emissions', 20)
    R.floor('fresh_object_emissions', 20)
    R.floor('mixed_class_emissions', 10)
    R.floor('emissions_after_derived_use', 20)


def replay(R, w, rec):
    r = rc.decode_boc(w['boc'])['roots'][0] if w.get('boc') else rc.RC(w.get('bits', '1'), (rc.RC('1'),))
    if w.get('opts'):
        r = rc.decode_boc(rc.encode_boc([rc.RC('101', (rc.RC('1'), rc.RC('0')))]))['roots'][0]
    emit_and_check(R, 'replay', r, bridge.to_lib(r), w)
    R.case(mon.fp(1)); R.case(mon.fp(2))

"""C18 - CRC-16/XMODEM and CRC-32C equal their bitwise definitions (R6)."""
from lib import crcref, mon

SHARDS = 16


def run(R):
    from pytoniq_core.crypto.crc import crc16, crc32c
    rng = R.rng
    quick = R.tier == 'quick'
    R.rule = ('byte strings: catalogue vectors, all 65536 two-byte inputs (every table index under every preceding high byte), '
              'every length 0..300 (quick) / 0..2000 (thorough) with random contents, 0x00/0xFF runs, long random buffers of odd and even length around 1k..64k (thorough: up to 1 MiB+1), alternating byte-order call sequences, valid calls right after calls with invalid arguments, inputs built around every 2..8-byte constant of the library source; '
              'distinct = distinct input; non-trivial = non-empty input')
    R.assumptions = ['R6 bitwise CRCs validated on the catalogue check values 31C3 / E3069283']
    idx16, idx32 = set(), set()

    def one(d, sample=False):
        w16, w32 = crcref.crc16_xmodem(d), crcref.crc32c(d)
        g16 = crc16(d)
        R.check(g16 == w16.to_bytes(2, 'big'), 'crc16', f'crc16 differs on a {len(d)}-byte input', {'data': d[:64], 'len': len(d)})
        g = crc32c(d)
        R.check(g == w32.to_bytes(4, 'little'), 'crc32c-default-little', 'crc32c() default byte order is not little / value differs',
                {'data': d[:64], 'len': len(d)})
        R.check(crc32c(d, 'little') == w32.to_bytes(4, 'little'), 'crc32c-little', 'crc32c little differs', {'data': d[:64]})
        R.check(crc32c(d, 'big') == w32.to_bytes(4, 'big'), 'crc32c-big', 'crc32c big differs', {'data': d[:64]})
        R.check(isinstance(g16, bytes) and len(g16) == 2 and isinstance(g, bytes) and len(g) == 4, 'crc-type', 'result type/length')
        # shadow: which table index each step of a table-driven implementation uses
        c = 0
        for b in d:
            idx16.add(((c >> 8) ^ b) & 0xFF)
            c = crcref.crc16_xmodem(bytes([((c >> 8) ^ b) & 0xFF])) ^ ((c << 8) & 0xFFFF)
        c = 0xFFFFFFFF
        for b in d:
            idx32.add((c ^ b) & 0xFF)
            c = crcref._T32[(c ^ b) & 0xFF] ^ (c >> 8)
        R.case(mon.fp(d) if d else None, sample={'len': len(d), 'hex': d[:16].hex()} if sample else None)

    crcref.crc32c_fast(b'')
    if R.shard == 0:
        for v in (b'', b'123456789', b'\x00', b'\xff', b'a', b'The quick brown fox jumps over the lazy dog'):
            one(v, True)
    pairs = [(a, b) for a in range(256) for b in range(256)]
    step = 1 if not quick else 1
    for i, (a, b) in enumerate(pairs):
        if i % R.nshards == R.shard:
            one(bytes([a, b]))
            R.count('two_byte_inputs')
    maxlen = 300 if quick else 2000
    for n in range(maxlen + 1):
        if n % R.nshards != R.shard:
            continue
        one(rng.randbytes(n), n in (5, 299))
        R.cover('lengths', n)
    for n in (1, 33, 34, 255, 256, 1000):
        one(b'\x00' * n)
        one(b'\xff' * n)
    one(rng.randbytes(20000 if quick else 1 << 18), True)
    # long inputs of every parity and around the sizes where an implementation might switch strategy (word-wise loops, chunking, C fast paths)
    longs = [1023, 1024, 1025, 2047, 2049, 4095, 4096, 4097, 4099, 8191, 8193, 16385, 32767, 32769, 65535, 65536, 65537] + [rng.randrange(301, 70000) | 1 for _ in range(4)] + \
        [rng.randrange(301, 70000) & ~1 for _ in range(4)]
    if not quick:
        longs += [(1 << 17) + 1, (1 << 18) - 1, (1 << 20) + 1] + [rng.randrange(70000, 300000) for _ in range(6)]
    for i, n in enumerate(longs):
        if i % R.nshards == R.shard:
            one(rng.randbytes(n))
            R.cover('long_lengths', n)
            R.count('long_inputs')
    # inputs of megabytes, at exact powers of two and their multiples (where a chunked / windowed implementation has its seams): 2^20, 2 * 2^20, 2^24 and neighbours.
    # Expected values from the table-driven reference (lib/crcref.crc32c_fast, itself compared with the bitwise definition on every shorter input above and on
    # a 64 KiB prefix here); crc16 through the bitwise reference on the 2^20 sizes only (its cost)
    if R.shard == 0:
        base = rng.randbytes(1 << 20)
        R.check(crcref.crc32c_fast(base[:65536]) == crcref.crc32c(base[:65536]), 'harness-fast-reference-disagrees', 'table-driven reference differs from the bitwise definition')
        megas = [(1 << 20) - 1, 1 << 20, (1 << 20) + 1, 2 << 20, (2 << 20) + 3, 3 << 19] + ([(1 << 24) + 5] if quick else
                                                                                          [(1 << 24) - 1, 1 << 24, (1 << 24) + 5, 3 << 23, (1 << 25) + 1, 5 << 20])
        for n in megas:
            d = (base * (n // len(base) + 1))[:n]
            d = d[:7] + bytes([n & 0xFF, (n >> 8) & 0xFF]) + d[9:]
            w32 = crcref.crc32c_fast(d)
            for order in ('little', 'big'):
                st, got = mon.call(crc32c, d, order)
                R.check(st == 'ok' and got == w32.to_bytes(4, order), f'crc32c-{order}-megabytes', f'crc32c({n} bytes, {order!r}) differs from the definition: {got!r}', {'len': n})
            if n <= (1 << 20) + 1:
                st, got = mon.call(crc16, d)
                R.check(st == 'ok' and got == crcref.crc16_xmodem(d).to_bytes(2, 'big'), 'crc16-megabytes', f'crc16({n} bytes) differs from the definition', {'len': n})
            R.cover('long_lengths', n)
            R.count('megabyte_inputs')
            R.case(mon.fp('mega', n))
    # the byte order is a value: text that equals 'big' / 'little' but was built at run time (not the interned literal: from a config file, .lower(), a str subclass)
    class Word(str):
        pass
    for d in (b'123456789', rng.randbytes(33), b''):
        w32 = crcref.crc32c(d)
        for order in ('big', 'little'):
            for fname, o in (('lower()', order.upper().lower()), ('join', ''.join(list(order))), ('decoded', order.encode().decode()), ('str-subclass', Word(order)),
                             ('sliced', ('x' + order + 'y')[1:-1])):
                st, got = mon.call(crc32c, d, o)
                R.check(st == 'ok' and got == w32.to_bytes(4, order), f'crc32c-{order}-byteorder-built-at-run-time', f'crc32c(data, {order!r} built by {fname}) gives {got!r}, '
                        f'the {order}-endian bytes are {w32.to_bytes(4, order)!r}', {'data': d[:32], 'how': fname})
                R.count('runtime_byteorder_strings')
    # every kind of byte string the functions accept: bytes, bytearray, memoryview (also of a larger buffer, and read-only / writable)
    for n in (0, 1, 4, 9, 64, 4097):
        d = rng.randbytes(n)
        big = bytearray(b'\xAA' * 7 + d + b'\x55' * 5)
        forms = [('bytes', d), ('bytearray', bytearray(d)), ('memoryview', memoryview(d)), ('memoryview-of-bytearray', memoryview(bytearray(d))), ('memoryview-slice', memoryview(big)[7:7 + n])]
        w16, w32 = crcref.crc16_xmodem(d).to_bytes(2, 'big'), crcref.crc32c(d)
        for fname, x in forms:
            st, got = mon.call(lambda: (crc16(x), crc32c(x), crc32c(x, 'big')))
            R.check(st == 'ok' and got == (w16, w32.to_bytes(4, 'little'), w32.to_bytes(4, 'big')), f'crc-input-type-{fname}', f'crc16/crc32c of a {fname} of {n} bytes: {mon.srepr(got, 60)}',
                    {'data': d[:64], 'len': n, 'form': fname})
            R.count('input_type_cases')
    # the same data again with the other byte order / the other function first: a result depends on the arguments of the call only
    for n in (0, 1, 9, 300, 5001):
        d = rng.randbytes(n)
        w32 = crcref.crc32c(d)
        seq = [crc32c(d, 'big'), crc32c(d), crc32c(d, 'little'), crc32c(d, 'big'), crc32c(bytearray(d), 'big'), crc32c(d + b'\x00', 'big'), crc32c(d, 'little')]
        want = [w32.to_bytes(4, 'big'), w32.to_bytes(4, 'little'), w32.to_bytes(4, 'little'), w32.to_bytes(4, 'big'), w32.to_bytes(4, 'big'),
                crcref.crc32c(d + b'\x00').to_bytes(4, 'big'), w32.to_bytes(4, 'little')]
        R.check(seq == want, 'crc32c-call-sequence', 'crc32c results depend on the calls made before (same data, alternating byte order)', {'data': d[:64], 'len': n})
        R.check([crc16(d), crc16(d + b'\x00'), crc16(b'\x00' + d), crc16(d)] == [crcref.crc16_xmodem(x).to_bytes(2, 'big') for x in (d, d + b'\x00', b'\x00' + d, d)],
                'crc16-call-sequence', 'crc16 of data / data+00 / 00+data in sequence', {'data': d[:64], 'len': n})
    # inputs that begin with, end with or are one of the library's own constants (bag-of-cells magics, TL ids, table entries): a checksum routine that special-cases
    # a prefix it knows - a precomputed register for the BoC magic, say - is wrong exactly there
    from lib import gen
    magics = gen.magic_constants()
    for i, c in enumerate(magics):
        if i % R.nshards != R.shard:
            continue
        for d in (c, c + rng.randbytes(rng.choice([1, 4, 9, 40])), rng.randbytes(rng.choice([1, 3, 8])) + c):
            one(d)
            R.count('magic_constant_inputs')
    # calls that fail (or not - their outcome is not judged) between valid ones: unknown byte order, data that is no byte string; the next valid call still
    # depends on its own arguments only
    bad_calls = [lambda d: crc32c(d, 'BIG'), lambda d: crc32c(d, 'middle'), lambda d: crc32c(d, None), lambda d: crc32c(d, 1), lambda d: crc32c('text'),
                 lambda d: crc32c(None), lambda d: crc32c([300, 1]), lambda d: crc16('text'), lambda d: crc16(None), lambda d: crc16([1, 2, 70000]), lambda d: crc32c(d[:3] + b'x', 'BIG'),
                 lambda d: crc32c(3.5), lambda d: crc16(object())]
    for n in (0, 1, 9, 64, 300):
        d = rng.randbytes(n)
        w16, w32 = crcref.crc16_xmodem(d).to_bytes(2, 'big'), crcref.crc32c(d)
        for bi, bad in enumerate(bad_calls):
            st, _ = mon.call(bad, d)
            R.cover('failed_call_outcomes', f'{bi}:{st}')
            got = (crc32c(d), crc32c(d, 'big'), crc16(d), crc32c(b''), crc16(b''))
            R.check(got == (w32.to_bytes(4, 'little'), w32.to_bytes(4, 'big'), w16, b'\x00' * 4, b'\x00' * 2), 'crc-after-failed-call',
                    f'checksums of a {n}-byte input and of the empty input right after a call with invalid arguments (bad call #{bi}, outcome {st})', {'data': d[:64], 'len': n, 'bad_call': bi})
            R.count('after_failed_call_cases')
    R.extra['table_indices_crc16'] = len(idx16)
    R.extra['table_indices_crc32c'] = len(idx32)
    R.counters['idx16'] = len(idx16)
    R.counters['idx32'] = len(idx32)
    if R.nshards == 1:
        R.floor('idx16', 256)
        R.floor('idx32', 256)
        R.floor('two_byte_inputs', 65536)
        R.floor('long_inputs', 20)


def replay(R, w, rec):
    from pytoniq_core.crypto.crc import crc16, crc32c
    d = w['data']
    R.check(crc16(d) == crcref.crc16_xmodem(d).to_bytes(2, 'big'), 'crc16', 'crc16 differs', w)
    R.check(crc32c(d) == crcref.crc32c(d).to_bytes(4, 'little'), 'crc32c-little', 'crc32c differs', w)
    R.case(mon.fp(d)); R.case(mon.fp(d + b'x'))

"""C18 - CRC-16/XMODEM and CRC-32C equal their bitwise definitions (R6)."""
from lib import crcref, mon

SHARDS = 8


def run(R):
    from pytoniq_core.crypto.crc import crc16, crc32c
    rng = R.rng
    quick = R.tier == 'quick'
    R.rule = ('byte strings: catalogue vectors, all 65536 two-byte inputs (every table index under every preceding high byte), '
              'every length 0..300 (quick) / 0..2000 (thorough) with random contents, 0x00/0xFF runs, a long random buffer; '
              'distinct = distinct input; non-trivial = non-empty input')
    R.assumptions = ['R6 bitwise CRCs validated on the catalogue check values 31C3 / E3069283']
    idx16, idx32 = set(), set()

    def one(d, sample=False):
        w16, w32 = crcref.crc16_xmodem(d), crcref.crc32c(d)
        g16 = crc16(d)
        R.check(g16 == w16.to_bytes(2, 'big'), 'crc16', f'crc16 differs on a {len(d)}-byte input', {'data': d[:64], 'len': len(d)})
        g = crc32c(d)
        R.check(g == w32.to_bytes(4, 'little'), 'crc32c-default-little', 'crc32c() default byte order is not little / value differs',
                {'data': d[:64], 'len': len(d)})
        R.check(crc32c(d, 'little') == w32.to_bytes(4, 'little'), 'crc32c-little', 'crc32c little differs', {'data': d[:64]})
        R.check(crc32c(d, 'big') == w32.to_bytes(4, 'big'), 'crc32c-big', 'crc32c big differs', {'data': d[:64]})
        R.check(isinstance(g16, bytes) and len(g16) == 2 and isinstance(g, bytes) and len(g) == 4, 'crc-type', 'result type/length')
        # shadow: which table index each step of a table-driven implementation uses
        c = 0
        for b in d:
            idx16.add(((c >> 8) ^ b) & 0xFF)
            c = crcref.crc16_xmodem(bytes([((c >> 8) ^ b) & 0xFF])) ^ ((c << 8) & 0xFFFF)
        c = 0xFFFFFFFF
        for b in d:
            idx32.add((c ^ b) & 0xFF)
            c = crcref._T32[(c ^ b) & 0xFF] ^ (c >> 8)
        R.case(mon.fp(d) if d else None, sample={'len': len(d), 'hex': d[:16].hex()} if sample else None)

    crcref.crc32c_fast(b'')
    if R.shard == 0:
        for v in (b'', b'123456789', b'\x00', b'\xff', b'a', b'The quick brown fox jumps over the lazy dog'):
            one(v, True)
    pairs = [(a, b) for a in range(256) for b in range(256)]
    step = 1 if not quick else 1
    for i, (a, b) in enumerate(pairs):
        if i % R.nshards == R.shard:
            one(bytes([a, b]))
            R.count('two_byte_inputs')
    maxlen = 300 if quick else 2000
    for n in range(maxlen + 1):
        if n % R.nshards != R.shard:
            continue
        one(rng.randbytes(n), n in (5, 299))
        R.cover('lengths', n)
    for n in (1, 33, 34, 255, 256, 1000):
        one(b'\x00' * n)
        one(b'\xff' * n)
    one(rng.randbytes(20000 if quick else 1 << 18), True)
    R.extra['table_indices_crc16'] = len(idx16)
    R.extra['table_indices_crc32c'] = len(idx32)
    R.counters['idx16'] = len(idx16)
    R.counters['idx32'] = len(idx32)
    if R.nshards == 1:
        R.floor('idx16', 256)
        R.floor('idx32', 256)
        R.floor('two_byte_inputs', 65536)


def replay(R, w, rec):
    from pytoniq_core.crypto.crc import crc16, crc32c
    d = w['data']
    R.check(crc16(d) == crcref.crc16_xmodem(d).to_bytes(2, 'big'), 'crc16', 'crc16 differs', w)
    R.check(crc32c(d) == crcref.crc32c(d).to_bytes(4, 'little'), 'crc32c-little', 'crc32c differs', w)
    R.case(mon.fp(d)); R.case(mon.fp(d + b'x'))

"""C17 - TVM stack values round-trip, follow the VmStack schema, and serialising does not consume them."""
from lib import bridge, bsmodel as M, gen, mon, refcell as rc

SHARDS = 16
CONT_KINDS = ['vmc_std', 'vmc_envelope', 'vmc_quit', 'vmc_quit_exc', 'vmc_repeat', 'vmc_until', 'vmc_again', 'vmc_while_cond',
              'vmc_while_body', 'vmc_pushint']


# ------------------------------------------------------------------ logical values
# None | int | ('cell', RC) | ('slice', RC) [whole remaining part] | ('builder', RC) | ('tuple', [values]) | ('cont', kind, {fields})

def gen_int(rng):
    k = rng.random()
    if k < 0.5:
        return rng.choice([0, 1, -1, 2 ** 63 - 1, 2 ** 63, 2 ** 63 + 1, -2 ** 63 + 1, -2 ** 63 - 1, 2 ** 64, -2 ** 64, 2 ** 256 - 1, -2 ** 256,
                           2 ** 255, 2 ** 62, -2 ** 62, 2 ** 256 - 2, -2 ** 256 + 1, 255, 256, -129])
    if k < 0.75:
        return rng.randrange(-2 ** 63 + 1, 2 ** 63)
    return rng.randrange(-2 ** 256, 2 ** 256)


def gen_value(rng, depth=0, conts=True):
    k = rng.random()
    if k < 0.1:
        return None
    if k < 0.45:
        return gen_int(rng)
    if k < 0.55:
        if rng.random() < 0.25:
            return ('cell', rc.RC(gen.some_bits(rng, rng.choice([0, 1016, 1017, 1023])), [rc.RC(rc.u(i, 3)) for i in range(rng.choice([0, 4]))]))
        return ('cell', gen.rand_dag(rng, rng.choice([1, 3]), max_bits=60))
    if k < 0.67:
        return ('slice', rc.RC(gen.some_bits(rng, rng.choice([0, 5, 200, 1023])), [rc.RC(rc.u(i, 3)) for i in range(rng.randint(0, 4))]))
    if k < 0.74:
        # builders of every fill level, the byte-padding boundary (1016/1017) and the full builder (1023 bits, 4 references) included
        return ('builder', rc.RC(gen.some_bits(rng, rng.choice([0, 1, 80, 80, 1015, 1016, 1017, 1022, 1023])), [rc.RC(rc.u(i, 2)) for i in range(rng.choice([0, 0, 1, 2, 4]))]))
    if k < 0.9 and depth < 6:
        n = rng.choice([0, 1, 2, 3, 4, 4, 7, 20] + ([255] if depth == 0 and rng.random() < 0.2 else []))
        return ('tuple', [gen_value(rng, depth + 1, conts) for _ in range(n)])
    if conts and depth < 3:
        return gen_cont(rng, depth + 1)
    return gen_int(rng)


def gen_cdata(rng, depth):
    return {'nargs': rng.choice([None, 0, 1, 8191, rng.randrange(8192)]),
            'stack': rng.choice([None, [], [1, None], [gen_int(rng)]]),
            'save': rng.choice([None, None, {0: 5}, {3: None, 15: 2 ** 70}]),
            'cp': rng.choice([None, 0, -1, 32767, -32768])}


def gen_cont(rng, depth=0, kind=None):
    kind = kind or rng.choice(CONT_KINDS if depth < 4 else ['vmc_quit', 'vmc_quit_exc'])
    sub = lambda: gen_cont(rng, depth + 1, None if depth < 2 else rng.choice(['vmc_quit', 'vmc_quit_exc']))
    f = {}
    if kind == 'vmc_std':
        f = {'cdata': gen_cdata(rng, depth), 'code': rc.RC(gen.some_bits(rng, 100), [rc.RC('1')] * rng.randint(0, 2))}
    elif kind == 'vmc_envelope':
        f = {'cdata': gen_cdata(rng, depth), 'next': sub()}
    elif kind == 'vmc_quit':
        f = {'exit_code': rng.choice([0, 1, -1, 2 ** 31 - 1, -2 ** 31])}
    elif kind == 'vmc_repeat':
        f = {'count': rng.choice([0, 1, 2 ** 63 - 1, rng.getrandbits(63)]), 'body': sub(), 'after': sub()}
    elif kind == 'vmc_until':
        f = {'body': sub(), 'after': sub()}
    elif kind == 'vmc_again':
        f = {'body': sub()}
    elif kind in ('vmc_while_cond', 'vmc_while_body'):
        f = {'cond': sub(), 'body': sub(), 'after': sub()}
    elif kind == 'vmc_pushint':
        f = {'value': rng.choice([0, -1, 2 ** 31 - 1, -2 ** 31]), 'next': sub()}
    return ('cont', kind, f)


# ------------------------------------------------------------------ reference encoder (block.tlb, VmStack part)

def enc_value(v):
    """-> (bits, [RC refs])"""
    if v is None:
        return '00000000', []
    if isinstance(v, int):
        if -2 ** 63 <= v < 2 ** 63:
            return '00000001' + M.i2(v, 64), []
        return '000000100000000' + M.i2(v, 257), []
    t = v[0]
    if t == 'cell':
        return '00000011', [v[1]]
    if t == 'slice':
        c = v[1]
        return '00000100' + M.u(0, 10) + M.u(len(c.bits), 10) + M.u(0, 3) + M.u(len(c.refs), 3), [c]
    if t == 'builder':
        return '00000101', [v[1]]
    if t == 'cont':
        b, r = enc_cont(v)
        return '00000110' + b, r
    if t == 'tuple':
        b, r = enc_tuple(v[1])
        return '00000111' + M.u(len(v[1]), 16) + b, r
    raise ValueError(v)


def value_cell(v):
    b, r = enc_value(v)
    return rc.RC(b, r)


def enc_tuple(items):
    if not items:
        return '', []
    hb, hr = enc_tupleref(items[:-1])
    return hb, hr + [value_cell(items[-1])]


def enc_tupleref(items):
    if not items:
        return '', []
    if len(items) == 1:
        return '', [value_cell(items[0])]
    b, r = enc_tuple(items)
    return '', [rc.RC(b, r)]


def enc_stack(items):
    def lst(n):
        if n == 0:
            return '', []
        rb, rr = lst(n - 1)
        vb, vr = enc_value(items[n - 1])
        return vb, [rc.RC(rb, rr)] + vr
    b, r = lst(len(items))
    return M.u(len(items), 24) + b, r


def enc_cdata(cd):
    bits, refs = '', []
    if cd['nargs'] is None:
        bits += '0'
    else:
        bits += '1' + M.u(cd['nargs'], 13)
    if cd['stack'] is None:
        bits += '0'
    else:
        b, r = enc_stack(cd['stack'])
        bits += '1' + b
        refs += r
    if not cd['save']:
        bits += '0'
    else:
        bits += '1'
        refs.append(save_cell_ref(cd['save']))
    if cd['cp'] is None:
        bits += '0'
    else:
        bits += '1' + M.i2(cd['cp'], 16)
    return bits, refs


def save_cell_ref(save):
    from lib import dictref
    return dictref.encode({k: enc_value(v) for k, v in save.items()}, 4)


def enc_cont(v):
    _, kind, f = v
    sub = lambda x: rc.RC(*enc_cont(x))
    if kind == 'vmc_std':
        cb, cr = enc_cdata(f['cdata'])
        c = f['code']
        return '00' + cb + M.u(0, 10) + M.u(len(c.bits), 10) + M.u(0, 3) + M.u(len(c.refs), 3), cr + [c]
    if kind == 'vmc_envelope':
        cb, cr = enc_cdata(f['cdata'])
        return '01' + cb, cr + [sub(f['next'])]
    if kind == 'vmc_quit':
        return '1000' + M.i2(f['exit_code'], 32), []
    if kind == 'vmc_quit_exc':
        return '1001', []
    if kind == 'vmc_repeat':
        return '10100' + M.u(f['count'], 63), [sub(f['body']), sub(f['after'])]
    if kind == 'vmc_until':
        return '110000', [sub(f['body']), sub(f['after'])]
    if kind == 'vmc_again':
        return '110001', [sub(f['body'])]
    if kind in ('vmc_while_cond', 'vmc_while_body'):
        return ('110010' if kind == 'vmc_while_cond' else '110011'), [sub(f['cond']), sub(f['body']), sub(f['after'])]
    if kind == 'vmc_pushint':
        return '1111' + M.i2(f['value'], 32), [sub(f['next'])]
    raise ValueError(kind)


# ------------------------------------------------------------------ logical -> library objects, library -> comparison

def to_lib_value(v, B, vm):
    if v is None or isinstance(v, int):
        return v
    t = v[0]
    if t == 'cell':
        return bridge.to_lib(v[1])
    if t == 'slice':
        return bridge.to_lib(v[1]).begin_parse()
    if t == 'builder':
        return bridge.to_lib(v[1]).to_builder()
    if t == 'tuple':
        return vm.VmTuple([to_lib_value(x, B, vm) for x in v[1]])
    if t == 'cont':
        return to_lib_cont(v, B, vm)


def to_lib_cdata(cd, B, vm):
    from pytoniq_core.boc import HashMap
    save = None
    if cd['save']:
        hm = HashMap(4)
        for k, x in cd['save'].items():
            hm.set_int_key(k, vm.VmStackValue.serialize(x))
        save = hm.serialize()
    stack = None if cd['stack'] is None else B.Builder().store_cell(vm.VmStack.serialize(list(cd['stack']))).end_cell()
    return vm.VmControlData('vm_ctl_data', nargs=cd['nargs'], stack=stack, save=save, cp=cd['cp'])


_KW_FORM = [0]


def to_lib_cont(v, B, vm):
    _, kind, f = v
    kw = {}
    for k, x in f.items():
        if k == 'cdata':
            kw[k] = to_lib_cdata(x, B, vm)
        elif k == 'code':
            kw[k] = bridge.to_lib(x).begin_parse()
        elif isinstance(x, tuple):
            kw[k] = to_lib_cont(x, B, vm)
        else:
            kw[k] = x
    # keyword arguments carry no order: schema order, reversed, rotated, and fields assigned after construction must all denote the same continuation
    _KW_FORM[0] += 1
    form = _KW_FORM[0] % 4
    items = list(kw.items())
    if form == 1:
        items.reverse()
    elif form == 2:
        items = items[1:] + items[:1]
    elif form == 3 and len(items) > 1:
        c = vm.VmCont(kind, **{k: None for k, _ in reversed(items)})
        for k, x in items:
            setattr(c, k, x)
        return c
    return vm.VmCont(kind, **dict(items))


def same(v, got, B, vm, path='$'):
    """None if the parsed library value equals the logical value, else a description"""
    if v is None:
        return None if got is None else f'{path}: expected null, got {type(got).__name__}'
    if isinstance(v, int):
        return None if type(got) is int and got == v else f'{path}: expected int {v}, got {mon.srepr(got, 60)}'
    t = v[0]
    if t == 'cell':
        return None if isinstance(got, B.Cell) and got.hash == v[1].hash else f'{path}: cell differs'
    if t == 'slice':
        ok = isinstance(got, B.Slice) and got.bits.to01() == v[1].bits and [x.hash for x in got.refs[got.ref_offset:]] == [x.hash for x in v[1].refs]
        return None if ok else f'{path}: slice differs'
    if t == 'builder':
        ok = isinstance(got, B.Builder) and got.bits.to01() == v[1].bits and [x.hash for x in got.refs] == [x.hash for x in v[1].refs]
        return None if ok else f'{path}: builder differs'
    if t == 'tuple':
        if not isinstance(got, vm.VmTuple) or len(got.list) != len(v[1]):
            return f'{path}: tuple of {len(v[1])} came back as {mon.srepr(got, 60)}'
        for i, (a, b) in enumerate(zip(v[1], got.list)):
            d = same(a, b, B, vm, f'{path}[{i}]')
            if d:
                return d
        return None
    if t == 'cont':
        _, kind, f = v
        if not isinstance(got, vm.VmCont) or got.type_ != kind:
            return f'{path}: continuation {kind} came back as {mon.srepr(got, 80)}'
        for k, x in f.items():
            g = getattr(got, k, None)
            if k == 'cdata':
                if g is None:
                    return f'{path}.cdata missing'
                for fld in ('nargs', 'cp'):
                    if getattr(g, fld, None) != x[fld]:
                        return f'{path}.cdata.{fld}: expected {x[fld]}, got {getattr(g, fld, None)}'
                gs = getattr(g, 'stack', None)
                if (x['stack'] is None) != (gs is None):
                    return f'{path}.cdata.stack presence differs'
                if x['stack'] is not None:
                    d = same(('tuple', x['stack']), vm.VmTuple(gs), B, vm, path + '.cdata.stack')
                    if d:
                        return d
                gsave = getattr(g, 'save', None)
                if bool(x['save']) != bool(gsave):
                    return f'{path}.cdata.save presence differs'
                if x['save']:
                    if sorted(gsave) != sorted(x['save']):
                        return f'{path}.cdata.save keys differ'
                    for key, val in x['save'].items():
                        d = same(val, vm.VmStackValue.deserialize(gsave[key].copy()), B, vm, f'{path}.cdata.save[{key}]')
                        if d:
                            return d
            elif k == 'code':
                d = same(('slice', x), g, B, vm, path + '.code')
                if d:
                    return d
            elif isinstance(x, tuple):
                d = same(x, g, B, vm, f'{path}.{k}')
                if d:
                    return d
            elif g != x:
                return f'{path}.{k}: expected {x}, got {g}'
        return None


def kinds_in(v, out):
    if v is None:
        out.add('null')
    elif isinstance(v, int):
        out.add('tinyint' if -2 ** 63 <= v < 2 ** 63 else 'int257')
    else:
        out.add(v[0] if v[0] != 'cont' else 'cont:' + v[1])
        if v[0] == 'tuple':
            out.add(f'tuple-len-{min(len(v[1]), 5)}')
            for x in v[1]:
                kinds_in(x, out)
        if v[0] == 'cont':
            for x in v[2].values():
                if isinstance(x, tuple):
                    kinds_in(x, out)
    return out


def snapshot(x, vm, B):
    """deep fingerprint of caller-held library values"""
    if isinstance(x, list):
        return ('list', [snapshot(i, vm, B) for i in x])
    if isinstance(x, vm.VmTuple):
        return ('tuple', id(x), [snapshot(i, vm, B) for i in x.list])
    if isinstance(x, B.Cell):
        return ('cell', x.hash)
    if isinstance(x, (B.Slice,)):
        return ('slice', x.bits.to01(), x.ref_offset, len(x.refs))
    if isinstance(x, B.Builder):
        return ('builder', x.bits.to01(), len(x.refs))
    if isinstance(x, vm.VmCont):
        return ('cont', x.type_, sorted((k, snapshot(v, vm, B)) for k, v in x.__dict__.items() if k != 'type_'))
    if isinstance(x, vm.VmControlData):
        return ('cdata', sorted((k, snapshot(v, vm, B)) for k, v in x.__dict__.items()))
    return x


def one_stack(R, B, vm, items, W):
    kinds = set()
    for v in items:
        kinds_in(v, kinds)
    for k in kinds:
        R.cover('kinds', k)
    mech = 'cont' if any(k.startswith('cont') for k in kinds) else ('tuple' if 'tuple' in kinds else 'plain')
    st, libvals = mon.call(lambda: [to_lib_value(v, B, vm) for v in items])
    if st == 'exc':
        R.violation(f'value-construction-raises-{mech}', f'constructing library values raised {libvals!r}', W)
        return
    before = snapshot(libvals, vm, B)
    st, c1 = mon.call(vm.VmStack.serialize, libvals)
    if st == 'exc':
        R.exc(c1)
        R.violation(f'serialize-raises-{mech}-{type(c1).__name__}', f'VmStack.serialize raised {c1!r}', W)
        return
    R.check(snapshot(libvals, vm, B) == before, f'serialize-consumes-caller-values-{mech}', 'VmStack.serialize changed the caller-held list / tuples', W)
    st, c2 = mon.call(vm.VmStack.serialize, libvals)
    R.count('double_serialisations')
    if st == 'exc':
        R.violation(f'second-serialize-raises-{mech}', f'second VmStack.serialize of the same values raised {c2!r}', W)
    else:
        R.check(c1.hash == c2.hash, f'serialize-twice-differs-{mech}', 'serialising the same values twice gives different cells', W)
    # schema conformance: the independent encoder gives the same cell, except where the schema leaves a freedom (-2^63)
    eb, er = enc_stack(items)
    want = rc.RC(eb, er)
    if not has_min64(items):
        R.check(c1.hash == want.hash, f'encoding-differs-{mech}', 'cell differs from the VmStack schema encoding (block.tlb)', W)
    # round trip through the library parser: of its own cell and of the reference cell (now and then after damaged versions of the cell were given to the parser)
    if R.rng.random() < 0.15 and want.type == rc.ORD:
        bridge.damaged_before_valid(R, R.rng, want, lambda c: vm.VmStack.deserialize(c.begin_parse()))
    for src_name, cell in (('own', c1), ('reference', bridge.to_lib(want))):
        st, got = mon.call(vm.VmStack.deserialize, cell.begin_parse())
        R.count(f'parsed:{src_name}')
        if st == 'exc':
            R.exc(got)
            R.violation(f'deserialize-raises-{mech}-{src_name}', f'VmStack.deserialize of the {src_name} cell raised {got!r}', W)
            continue
        if not R.check(isinstance(got, list) and len(got) == len(items), f'roundtrip-depth-{mech}', f'stack depth {len(items)} came back as {mon.srepr(got, 80)}', W):
            continue
        differs = False
        for i, (a, b) in enumerate(zip(items, got)):
            d = same(a, b, B, vm, f'$[{i}]')
            if d:
                km = 'cont' if 'cont' in d or 'cdata' in d else mech
                field = d.split(':')[0].split('.')[-1].split('[')[0] if 'cdata' in d else ''
                R.violation(f'roundtrip-value-{km}{"-" + field if field else ""}', f'{src_name} cell: {d}', W)
                differs = True
                break
            R.counters['oracle_evaluations'] += 1
        # what the parser returned is a stack like any other: serialising it gives the cell the library makes of the original values (twice the same)
        if not differs:
            st, again = mon.call(vm.VmStack.serialize, got)
            R.count('reserialised_parsed_stacks')
            if st == 'exc':
                R.exc(again)
                R.violation(f'reserialise-parsed-raises-{mech}-{type(again).__name__}', f'VmStack.serialize of the values VmStack.deserialize returned ({src_name} cell) raised {again!r}', W)
            else:
                st2, again2 = mon.call(vm.VmStack.serialize, got)
                R.check(again.hash == c1.hash and st2 == 'ok' and again2.hash == c1.hash, f'reserialise-parsed-differs-{mech}',
                        f'serialising the values parsed from the {src_name} cell gives another cell than serialising the original values', W)
    parsed_values_are_callers(R, B, vm, items, c1, mech, W)
    # the list codec below VmStack is public too: same cell as the body of the stack cell, the caller's list left as it was, twice the same
    if len(items) <= 60 and mech != 'cont' and hasattr(vm, 'VmStackList'):
        lst = [to_lib_value(v, B, vm) for v in items]
        n0 = len(lst)
        st, l1 = mon.call(vm.VmStackList.serialize, lst)
        st2, l2 = mon.call(vm.VmStackList.serialize, lst)
        R.count('stack_list_serialisations')
        ok = st == 'ok' and st2 == 'ok' and l1.hash == l2.hash and len(lst) == n0 and B.Builder().store_uint(n0, 24).store_cell(l1).end_cell().hash == c1.hash
        R.check(ok, 'stack-list-serialize-consumes-or-differs', f'VmStackList.serialize called twice on one list: list length {n0} -> {len(lst)}, cells equal: {st == "ok" and st2 == "ok" and l1.hash == l2.hash}', W)


def use_parsed(v, B, vm, depth=0):
    """what a caller does with values the parser handed out: grow a tuple, store into a builder, read from a slice (all in place)"""
    n = 0
    if isinstance(v, vm.VmTuple):
        for x in list(v.list)[:4]:
            if depth < 3:
                n += use_parsed(x, B, vm, depth + 1)
        v.append(424242)
        n += 1
    elif isinstance(v, B.Builder):
        if v.available_bits >= 9:
            v.store_uint(0x155, 9)
            n += 1
        if v.available_refs:
            v.store_ref(B.Builder().store_uint(7, 3).end_cell())
            n += 1
    elif isinstance(v, B.Slice):
        if v.remaining_bits:
            v.load_bit()
            n += 1
        if v.remaining_refs:
            v.load_ref()
            n += 1
    elif isinstance(v, list):
        for x in v[:4]:
            n += use_parsed(x, B, vm, depth + 1)
        v.append(None)
        n += 1
    return n


def parsed_values_are_callers(R, B, vm, items, cell, mech, W):
    """parse, use the parsed values in place, parse the same cell again (and an unrelated stack with an empty tuple): same values as the first
    time, and the cell itself still serialises to the same bytes"""
    st, boc0 = mon.call(cell.to_boc)
    st, first = mon.call(vm.VmStack.deserialize, cell.begin_parse())
    if st == 'exc':
        return
    st, n = mon.call(use_parsed, first, B, vm)
    if st == 'exc':
        R.count('use_parsed_raised')
        n = 0
    R.count('parsed_values_used_in_place', n)
    st, again = mon.call(vm.VmStack.deserialize, cell.begin_parse())
    R.counters['oracle_evaluations'] += 1
    if st == 'exc':
        R.violation(f'reparse-raises-after-using-parsed-values-{mech}', f'the same cell no longer parses after the first parse result was used in place: {again!r}', W)
        return
    d = None if isinstance(again, list) and len(again) == len(items) else f'depth {len(items)} came back as {mon.srepr(again, 60)}'
    if d is None:
        for i, (a, b) in enumerate(zip(items, again)):
            d = same(a, b, B, vm, f'$[{i}]')
            if d:
                break
    R.check(d is None, f'reparse-differs-after-using-parsed-values-{mech}', f'second parse of the same cell differs after the first parse result was used in place: {d}', W)
    st, boc1 = mon.call(cell.to_boc)
    R.check(boc1 == boc0, f'cell-changed-by-using-parsed-values-{mech}', 'the serialised stack cell changed after values parsed from it were used in place', W)
    # an unrelated stack: empty tuple, empty builder, null
    probe_items = [('tuple', []), None, ('tuple', [('tuple', [])])]
    st, pc = mon.call(lambda: vm.VmStack.deserialize(bridge.to_lib(rc.RC(*enc_stack(probe_items))).begin_parse()))
    if st == 'ok':
        d = None if len(pc) == 3 else 'depth'
        for i, (a, b) in enumerate(zip(probe_items, pc)):
            d = d or same(a, b, B, vm, f'$[{i}]')
        R.check(d is None, 'unrelated-stack-polluted-by-earlier-parse', f'a stack of empty tuples parses to {mon.srepr(pc, 80)} after parsed values of another stack were used: {d}', W)
        mon.call(use_parsed, pc, B, vm)


def mutation_history(R, B, vm, rng):
    """the caller keeps using its values between serialisations: append to / replace inside nested tuples, grow the stack list; every
    serialisation must encode the values as they are at that moment (nothing remembered from an earlier serialise)"""
    def rnd_tuple(d):
        return ('tuple', [rng.randrange(100) if d >= 2 or rng.random() < 0.6 else rnd_tuple(d + 1) for _ in range(rng.randint(1, 4))])
    items = [rnd_tuple(0), rng.randrange(1000), rnd_tuple(0)]
    libvals = [to_lib_value(v, B, vm) for v in items]
    steps = []
    for step in range(rng.randint(2, 6)):
        st, c = mon.call(vm.VmStack.serialize, libvals)
        W = {'stack': describe(items), 'steps': list(steps)}
        R.count('history_serialisations')
        R.counters['oracle_evaluations'] += 1
        if st == 'exc':
            R.violation('history-serialize-raises', f'VmStack.serialize raised {c!r} after {steps}', W)
            return
        want = rc.RC(*enc_stack(items))
        if c.hash != want.hash:
            R.violation(f'history-stale-after-{steps[-1] if steps else "start"}', f'after {steps} the serialised stack is not the encoding of the current values', W)
            return
        st, got = mon.call(vm.VmStack.deserialize, c.begin_parse())
        if st == 'exc' or len(got) != len(items) or any(same(a, b, B, vm) for a, b in zip(items, got)):
            R.violation(f'history-roundtrip-after-{steps[-1] if steps else "start"}', f'after {steps} the parsed stack differs from the current values', W)
            return
        # pick a tuple somewhere inside (reference side and library side in parallel) and change it
        ti = rng.choice([i for i, v in enumerate(items) if isinstance(v, tuple) and v[0] == 'tuple'])
        ref_t, lib_t = items[ti], libvals[ti]
        while True:
            inner = [j for j, v in enumerate(ref_t[1]) if isinstance(v, tuple) and v[0] == 'tuple']
            if not inner or rng.random() < 0.4:
                break
            j = rng.choice(inner)
            ref_t, lib_t = ref_t[1][j], lib_t.list[j]
        op = rng.choice(['append', 'replace-same-length', 'pop', 'append-to-stack-list'])
        if op == 'append' and len(ref_t[1]) < 200:
            v = rng.randrange(10 ** 6)
            ref_t[1].append(v)
            lib_t.append(v)
        elif op == 'replace-same-length' and ref_t[1]:
            j = rng.randrange(len(ref_t[1]))
            v = rng.randrange(10 ** 6, 10 ** 7)
            ref_t[1][j] = v
            lib_t.list[j] = v
        elif op == 'pop' and len(ref_t[1]) > 1:
            ref_t[1].pop()
            lib_t.pop()
        else:
            op = 'append-to-stack-list'
            v = rng.randrange(50)
            items.append(v)
            libvals.append(v)
        steps.append(op)
        R.cover('history_ops', op)


def has_min64(items):
    for v in items:
        if isinstance(v, int) and v == -2 ** 63:
            return True
        if isinstance(v, tuple) and v[0] == 'tuple' and has_min64(v[1]):
            return True
    return False


def describe(items, d=0):
    out = []
    for v in items[:8]:
        if v is None or isinstance(v, int):
            out.append(str(v))
        elif v[0] == 'tuple':
            out.append(['tuple', describe(v[1], d + 1)] if d < 3 else 'tuple...')
        elif v[0] == 'cont':
            out.append('cont:' + v[1])
        else:
            out.append(f'{v[0]}:{len(v[1].bits)}b/{len(v[1].refs)}r')
    return out


def failed_then_repaired(R, B, vm, rng):
    """a serialisation that fails inside nested tuples (an integer outside the 257-bit range, an over-long byte string) must leave no trace: the caller repairs
    the offending entry and serialises the SAME objects again - the cell is the schema encoding of the repaired stack, equal to that of a fresh equal stack"""
    bad = rng.choice([1 << 256, -(1 << 256) - 1, 1 << 300, b'x' * 33])
    good = rng.choice([0, -1, 2 ** 63, -2 ** 256, 2 ** 256 - 1])
    depth = rng.choice([1, 2, 3])
    pos = rng.choice(['first', 'middle', 'last'])
    inner_items = {'first': [bad, 3, 4], 'middle': [1, bad, 3], 'last': [1, 2, bad]}[pos]
    holder = vm.VmTuple(list(inner_items))
    top = holder
    ref_inner = None
    for d in range(depth - 1):
        top = vm.VmTuple([10 + d, top, vm.VmTuple([d])] if d % 2 == 0 else [top, 20 + d])
    stack = [5, top, None] if rng.random() < 0.5 else [top]
    W = {'bad_entry': repr(bad)[:40], 'nesting': depth, 'position': pos, 'stack_len': len(stack)}
    st, out = mon.call(vm.VmStack.serialize, stack)
    R.cover('failed_serialisation_outcomes', f'{type(bad).__name__}:{st}:{type(out).__name__ if st == "exc" else "cell"}')
    R.count('failed_then_repaired_cases')
    # repair in place and serialise the same objects again
    idx = inner_items.index(bad)
    R.check(len(holder.list) == 3 and len(stack) in (1, 3), 'failed-serialize-consumes-caller-values', f'a failed VmStack.serialize changed the caller-held tuple / list: {mon.srepr(holder.list, 60)}', W)
    if len(holder.list) != 3:
        return
    holder.list[idx] = good

    def logical(x):
        if isinstance(x, vm.VmTuple):
            return ('tuple', [logical(i) for i in x.list])
        return x
    items = [logical(x) for x in stack]
    want = rc.RC(*enc_stack(items))
    st, c1 = mon.call(vm.VmStack.serialize, stack)
    R.counters['oracle_evaluations'] += 1
    if st == 'exc':
        R.exc(c1)
        R.violation('serialize-after-failed-serialize-raises', f'serialising the repaired values after a failed serialisation raised {c1!r}', W)
        return
    if good != -2 ** 63:
        R.check(c1.hash == want.hash, 'serialize-after-failed-serialize-differs', 'the repaired values serialise to a cell other than the schema encoding after an earlier failed serialisation', W)
    fresh = [to_lib_value(v, B, vm) for v in items]
    st, c2 = mon.call(vm.VmStack.serialize, fresh)
    R.check(st == 'ok' and c2.hash == c1.hash, 'serialize-after-failed-serialize-differs', 'fresh equal values serialise differently from the repaired ones', W)
    st, got = mon.call(vm.VmStack.deserialize, c1.begin_parse())
    ok = st == 'ok' and isinstance(got, list) and len(got) == len(items) and all(same(a, b, B, vm, '$') is None for a, b in zip(items, got))
    R.check(ok, 'roundtrip-after-failed-serialize', f'the repaired stack does not round-trip: {mon.srepr(got, 80)}', W)


def deep_values(R, B, vm):
    """values whose encoding nests hundreds of cells - tuples of 256..1000 entries (the length field has 16 bits; one more cell level per entry), tuples nested
    100..1000 deep, stacks of 500..1022 entries - serialised and parsed by the library under Python's default recursion limit; the reference encoder runs
    under a raised limit; construction and comparison are iterative"""
    import sys

    def long_tuple(n):
        return [n, ('tuple', [i - 3 for i in range(n)]), None], lambda: [n, vm.VmTuple([i - 3 for i in range(n)]), None]

    def long_inside_short(n):
        return [('tuple', [7, ('tuple', list(range(n))), 8])], lambda: [vm.VmTuple([7, vm.VmTuple(list(range(n))), 8])]

    def nested(n):
        ref, lib = ('tuple', [5]), vm.VmTuple([5])
        for i in range(n):
            ref, lib = ('tuple', [i, ref] if i % 2 else [ref]), vm.VmTuple([i, lib] if i % 2 else [lib])
        return [ref, 1], lambda: [lib, 1]

    def deep_stack(n):
        return [None if i % 7 == 3 else i - 5 for i in range(n)], lambda: [None if i % 7 == 3 else i - 5 for i in range(n)]

    def flat(x):
        """iterative structure of library values: nested lists of ints / None"""
        out = []
        work = [(out, x)]
        while work:
            dst, v = work.pop()
            for item in (v.list if isinstance(v, vm.VmTuple) else v):
                if isinstance(item, vm.VmTuple):
                    sub = []
                    dst.append(sub)
                    work.append((sub, item))
                else:
                    dst.append(item)
        return out

    def flat_ref(items):
        out = []
        work = [(out, items)]
        while work:
            dst, v = work.pop()
            for item in v:
                if isinstance(item, tuple):
                    sub = []
                    dst.append(sub)
                    work.append((sub, item[1]))
                else:
                    dst.append(item)
        return out

    def eq(a, b):
        """iterative comparison of nested lists"""
        work = [(a, b)]
        while work:
            x, y = work.pop()
            if isinstance(x, list) != isinstance(y, list):
                return False
            if isinstance(x, list):
                if len(x) != len(y):
                    return False
                work.extend(zip(x, y))
            elif x != y or type(x) is not type(y):
                return False
        return True

    # the recorded finding covers the sizes from FAILS up; a RecursionError below that is a different violation
    FAILS = {'long-tuple': 600, 'nested-tuples': 600, 'deep-stack': 1010}
    cases = [('long-tuple', long_tuple, n) for n in (256, 257, 300, 400, 450, 600, 1000)]
    cases += [('long-tuple', long_inside_short, n) for n in (256, 260, 440, 700)]
    cases += [('nested-tuples', nested, n) for n in (100, 200, 300, 600, 1000)]
    cases += [('deep-stack', deep_stack, n) for n in (256, 500, 900, 1010, 1021)]
    for mech, make, n in cases:
        W = {'shape': make.__name__, 'n': n, 'recursion_limit': 1000}
        old = sys.getrecursionlimit()
        sys.setrecursionlimit(30000)
        try:
            items, mk = make(n)
            want = rc.RC(*enc_stack(items))
            want_lib = bridge.to_lib(want, 'builder')
            expect = flat_ref(items)
        finally:
            sys.setrecursionlimit(1000)
        try:
            libvals = mk()
            before = flat(libvals)
            st, c1 = mon.call(vm.VmStack.serialize, libvals)
            R.count('deep_value_cases')
            R.cover('deep_value_shapes', f'{make.__name__}-{n}')
            R.counters['oracle_evaluations'] += 1
            if st == 'exc':
                R.exc(c1)
                R.violation(f'recursion-limit-{mech}-serialize' if isinstance(c1, RecursionError) and n >= FAILS[mech] else f'deep-value-{n}-serialize-raises-{mech}-{type(c1).__name__}',
                            f'VmStack.serialize raised {type(c1).__name__} on {make.__name__}({n})', W)
            else:
                R.check(eq(flat(libvals), before), f'serialize-consumes-caller-values-{mech}', f'VmStack.serialize changed the caller-held values ({make.__name__}({n}))', W)
                R.check(c1.hash == want.hash, f'encoding-differs-{mech}', f'{make.__name__}({n}): cell differs from the VmStack schema encoding (block.tlb)', W)
                st, c2 = mon.call(vm.VmStack.serialize, libvals)
                R.check(st == 'ok' and c2.hash == c1.hash, f'serialize-twice-differs-{mech}', f'{make.__name__}({n}): serialising twice gives different cells', W)
            for src_name, cell in (('own', c1 if st == 'ok' else None), ('reference', want_lib)):
                if cell is None:
                    continue
                st2, got = mon.call(vm.VmStack.deserialize, cell.begin_parse())
                R.counters['oracle_evaluations'] += 1
                if st2 == 'exc':
                    R.exc(got)
                    R.violation(f'recursion-limit-{mech}-parse' if isinstance(got, RecursionError) and n >= FAILS[mech] else f'deep-value-{n}-deserialize-raises-{mech}-{type(got).__name__}',
                                f'VmStack.deserialize of the {src_name} cell raised {type(got).__name__} on {make.__name__}({n})', W)
                    continue
                ok = isinstance(got, list) and eq(flat(got), expect)
                R.check(ok, f'roundtrip-value-{mech}', f'{src_name} cell: {make.__name__}({n}) came back with another structure '
                        f'(top-level lengths {[len(v) if isinstance(v, vm.VmTuple) else None for v in got][:5] if isinstance(got, list) else got!r})', W)
        finally:
            sys.setrecursionlimit(old)
        R.case(mon.fp('deep', make.__name__, n))


def run(R):
    B = bridge.lib()
    import importlib
    vm = importlib.import_module('pytoniq_core.tlb.vm_stack')
    rng = R.rng
    quick = R.tier == 'quick'
    R.rule = ('stacks of depth 0..255 over null, integers around +-2^63/2^64/2^256 and the 257-bit ends, cells, slices (whole and partly '
              'consumed), builders, tuples (length 0,1,2,3,4,..255, nesting <= 6), continuations of all ten kinds with control data (nargs/'
              'stack/save/cp absent, zero, non-zero); library cell compared with an independent block.tlb encoder; parsed back from its own '
              'and from the reference cell; caller values fingerprinted before/after; serialised twice; distinct = distinct logical stack; '
              'non-trivial = stack with at least one value')
    R.assumptions = ['-2^63 may use either integer form (schema freedom): excluded from the bit-exact comparison, kept in the round trip',
                     'random stacks: depth and tuple length <= 255; deep_values: tuples of 256..1000 entries, nesting 100..1000, stacks of 256..1021 entries under the '
                     'default recursion limit (RecursionError there is the recorded known finding)']
    fixed = [[], [None], [0], [2 ** 63 - 1], [2 ** 63], [-2 ** 63], [-2 ** 63 - 1], [2 ** 256 - 1], [-2 ** 256],
             [('tuple', [])], [('tuple', [1])], [('tuple', [1, 2])], [('tuple', [1, 2, 3])], [('tuple', [1, 2, 3, 4])],
             [('tuple', [('tuple', [('tuple', [7])])])], [1, ('tuple', [1, 2, 3]), 2]]
    fixed += [[gen_cont(rng, 3, k)] for k in CONT_KINDS]
    fixed += [[('cont', 'vmc_std', {'cdata': {'nargs': na, 'stack': stk, 'save': sv, 'cp': cp}, 'code': rc.RC('1010')})]
              for na in (None, 0, 5) for stk in (None, [], [1]) for sv in (None, {1: 7}) for cp in (None, 0, -1)]
    if R.shard == 0:
        for items in fixed:
            one_stack(R, B, vm, items, {'stack': describe(items)})
            R.case(mon.fp(repr(describe(items))) if items else None)
        for depth in (2, 10, 100, 255):
            items = [gen_int(rng) if i % 3 else None for i in range(depth)]
            one_stack(R, B, vm, items, {'stack': f'depth-{depth}'})
            R.cover('depths', depth)
            R.case(mon.fp('d', depth))
        # partly consumed slices: bit and ref offsets
        for nb, nr, skipb, skipr in ((40, 3, 7, 1), (1023, 4, 1000, 4), (8, 0, 8, 0), (100, 2, 0, 2)):
            c = bridge.to_lib(rc.RC(gen.rand_bits(rng, nb), [rc.RC(rc.u(i, 3)) for i in range(nr)]))
            s = c.begin_parse()
            s.skip_bits(skipb)
            for _ in range(skipr):
                s.load_ref()
            rem_bits, rem_refs = s.bits.to01(), [x.hash for x in s.refs[s.ref_offset:]]
            cell = vm.VmStack.serialize([s])
            R.check(s.bits.to01() == rem_bits and s.remaining_refs == len(rem_refs), 'serialize-consumes-caller-values-slice', 'serialising a partly consumed slice changed it')
            st, got = mon.call(vm.VmStack.deserialize, cell.begin_parse())
            ok = st == 'ok' and len(got) == 1 and isinstance(got[0], B.Slice) and got[0].bits.to01() == rem_bits and \
                [x.hash for x in got[0].refs[got[0].ref_offset:]] == rem_refs
            R.check(ok, 'roundtrip-partly-consumed-slice', f'partly consumed slice ({skipb} bits, {skipr} refs consumed) does not round-trip: {mon.srepr(got)}')
            want = rc.RC(*enc_stack([('slice', rc.RC(rem_bits, [bridge.from_lib(x) for x in s.refs[s.ref_offset:]]))]))
            R.check(cell.hash == want.hash, 'encoding-differs-partly-consumed-slice', 'partly consumed slice is not encoded as a VmCellSlice window over its remaining part')
            R.count('partly_consumed_slices')
        # foreign encoding of a slice with non-zero st_bits / st_ref (valid per schema, never produced by the library)
        for st_b, end_b, st_r, end_r in ((3, 20, 1, 2), (0, 0, 0, 0), (10, 10, 2, 2), (0, 30, 0, 3)):
            base = rc.RC(gen.rand_bits(rng, 30), [rc.RC(rc.u(i, 3)) for i in range(3)])
            cell = rc.RC(M.u(1, 24) + '00000100' + M.u(st_b, 10) + M.u(end_b, 10) + M.u(st_r, 3) + M.u(end_r, 3), [rc.RC(''), base])
            st, got = mon.call(vm.VmStack.deserialize, bridge.to_lib(cell).begin_parse())
            ok = st == 'ok' and len(got) == 1 and isinstance(got[0], B.Slice) and got[0].bits.to01() == base.bits[st_b:end_b] and \
                [x.hash for x in got[0].refs[got[0].ref_offset:]] == [x.hash for x in base.refs[st_r:end_r]]
            R.check(ok, 'foreign-slice-window', f'VmCellSlice window bits {st_b}..{end_b} refs {st_r}..{end_r} parsed wrongly: {mon.srepr(got)}')
            R.count('foreign_slice_windows')
    for i in range((300 if quick else 20000) // R.nshards + 1):
        st, e = mon.call(mutation_history, R, B, vm, rng)
        if st == 'exc':
            R.violation(f'history-raises-{type(e).__name__}', f'using caller-held tuples between serialisations raised {e!r}', {})
        R.case(mon.fp('hist', i, R.shard))
    n = (1000 if quick else 200000) // R.nshards + 1
    for i in range(n):
        depth = rng.choice([1, 1, 2, 3, 5, 12])
        items = [gen_value(rng, conts=rng.random() < 0.6) for _ in range(depth)]
        W = {'stack': describe(items)}
        one_stack(R, B, vm, items, W)
        R.case(mon.fp(repr(W)), sample=W if i < 2 else None)
    # integers around every power of two of the 257-bit range (the 64-bit / 257-bit form choice sits at 2^63; the range ends at -2^256 and 2^256 - 1)
    if R.shard == 0:
        vals = sorted({s_ * ((1 << k) + d) for k in range(0, 257) for d in (-1, 0, 1) for s_ in (1, -1) if -(1 << 256) <= s_ * ((1 << k) + d) < (1 << 256)})
        for i in range(0, len(vals), 25):
            chunk = vals[i:i + 25]
            one_stack(R, B, vm, chunk, {'stack': 'integers around powers of two', 'first': str(chunk[0]), 'last': str(chunk[-1])})
            R.case(mon.fp('pow2', i))
            R.count('power_of_two_integers', len(chunk))
    # control data of continuations: every combination of nargs / stack / save / cp being absent, zero-like and non-zero, for both kinds that carry it
    if R.shard == 0:
        import itertools
        quit_ = ('cont', 'vmc_quit', {'exit_code': 0})
        for kind in ('vmc_std', 'vmc_envelope'):
            for nargs, stack, save, cp in itertools.product([None, 0, 1, 8191], [None, [], [1, None]], [None, {0: 5}, {3: None, 15: 2 ** 70}], [None, 0, -1, 32767]):
                cd = {'nargs': nargs, 'stack': stack, 'save': save, 'cp': cp}
                f = {'cdata': cd, 'code': rc.RC('1011', [rc.RC('1')])} if kind == 'vmc_std' else {'cdata': cd, 'next': quit_}
                one_stack(R, B, vm, [('cont', kind, f), 7], {'stack': f'{kind} with control data', 'cdata': {k: repr(v) for k, v in cd.items()}})
                R.count('control_data_combinations')
                R.case(mon.fp('cdata', kind, repr(cd)))
    # tuples of every length 0..40 and 250..255 (vm_tuple_nil / vm_tuple_tcons chaining, the single-entry and two-entry heads)
    if R.shard == 0:
        for n in list(range(41)) + list(range(250, 256)):
            one_stack(R, B, vm, [('tuple', [i - 3 for i in range(n)]), n], {'stack': f'tuple of length {n}'})
            R.cover('tuple_lengths', n)
            R.case(mon.fp('tuplen', n))
    if R.shard == 0:
        deep_values(R, B, vm)
        # one continuation OBJECT sitting in two or three fields of another (body is after, cond is body ...): the value is what the fields hold, identity does not matter -
        # the cell equals the one built from distinct equal objects, and every field comes back
        for kind, fields in (('vmc_until', ('body', 'after')), ('vmc_repeat', ('body', 'after')), ('vmc_while_cond', ('cond', 'body', 'after')), ('vmc_while_body', ('cond', 'body', 'after'))):
            for pattern in ((0, 0, 0), (0, 0, 1), (0, 1, 0), (1, 0, 0)):
                mk = lambda code: vm.VmCont('vmc_quit', exit_code=code)
                shared = [mk(7), mk(9)]
                kw_shared = {f: shared[pattern[i]] for i, f in enumerate(fields)}
                kw_fresh = {f: mk(7 if pattern[i] == 0 else 9) for i, f in enumerate(fields)}
                extra = {'count': 3} if kind == 'vmc_repeat' else {}
                st1, c1 = mon.call(lambda: vm.VmStack.serialize([vm.VmCont(kind, **extra, **kw_shared)]))
                st2, c2 = mon.call(lambda: vm.VmStack.serialize([vm.VmCont(kind, **extra, **kw_fresh)]))
                R.counters['oracle_evaluations'] += 1
                R.count('shared_continuation_objects')
                W = {'kind': kind, 'fields_sharing_one_object': [f for i, f in enumerate(fields) if pattern[i] == 0]}
                ok = st1 == 'ok' and st2 == 'ok' and c1.hash == c2.hash
                R.check(ok, 'shared-continuation-object-serialises-differently', f'{kind} whose fields {W["fields_sharing_one_object"]} hold one and the same continuation object serialises '
                        f'differently from the same continuation built from distinct equal objects ({c1!r})'[:300], W)
                if ok:
                    st3, back = mon.call(lambda: vm.VmStack.deserialize(c1.begin_parse()))
                    got = back[0] if st3 == 'ok' and isinstance(back, list) and back else None
                    R.check(got is not None and all(getattr(getattr(got, f, None), 'exit_code', None) == (7 if pattern[i] == 0 else 9) for i, f in enumerate(fields)),
                            'shared-continuation-object-does-not-parse-back', f'{kind} with shared child objects does not parse back to its fields', W)
    for i in range((60 if quick else 3000) // R.nshards + 1):
        st, e = mon.call(failed_then_repaired, R, B, vm, rng)
        if st == 'exc':
            raise e
        R.case(mon.fp('failed-then-repaired', i, R.shard))
    R.floor('double_serialisations', 50)
    if R.nshards == 1:
        R.floor('control_data_combinations', 288)
    R.floor('history_serialisations', 100)
    R.floor('history_ops', 4, 'set')
    R.floor('kinds', 20, 'set')


def replay(R, w, rec):
    run.__globals__['SHARDS'] = 1
    R.tier = 'quick'
    R.shard, R.nshards = 0, 1
    run(R)

"""C13 - address text forms round-trip; the friendly form's checksum is enforced."""
import base64

from lib import crcref, mon

SHARDS = 16
LEVEL = "fault_enumeration"
STD = 'ABCDEFGHIJKLMNOPQRSTUVWXYZabcdefghijklmnopqrstuvwxyz0123456789+/'
URL = 'ABCDEFGHIJKLMNOPQRSTUVWXYZabcdefghijklmnopqrstuvwxyz0123456789-_'


def friendly_ref(wc, hp, bounce, test, url):
    """independent 36-byte layout: tag, workchain (signed byte), 32-byte id, CRC-16/XMODEM big-endian"""
    tag = (0x11 if bounce else 0x51) | (0x80 if test else 0)
    raw = bytes([tag, wc & 0xFF]) + hp
    raw += crcref.crc16_xmodem(raw).to_bytes(2, 'big')
    s = base64.b64encode(raw).decode()
    return s.translate(str.maketrans('+/', '-_')) if url else s


def run(R):
    from pytoniq_core.boc.address import Address
    rng = R.rng
    quick = R.tier == 'quick'
    R.rule = ('all 256 workchains x account ids {0..0, f..f, single-bit, random} x 9 renderings (raw + bounceable x test-only x '
              'url-safe), each parsed address re-rendered in all 9 forms; for sampled addresses every one of the 48 x 63 single-character substitutions within the alphabet; '
              'distinct = distinct (wc, id, rendering) or distinct substituted string; non-trivial = all')
    R.assumptions = ['"another base64 character" = another symbol of the same 64-symbol alphabet as the string ("-"<->"+" and '
                     '"_"<->"/" denote the same digit and are not substituted for each other)']
    variants = [(b, t, u) for b in (True, False) for t in (False, True) for u in (True, False)]

    def hashes(i):
        yield bytes(32)
        yield b'\xff' * 32
        yield (1 << rng.randrange(256)).to_bytes(32, 'big')
        yield rng.randbytes(32)
        if not quick:
            yield rng.randbytes(32)
            yield bytes([i & 0xFF]) * 32

    def roundtrip(wc, hp):
        a = Address((wc, hp))
        W = {'wc': wc, 'hash_part': hp}
        raw = a.to_str(is_user_friendly=False)
        R.check(raw == f'{wc}:{hp.hex()}', 'raw-render', 'raw form is not "<wc>:<hex>"', W)
        st, b = mon.call(Address, raw)
        if st == 'exc':
            R.violation('raw-parse-raises', f'raw form rejected: {b!r}', W)
        else:
            R.check(b == a and b.wc == wc and b.hash_part == hp, 'raw-roundtrip', 'raw form parses to another address', W)
            R.check(hash(b) == hash(a), 'hash-equal-addresses', 'equal addresses hash differently', W)
            for (b2, t2, u2) in variants[:: 3]:
                st2, s2 = mon.call(b.to_str, True, u2, b2, t2)
                R.check(st2 == 'ok' and s2 == friendly_ref(wc, hp, b2, t2, u2), 'rerender-of-parsed-address',
                        f'friendly rendering of a parsed raw address differs ({s2!r})', W)
        R.case(mon.fp('raw', wc, hp))
        for (bounce, test, url) in variants:
            s = a.to_str(True, url, bounce, test)
            want = friendly_ref(wc, hp, bounce, test, url)
            R.check(s == want, f'friendly-render', f'friendly rendering differs from the 36-byte layout + CRC-16', dict(W, got=s, want=want))
            st, b = mon.call(Address, s)
            if st == 'exc':
                R.violation('friendly-parse-raises', f'friendly form rejected: {b!r}', dict(W, s=s))
                continue
            R.check(b == a and a == b and b.wc == wc and b.hash_part == hp, 'friendly-roundtrip', 'friendly form parses to another address', dict(W, s=s))
            R.check(b.is_bounceable == bounce and b.is_test_only == test, 'friendly-flags',
                    f'flags after parse: bounceable={b.is_bounceable} test_only={b.is_test_only}, rendered with {bounce}/{test}', dict(W, s=s))
            R.check(hash(b) == hash(a) and len({a, b}) == 1, 'hash-equal-addresses', 'equal addresses hash differently / do not collide in a set', W)
            # an address object that came out of the parser renders like any other: the flags it was parsed with are defaults of nothing
            for (b2, t2, u2) in variants:
                st2, s2 = mon.call(b.to_str, True, u2, b2, t2)
                R.check(st2 == 'ok' and s2 == friendly_ref(wc, hp, b2, t2, u2), 'rerender-of-parsed-address',
                        f'address parsed from a (bounceable={bounce}, test_only={test}) string and rendered with bounceable={b2}, test_only={t2} gives another variant',
                        dict(W, parsed_from=s, got=s2 if st2 == 'ok' else repr(s2), want=friendly_ref(wc, hp, b2, t2, u2)))
                R.count('rerenders_of_parsed')
            st2, s2 = mon.call(b.to_str, False)
            R.check(st2 == 'ok' and s2 == raw, 'rerender-of-parsed-address-raw', 'raw rendering of a parsed friendly address differs', dict(W, parsed_from=s))
            R.count('friendly_roundtrips')
            R.case(mon.fp('f', wc, hp, bounce, test, url))
        R.cover('workchains', wc)

    def substitutions(wc, hp, bounce, test, url):
        a = Address((wc, hp))
        s = a.to_str(True, url, bounce, test)
        alpha = URL if url else STD
        for i in range(len(s)):
            for ch in alpha:
                if ch == s[i]:
                    continue
                t = s[:i] + ch + s[i + 1:]
                st, b = mon.call(Address, t)
                R.count('substitutions')
                if st == 'ok':
                    R.violation('substitution-accepted', f'address with character {i} replaced ({s[i]}->{ch}) was accepted',
                                {'orig': s, 'mutated': t, 'parsed_wc': b.wc, 'parsed_hash': b.hash_part})
                else:
                    R.exc(b)
                    R.counters['oracle_evaluations'] += 1
                    # the verdict on a string must not depend on having seen it before: present the rejected string again
                    st2, b2 = mon.call(Address, t)
                    R.count('substitutions_presented_twice')
                    if st2 == 'ok':
                        R.violation('substitution-accepted-on-second-parse', f'corrupted address rejected at first, accepted when parsed again ({s[i]}->{ch} at {i})',
                                    {'orig': s, 'mutated': t, 'twice': True})
        # and the genuine string still parses after all the rejected neighbours
        st3, b3 = mon.call(Address, s)
        R.check(st3 == 'ok' and b3 == a, 'genuine-rejected-after-neighbours', 'the genuine address no longer parses after its corrupted neighbours were tried', {'orig': s})
        R.case(mon.fp('subst', s), sample={'substituted': s})

    def out_of_domain():
        """between the valid cases the library is given things outside the property's domain - account ids that are not 32 bytes, workchains outside a signed byte,
        strings of the wrong length - and asked to render whatever it accepted; none of it is judged, but the valid cases after it must not depend on it"""
        junk = [lambda: Address('0:' + '5a' * 33), lambda: Address('0:' + 'a5' * 31), lambda: Address('-1:' + 'ff' * 64), lambda: Address('0:'), lambda: Address((0, b'\x01' * 33)),
                lambda: Address((0, b'')), lambda: Address((200, bytes(32))), lambda: Address((-200, bytes(32))), lambda: Address('300:' + '00' * 32), lambda: Address('E' * 48), lambda: Address('E' * 52),
                lambda: Address(''), lambda: Address(None), lambda: Address((0, bytes(40)))]
        for mk in junk:
            st, a = mon.call(mk)
            R.cover('out_of_domain_outcomes', st)
            if st == 'ok':
                for args in ((), (False,), (True, False), (True, True, False, True)):
                    mon.call(a.to_str, *args)
                mon.call(repr, a)
                mon.call(hash, a)
            R.count('out_of_domain_addresses')

    wcs = [w for w in range(-128, 128) if (w + 128) % R.nshards == R.shard]
    for k, wc in enumerate(wcs):
        if k % 8 == 1:
            out_of_domain()
        for i, hp in enumerate(hashes(wc)):
            roundtrip(wc, hp)
    n_sub = (3 if quick else 120)
    for k in range(n_sub):
        v = variants[(k + R.shard) % 8]
        substitutions(rng.choice([-1, 0, rng.randrange(-128, 128)]), rng.randbytes(32) if k else bytes(32), *v)
        R.cover('subst_variants', v)
    # addresses whose checksum is special: all its set bits inside ONE text character (so that a single substitution can zero the whole checksum field), a checksum with
    # a zero byte, checksum 0xFFFF-like patterns - found by search with the reference CRC, then every substitution as above
    want_classes = {'crc-bits-in-char-45': lambda c: c and not (c & 0x0FFF), 'crc-bits-in-char-46': lambda c: c and not (c & 0xF03F), 'crc-bits-in-char-47': lambda c: c and not (c & 0xFFC0),
                    'crc-high-byte-zero': lambda c: c < 256 and c, 'crc-low-byte-zero': lambda c: c and not (c & 0xFF)}
    found = {}
    for i in range(400000):
        if len(found) == len(want_classes):
            break
        wc_, hp_ = rng.choice([0, -1]), rng.randbytes(32)
        v = variants[i % 8]
        tag = (0x11 if v[0] else 0x51) | (0x80 if v[1] else 0)
        c = crcref.crc16_xmodem(bytes([tag, wc_ & 0xFF]) + hp_)
        for name, pred in want_classes.items():
            if name not in found and pred(c):
                found[name] = (wc_, hp_, v)
    for name, (wc_, hp_, v) in found.items():
        substitutions(wc_, hp_, *v)
        R.cover('special_checksum_classes', name)
    # an address of a subclass of Address (applications subclass it) is an address: equal to, and hashing like, a plain one with the same workchain and id
    class _SubAddress(Address):
        pass
    for wc, hp in ((0, rng.randbytes(32)), (-1, rng.randbytes(32)), (-128, bytes(32))):
        plain = Address((wc, hp))
        for how, sub in (('tuple', _SubAddress((wc, hp))), ('raw text', _SubAddress(plain.to_str(False))), ('friendly text', _SubAddress(plain.to_str(True, True, False, True)))):
            W = {'wc': wc, 'hash_part': hp, 'subclass_built_from': how}
            R.check(sub == plain and plain == sub and not (sub != plain) and hash(sub) == hash(plain) and len({sub, plain}) == 1, 'equality-across-address-classes',
                    f'an Address subclass instance (built from {how}) and the plain Address with the same workchain and id do not compare equal / hash equally', W)
            R.check(Address(sub.to_str()) == sub and _SubAddress(plain.to_str()) == plain and sub.to_str(False) == plain.to_str(False), 'equality-across-address-classes',
                    'rendering one class and parsing with the other gives a different address', W)
            R.count('subclass_address_pairs')
    # inequality sanity: different wc or id are different addresses
    a = Address((0, bytes(32)))
    R.check(not (a == Address((1, bytes(32)))) and not (a == Address((0, b'\x01' + bytes(31)))), 'neq', 'different addresses compare equal')
    if R.nshards == 1:
        R.floor('workchains', 256, 'set')
    R.floor('substitutions', 48 * 63 * min(n_sub, 2))
    R.floor('rerenders_of_parsed', 1000)
    R.floor('special_checksum_classes', 5, 'set')


def replay(R, w, rec):
    from pytoniq_core.boc.address import Address
    if 'mutated' in w:
        st, b = mon.call(Address, w['mutated'])
        if w.get('twice'):
            st, b = mon.call(Address, w['mutated'])
        R.check(st == 'exc', 'substitution-accepted', 'mutated address accepted', w)
    else:
        a = Address((w['wc'], w['hash_part']))
        R.check(Address(a.to_str()) == a, 'friendly-roundtrip', 'no roundtrip', w)
    R.case(mon.fp(1)); R.case(mon.fp(2))

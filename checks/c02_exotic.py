"""C02 - exotic cells: level masks, per-level hashes and depths, constructability, Merkle pruning invariance."""
import itertools

from lib import bridge, gen, mon, refcell as rc

SHARDS = 16


def compare(R, r, c, route, W):
    R.count(f'compared:{route}')
    R.cover(f'masks_{route}', r.mask)
    R.cover('types', r.type)
    ok = R.check(c.level_mask.mask == r.mask, f'mask-type{r.type}', f'level mask {c.level_mask.mask} != spec {r.mask} via {route}', W)
    for l in range(4):
        R.check(c.get_hash(l) == r.get_hash(l), f'hash-l{l}-type{r.type}-mask{r.mask}', f'get_hash({l}) differs from spec via {route}', W)
        R.check(c.get_depth(l) == r.get_depth(l), f'depth-l{l}-type{r.type}-mask{r.mask}',
                f'get_depth({l})={c.get_depth(l)} spec {r.get_depth(l)} via {route}', W)
    R.check(c.hash == r.hash, f'hash-type{r.type}-mask{r.mask}', f'hash differs via {route}', W)
    R.check(c.type_ == r.type and c.is_exotic == (r.type != -1), 'type-lost', f'cell type {c.type_} != {r.type} via {route}', W)
    return ok


def both_routes(R, r, W):
    """construct with Builder(type_=...) bottom-up and parse from a foreign (R2) encoding; compare every cell"""
    libs = {}
    for route in ('builder', 'boc', 'boc-hashes'):
        memo = {}
        if route == 'builder':
            st, c = mon.call(bridge.to_lib, r, 'builder', memo)
        else:
            st, c = mon.call(bridge.to_lib, r, route)
        if st == 'exc':
            R.exc(c)
            bad = 'mask' + '+'.join(sorted({str(x.mask) for x in gen.all_cells(r) if x.type == rc.PRUNED}))
            R.violation(f'{route}-raises-{type(c).__name__}', f'spec-valid exotic tree cannot be obtained via {route}: {c!r} (pruned masks present: {bad})', W)
            continue
        libs[route] = c
        # every cell of the tree, pairwise with the reference (walk both in lockstep)
        stack, seen = [(r, c)], set()
        while stack:
            a, b = stack.pop()
            if a.hash in seen:
                continue
            seen.add(a.hash)
            compare(R, a, b, route, W)
            if len(a.refs) == len(b.refs):
                stack.extend(zip(a.refs, b.refs))
        derived_and_reserialised(R, r, c, route, W)
    return libs


def derived_and_reserialised(R, r, c, route, W):
    """(1) the tree as the library itself writes it decodes, under the strict independent reader, to the same exotic tree (descriptor bytes carry type and level
    mask); (2) cells obtained from slices / copies of exotic cells are exotic cells with the same per-level hashes and depths, and stay so while the slice they
    came from is read to its end"""
    B = bridge.lib()
    st, data = mon.call(c.to_boc, bool(r.hash[0] & 1), bool(r.hash[0] & 2))
    R.count('reserialised_trees')
    if st == 'exc':
        R.violation(f'to_boc-raises-{type(data).__name__}', f'serialising a spec-valid exotic tree ({route}) raised {data!r}', W)
    else:
        try:
            back = rc.decode_boc(data, strict_distinct=False)['roots'][0]
            R.check(back.hash == r.hash and rc.structural(back) == rc.structural(r), 'reserialised-tree-differs', f'the library\'s serialisation of the tree ({route}) decodes to another tree', W)
        except rc.RefError as e:
            R.violation(f'reserialised-tree-nonconforming-{str(e).split(" cell ")[0].split(":")[0].replace(" ", "-")[:40]}',
                        f'the library\'s serialisation of a spec-valid exotic tree ({route}) is rejected by the strict reader: {e}', W)
    todo, seen = [(r, c)], set()
    n = 0
    while todo and n < 12:
        a, b = todo.pop()
        if a.hash in seen:
            continue
        seen.add(a.hash)
        todo.extend(zip(a.refs, b.refs))
        if a.type == rc.ORD:
            continue
        n += 1
        for how, mk in (('begin_parse.to_cell', lambda: (lambda s: (s.to_cell(), s))(b.begin_parse())), ('copy', lambda: (b.copy(), None)),
                        ('Slice.from_cell.to_cell', lambda: (lambda s: (s.to_cell(), s))(B.Slice.from_cell(b))), ('slice.copy.to_cell', lambda: (lambda s: (s.copy().to_cell(), s))(b.begin_parse()))):
            st, res = mon.call(mk)
            if st == 'exc':
                R.violation(f'derived-exotic-raises-{how}', f'{how} on an exotic cell (type {a.type}) raised {res!r}', W)
                continue
            d, sl = res
            if sl is not None:
                # keep using the slice the cell was taken from
                mon.call(lambda: (sl.skip_bits(sl.remaining_bits), [sl.load_ref() for _ in range(sl.remaining_refs)]))
            compare(R, a, d, f'derived:{how}', W)
            R.count('derived_exotic_cells')


def prunings(R, rng, tree, W, exhaustive_limit=8):
    """M-META pruning invariance inside a Merkle proof: replace subtrees of `tree` (an ordinary level-0 tree) by pruned
    branches of level 1; the proof root's stored hash and the level-0 hash of every enclosing cell stay the same."""
    B = bridge.lib()
    cells = gen.all_cells(tree)
    cands = [c for c in cells if c.hash != tree.hash]
    if not cands:
        return
    if len(cands) <= exhaustive_limit:
        subsets = [s for k in range(1, len(cands) + 1) for s in itertools.combinations(cands, k)]
        R.count('exhaustive_pruning_trees')
    else:
        subsets = [tuple(rng.sample(cands, rng.randint(1, min(5, len(cands))))) for _ in range(12)]
    lib_full = bridge.to_lib(tree)
    for sub in subsets:
        cut = {c.hash for c in sub}

        def rebuild(c, memo={}):
            if c.hash in cut:
                return rc.make_pruned(c, 1)
            return rc.RC(c.bits, [rebuild(x) for x in c.refs], c.type)
        try:
            pruned_tree = rebuild(tree)
        except rc.RefError:
            continue
        st, lp = mon.call(bridge.to_lib, pruned_tree, 'builder')
        if st == 'exc':
            R.violation(f'pruned-tree-build-raises-{type(lp).__name__}', f'pruned variant cannot be built: {lp!r}', W)
            continue
        R.count('prunings_checked')
        R.check(lp.get_hash(0) == lib_full.get_hash(0) == tree.hash, 'pruning-changes-level0-hash',
                'replacing subtrees by pruned branches changed the level-0 hash of the root', W)
        R.check(lp.get_depth(0) == lib_full.get_depth(0), 'pruning-changes-level0-depth', 'pruning changed the level-0 depth', W)
        # every enclosing cell, in lockstep
        stack = [(tree, lp)]
        while stack:
            a, b = stack.pop()
            if b.type_ == rc.PRUNED and a.hash in cut:
                R.check(b.get_hash(0) == a.hash and b.get_depth(0) == a.depth, 'pruned-branch-level0', 'pruned branch does not answer level 0 with the subtree hash/depth', W)
                continue
            R.check(b.get_hash(0) == a.hash and b.get_depth(0) == a.depth, 'enclosing-level0', 'enclosing cell level-0 hash/depth changed by pruning below it', W)
            R.count('enclosing_compared')
            stack.extend(zip(a.refs, b.refs))
        mp = B.Builder(type_=rc.MPROOF).store_uint(rc.MPROOF, 8).store_bytes(lp.get_hash(0)).store_uint(lp.get_depth(0), 16).store_ref(lp).end_cell()
        R.check(mp.level_mask.mask == 0 and mp.bits.to01() == rc.make_merkle_proof(tree).bits, 'merkle-proof-of-pruned', 'merkle proof over pruned tree differs', W)


def nested_pruning(R, rng, W):
    """pruning at Merkle depth D uses level D+1; hashes at levels below stay those of the original (two nested Merkle cells)"""
    inner = gen.rand_dag(rng, rng.randint(3, 8), max_bits=30)
    cells = [c for c in gen.all_cells(inner) if c.hash != inner.hash]
    victim = rng.choice(cells)

    def rebuild(c, lvl):
        if c.hash == victim.hash:
            return rc.make_pruned(c, lvl)
        return rc.RC(c.bits, [rebuild(x, lvl) for x in c.refs], c.type)
    for D in (1, 2, 3):
        p = rebuild(inner, D)                 # pruned at level D: lives under D Merkle cells
        t_full, t_pr = inner, p
        for d in range(D):
            t_full = rc.RC('1' * d, (rc.make_merkle_proof(t_full),))
            t_pr = rc.RC('1' * d, (rc.make_merkle_proof(t_pr),))
        libs = both_routes(R, t_pr, W)
        R.check(t_pr.mask == 0 and t_pr.hash != t_full.hash and t_pr.refs[0].bits == t_full.refs[0].bits, 'x', 'reference self-check')
        R.count(f'nested_merkle_depth_{D}')
        for c in libs.values():
            R.check(c.level_mask.mask == 0, 'nested-root-mask', f'{D} nested Merkle cells over a level-{D} pruned branch must give level 0', W)


def run(R):
    rng = R.rng
    quick = R.tier == 'quick'
    inv = bridge.CellInvariant(R).install()
    R.rule = ('random spec-valid exotic trees (pruned branches of generated subtrees and raw ones with all 7 masks, library refs, '
              'Merkle proofs/updates nested to level 3) obtained by Builder(type_) and by parsing independent encodings (without and with stored hashes on cells of mask 0/1/3/7); every cell '
              'compared with R1 at levels 0..3; exhaustive prunings of trees <= 8 cells; distinct = distinct root hash; '
              'non-trivial = tree contains at least one exotic cell')
    R.assumptions = ['R1 exotic-cell semantics validated on the pinned main-net block (pruned branches + Merkle update) and by '
                     'pruning invariance inside the reference (lib/selftest.py)']
    # every mask, directly: raw pruned branch alone and under ordinary parents that OR masks together
    for m in range(1, 8):
        for rep in range(2 if quick else 10):
            n = rc.popcount(m)
            bits = rc.u(1, 8) + rc.u(m, 8) + ''.join(rc.bytes_to_bits(gen.rand_hash(rng)) for _ in range(n)) + \
                ''.join(rc.u(rng.randrange(1000), 16) for _ in range(n))
            p = rc.RC(bits, (), rc.PRUNED)
            other = gen.raw_pruned(rng, 3)
            parent = rc.RC(gen.some_bits(rng, 30), (p, other, rc.RC('1')))
            W = {'class': f'raw-pruned-mask-{m}', 'boc': rc.encode_boc([parent])}
            both_routes(R, parent, W)
            R.cover('parent_masks', parent.mask)
            R.case(mon.fp(parent.hash), sample=W if rep == 0 and m in (1, 6) else None)
    n_trees = (800 if quick else 60000) // R.nshards + 1
    for i in range(n_trees):
        t = gen.exotic_tree(rng, budget=rng.choice([3, 8, 20, 60]), max_level=rng.choice([0, 0, 1, 2, 3]))
        cells = gen.all_cells(t)
        W = {'class': 'exotic-tree', 'cells': len(cells), 'boc': rc.encode_boc([t]) if len(cells) < 60 else None}
        both_routes(R, t, W)
        has_exotic = any(c.type != rc.ORD for c in cells)
        if i % 10 == 0 and t.refs:
            # the top cell once more through the public constructor, its references handed over as a tuple / iterator / generator / map: a sequence of cells in
            # whatever container (the M-INV hook compares mask, hashes and depths of what comes out with the reference model)
            from pytoniq_core.boc import Cell as _Cell
            kids = [bridge.to_lib(x) for x in t.refs]
            for fname, mk in (('tuple', lambda: tuple(kids)), ('iterator', lambda: iter(kids)), ('generator', lambda: (k for k in kids)), ('map', lambda: map(lambda k: k, kids))):
                st, c = mon.call(lambda: _Cell(bridge.tvm_bits(t.bits), mk(), t.type))
                R.counters['oracle_evaluations'] += 1
                R.count('refs_container_forms')
                R.check(st == 'ok' and c.hash == t.hash and c.level_mask.mask == t.mask and len(c.refs) == len(kids), f'refs-given-as-{fname}-differ',
                        f'Cell(bits, refs, type {t.type}) with its {len(kids)} references given as a {fname}: ' + (f'raised {c!r}' if st == 'exc' else f'{len(c.refs)} references, mask {c.level_mask.mask}, hash differs: {c.hash != t.hash}'),
                        dict(W, refs_form=fname, top_type=t.type))
        R.case(mon.fp(t.hash) if has_exotic else None, sample={'cells': len(cells), 'types': sorted({c.type for c in cells}), 'mask': t.mask} if i < 3 else None)
        R.cover('merkle_nesting', max_nesting(t))
    for i in range((150 if quick else 6000) // R.nshards + 1):
        tree = gen.rand_dag(rng, rng.choice([2, 3, 4, 5, 6, 12, 30]), max_bits=40)
        W = {'class': 'pruning', 'boc': rc.encode_boc([tree])}
        prunings(R, rng, tree, W)
        nested_pruning(R, rng, W)
        R.case(mon.fp('p', tree.hash))
    # known answers: the pinned main-net block (pruned branches and a Merkle update) - parse route, all cells via M-INV
    import os
    blk = open(os.path.join(mon.VERIF_DIR, 'data', 'mainnet_block.boc'), 'rb').read()
    ref = rc.decode_boc(blk)['roots'][0]
    c = bridge.lib().Cell.one_from_boc(blk)
    compare(R, ref, c, 'boc', {'class': 'mainnet-block'})
    inv.uninstall()
    R.floor('masks_builder', 8, 'set')
    R.floor('masks_boc', 8, 'set')
    R.floor('masks_boc-hashes', 8, 'set')
    R.floor('derived_exotic_cells', 200)
    R.floor('reserialised_trees', 200)
    R.floor('prunings_checked', 20)
    R.floor('inv_cells', 500)


def max_nesting(t):
    best = 0
    stack = [(t, 0)]
    seen = set()
    while stack:
        c, d = stack.pop()
        if (c.hash, d) in seen:
            continue
        seen.add((c.hash, d))
        d2 = d + (1 if c.type in (rc.MPROOF, rc.MUPDATE) else 0)
        best = max(best, d2)
        stack.extend((x, d2) for x in c.refs)
    return best


def replay(R, w, rec):
    inv = bridge.CellInvariant(R).install()
    t = rc.decode_boc(w['boc'])['roots'][0]
    both_routes(R, t, w)
    if w.get('class') == 'pruning':
        prunings(R, R.rng, t, w)
    inv.uninstall()
    R.case(mon.fp(1)); R.case(mon.fp(2))

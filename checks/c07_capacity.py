"""C07 - cell capacity, value ranges and read bounds are enforced (sequential shadow model + M-INV)."""
from bitarray import bitarray

from lib import bridge, bsmodel as M, gen, mon, refcell as rc

SHARDS = 16


class Op:
    """one builder operation with the shadow's prediction"""

    def __init__(self, name, call, bits, nrefs=0, valid=True, may_refuse=False):
        self.name, self.call, self.bits, self.nrefs, self.valid = name, call, bits, nrefs, valid
        # may_refuse: an argument form the library need not support (an iterable without a length, say): refusing it is fine even when it would fit, accepting
        # it means storing exactly these bits; when it does not fit it must be refused like everything else
        self.may_refuse = may_refuse


def opkey(op):
    base = op.name.split('(')[0]
    if 'consumed' in op.name and ', 0 consumed' not in op.name:
        return base + '-partly-consumed-refs'
    return base


def mk_ops(rng, B, rem_bits, leafs, which=None):
    """operations sized relative to the remaining capacity: fits with room / exactly / one bit too many; and value-range breaks"""
    ops = []

    def add(name, call, bits, nrefs=0, valid=True, may_refuse=False):
        ops.append(Op(name, call, bits, nrefs, valid, may_refuse))
    for d in (-1, 0, 1):
        n = rem_bits + d
        if n < 0:
            continue
        if 1 <= n <= 256:
            v = gen.some_int(rng, n, False)
            add('store_uint', lambda b, v=v, n=n: b.store_uint(v, n), M.u(v, n))
        if 1 <= n <= 257:
            v = gen.some_int(rng, n, True)
            add('store_int', lambda b, v=v, n=n: b.store_int(v, n), M.i2(v, n))
        if n <= 1030:
            s = gen.rand_bits(rng, n)
            add('store_bits', lambda b, s=s: b.store_bits(s), s)
            ba = bitarray(s)
            add('store_bits(bitarray)', lambda b, ba=ba: b.store_bits(ba), s)
            # bits given as other iterables: with a length (list, tuple) and without one (generator, map, iterator, filter) - the capacity check cannot lean on len()
            ints = [int(c) for c in s]
            for fname, mk in (('list', lambda ints=ints: list(ints)), ('tuple', lambda ints=ints: tuple(ints)), ('generator', lambda ints=ints: (x for x in ints)),
                              ('map', lambda s=s: map(int, s)), ('iterator', lambda ints=ints: iter(ints)), ('filter', lambda ints=ints: filter(lambda x: True, ints))):
                add(f'store_bits({fname})', lambda b, mk=mk: b.store_bits(mk()), s)      # store_bits takes Iterable[int]: a fitting iterator must be stored
            # a bit string with blanks / underscores between the digits (bitarray ignores them): they are not bits and take no room
            if n >= 2:
                spaced = s[:n // 2] + rng.choice([' ', '_', '\n', ' _ ']) + s[n // 2:] + rng.choice(['', ' ', '\n'])
                add('store_bits(str with blanks)', lambda b, spaced=spaced: b.store_bits(spaced), s)
        if n % 8 == 0 and n // 8 <= 130:
            by = rng.randbytes(n // 8)
            add('store_bytes', lambda b, by=by: b.store_bytes(by), rc.bytes_to_bits(by))
            if n // 8 <= 127:
                st = ''.join(rng.choice('abcxyz') for _ in range(n // 8))
                add('store_string', lambda b, st=st: b.store_string(st), rc.bytes_to_bits(st.encode()))
        for lb in (4, 5, 3):
            nb = (n - lb) // 8
            if n >= lb and (n - lb) % 8 == 0 and 0 <= nb < (1 << lb):
                v = ((1 << (8 * nb)) - 1) if nb else 0
                add(f'store_var_uint', lambda b, v=v, lb=lb: b.store_var_uint(v, lb), M.var_uint_bits(v, lb))
                vs = -(1 << (8 * nb - 1)) if nb else 0
                add(f'store_var_int', lambda b, v=vs, lb=lb: b.store_var_int(v, lb), M.var_int_bits(vs, lb))
                if lb == 4:
                    add('store_coins', lambda b, v=v: b.store_coins(v), M.var_uint_bits(v, 4))
        if n == 1:
            add('store_bit', lambda b: b.store_bit(1), '1')
            add('store_bool', lambda b: b.store_bool(True), '1')
            add('store_bit_int', lambda b: b.store_bit_int(0), '0')
            add('store_maybe_ref(None)', lambda b: b.store_maybe_ref(None), '0')
            add('store_dict(None)', lambda b: b.store_dict(None), '0')
        if n == 2:
            add('store_address(None)', lambda b: b.store_address(None), '00')
        if n == 267:
            a = M.Addr(value=('std', rng.randint(-128, 127), rng.randbytes(32), None), how=0)
            add('store_address(std)', lambda b, a=a: a.store(b), a.bits())
        if 11 <= n <= 11 + 511:
            a = M.Addr(value=('ext', rng.getrandbits(n - 11) if n > 11 else 0, n - 11), how=0)
            add('store_address(ext)', lambda b, a=a: a.store(b), a.bits())
        if 268 + 5 <= n <= 267 + 5 + 30:
            dpt = n - 272
            a = M.Addr(value=('std', 0, rng.randbytes(32), (dpt, rng.getrandbits(dpt))), how=0)
            add('store_address(anycast)', lambda b, a=a: a.store(b), a.bits())
        if n <= 1023:
            cb = gen.rand_bits(rng, n)
            cell = bridge.to_lib(rc.RC(cb))
            add('store_cell', lambda b, cell=cell: b.store_cell(cell), cb)
            extra = rng.randint(0, 1023 - n)
            sl = bridge.to_lib(rc.RC(gen.rand_bits(rng, extra) + cb)).begin_parse()
            sl.skip_bits(extra)
            add('store_slice(partly consumed)', lambda b, sl=sl: b.store_slice(sl), cb)
    # byte-granular and fixed-size stores that do not fit by MORE than one bit, at whatever (unaligned) fill level the builder has:
    # the smallest number of whole bytes that is too many, a 267-bit address into less room, a 9-bit-header external address
    nb = rem_bits // 8 + 1
    if nb <= 130:
        by = rng.randbytes(nb)
        # (these carry their real encoding: whether they fit is decided against the builder's actual fill level, here and in the random histories)
        add('store_bytes(whole bytes, too many)', lambda b, by=by: b.store_bytes(by), rc.bytes_to_bits(by))
        add('store_bytes(bytearray, too many)', lambda b, by=by: b.store_bytes(bytearray(by)), rc.bytes_to_bits(by))
        if nb <= 127:
            st_ = 'z' * nb
            add('store_string(whole bytes, too many)', lambda b, st_=st_: b.store_string(st_), rc.bytes_to_bits(st_.encode()))
    # bytes-like objects whose items are wider than a byte (array('H'/'I'/'Q'), a cast memoryview): their len() counts items, their content is bytes
    import array
    for code, width in (('H', 2), ('I', 4), ('Q', 8)):
        k_fit = rem_bits // (8 * width)
        k_over = k_fit + 1
        for k, tag in ((k_fit, 'fits'), (k_over, 'too many')):
            if 0 < k * width <= 200:
                raw = rng.randbytes(k * width)
                arr = array.array(code)
                arr.frombytes(raw)
                add(f'store_bytes(array {code}, {tag})', lambda b, arr=arr: b.store_bytes(arr), rc.bytes_to_bits(raw), may_refuse=True)
                add(f'store_bytes(memoryview cast {code}, {tag})', lambda b, raw=raw, code=code: b.store_bytes(memoryview(raw).cast(code)), rc.bytes_to_bits(raw), may_refuse=True)
    if rem_bits < 267:
        a_ = M.Addr(value=('std', 0, rng.randbytes(32), None), how=0)
        add('store_address(std, no room)', lambda b, a_=a_: a_.store(b), a_.bits())
    if rem_bits < 11 + 64:
        a_ = M.Addr(value=('ext', rng.getrandbits(64), 64), how=0)
        add('store_address(ext, no room)', lambda b, a_=a_: a_.store(b), a_.bits())
    if rem_bits < 124:
        add('store_coins(no room)', lambda b: b.store_coins((1 << 119) + 1), M.var_uint_bits((1 << 119) + 1, 4))
    # value-range breaks (independent of capacity: use small widths that fit when possible)
    for w in (1, 2, 8, 31, 32, 64, 255, 256):
        if w + 1 <= rem_bits:
            for v in (1 << w, -1, (1 << w) + 5):
                add('store_uint(out of range)', lambda b, v=v, w=w: b.store_uint(v, w), None, valid=False)
            for v in (1 << (w - 1), -(1 << (w - 1)) - 1):
                add('store_int(out of range)', lambda b, v=v, w=w: b.store_int(v, w), None, valid=False)
    # zero-width fields hold only the value 0
    add('store_uint', lambda b: b.store_uint(0, 0), '')
    add('store_int', lambda b: b.store_int(0, 0), '')
    for v in (1, -1, 5, 1 << 64):
        add('store_uint(out of range)', lambda b, v=v: b.store_uint(v, 0), None, valid=False)
        add('store_int(out of range)', lambda b, v=v: b.store_int(v, 0), None, valid=False)
    # a single bit holds 0 or 1: every other integer (or digit) through each of the three single-bit entry points does not fit the width
    if rem_bits >= 1:
        for v in (2, -1, 3, 255, 256, -2, 1 << 64):
            add('store_bit(out of range)', lambda b, v=v: b.store_bit(v), None, valid=False)
            add('store_bit_int(out of range)', lambda b, v=v: b.store_bit_int(v), None, valid=False)
            add('store_bool(out of range)', lambda b, v=v: b.store_bool(v), None, valid=False)
        for v in ('2', '7', '9'):
            add('store_bit(digit out of range)', lambda b, v=v: b.store_bit(v), None, valid=False)
    # an external address whose value does not fit its declared length (len:(## 9) external_address:(bits len)), zero length included
    from pytoniq_core.boc.address import ExternalAddress
    for ln, v in ((0, 5), (0, 1), (1, 2), (3, 8), (8, 256), (9, 1 << 20), (511, 1 << 511), (4, -1)):
        if 11 + ln <= rem_bits:
            add('store_address(ext value out of range)', lambda b, v=v, ln=ln: b.store_address(ExternalAddress(v, ln)), None, valid=False)
    if 11 + 512 <= rem_bits:
        add('store_address(ext length out of range)', lambda b: b.store_address(ExternalAddress(1, 512)), None, valid=False)
    # an internal address whose account id is not 256 bits (address:bits256) or whose anycast depth is outside 1..30 (depth:(#<= 30) {depth >= 1}) does not fit
    # the stated width: with room for every wrong length, so that only the value is what is refused
    if rem_bits >= 3 + 8 + 8 * 64:
        from pytoniq_core.boc.address import Address
        for nbytes in (0, 1, 31, 33, 40, 64):
            add('store_address(account id not 256 bits)', lambda b, nbytes=nbytes: b.store_address(Address((0, bytes([7]) * nbytes))), None, valid=False)
        add('store_address(account id not 256 bits, text)', lambda b: b.store_address('0:' + 'ab' * 31), None, valid=False)
        add('Address.to_cell(account id not 256 bits)', lambda b: b.store_cell(Address((-1, bytes(33))).to_cell()), None, valid=False)
        for depth in (0, 31):
            def anyc(b, depth=depth):
                a = Address((0, bytes(32)))
                a.set_anycast(depth, 0)
                return b.store_address(a)
            add('store_address(anycast depth out of range)', anyc, None, valid=False)
    if rem_bits >= 140:
        add('store_coins(2^120)', lambda b: b.store_coins(1 << 120), None, valid=False)
        add('store_coins(negative)', lambda b: b.store_coins(-5), None, valid=False)
        add('store_var_uint(too long for length field)', lambda b: b.store_var_uint(1 << 64, 3), None, valid=False)
        add('store_var_int(too long for length field)', lambda b: b.store_var_int(-(1 << 70), 3), None, valid=False)
    if which:
        ops = [o for o in ops if o.name in which]
    return ops


def ref_ops(rng, B, leafs):
    ops = []
    for k in range(0, 5):
        for nb in (3, 0, 950, rng.randint(0, 1023)):
            cb = gen.rand_bits(rng, nb)
            c = bridge.to_lib(rc.RC(cb, [rc.RC(rc.u(i, 3)) for i in range(k)]))
            ops.append(Op(f'store_cell({k} refs)', lambda b, c=c: b.store_cell(c), cb, k))
            for consumed in range(0, k + 1):
                s = c.begin_parse()
                for _ in range(consumed):
                    s.load_ref()
                skip = rng.choice([0, 0, rng.randint(0, nb)])
                s.skip_bits(skip) if skip else None
                ops.append(Op(f'store_slice({k} refs, {consumed} consumed)', lambda b, s=s: b.store_slice(s), cb[skip:], k - consumed))
    ops.append(Op('store_ref', lambda b: b.store_ref(leafs[0]), '', 1))
    ops.append(Op('store_maybe_ref(cell)', lambda b: b.store_maybe_ref(leafs[1]), '1', 1))
    ops.append(Op('store_dict(cell)', lambda b: b.store_dict(leafs[1]), '1', 1))
    ops.append(Op('store_snake_bytes(needs ref)', lambda b: b.store_snake_bytes(b'x' * 200), None, 1))
    import array as _array
    ops.append(Op('store_snake_bytes(array H, needs ref)', lambda b: b.store_snake_bytes(_array.array('H', [0x7878] * 100)), None, 1))
    ops.append(Op('store_snake_bytes(memoryview cast I, needs ref)', lambda b: b.store_snake_bytes(memoryview(b'x' * 200).cast('I')), None, 1))
    return ops


def apply(R, B, fill_bits, fill_refs, op, leafs, W):
    """fresh builder at the given fill level; run op; compare with the shadow prediction"""
    b = B.Builder()
    fb = gen.rand_bits(R.rng, fill_bits)
    b.store_bits(fb)
    for i in range(fill_refs):
        b.store_ref(leafs[i % len(leafs)])
    if op.bits is None and op.valid:       # snake: prediction depends on fill
        avail = (1023 - fill_bits) // 8
        exp_bits = rc.bytes_to_bits(b'x' * min(200, avail))
        need_ref = 200 > avail
        fits = (not need_ref) or fill_refs < 4
        add_refs = 1 if need_ref else 0
    else:
        exp_bits = op.bits
        add_refs = op.nrefs
        fits = op.valid and fill_bits + len(op.bits) <= 1023 and fill_refs + op.nrefs <= 4
    st, e = mon.call(op.call, b)
    outcome = 'fits' if fits else ('range' if not op.valid else 'overflow')
    R.count(f'matrix:{op.name.split("(")[0]}:{outcome}')
    R.cover('fill_levels', fill_bits)
    W = dict(W, op=op.name, fill_bits=fill_bits, fill_refs=fill_refs)
    if fits:
        if st == 'exc' and op.may_refuse:
            R.count(f'unsupported-argument-form:{op.name}')
            R.check(b.bits.to01() == fb and len(b.refs) == fill_refs, f'refused-store-left-bits-{opkey(op)}', f'{op.name} was refused ({e!r}) but left {len(b.bits) - fill_bits} bits behind', W)
        elif st == 'exc':
            R.exc(e)
            R.violation(f'refused-fitting-{opkey(op)}', f'{op.name} at fill {fill_bits} bits/{fill_refs} refs fits ({len(exp_bits)} bits, {add_refs} refs) but raised {e!r}', W)
        else:
            R.check(b.bits.to01() == fb + exp_bits and len(b.refs) == fill_refs + add_refs, f'content-{op.name}',
                    f'{op.name}: builder holds {len(b.bits)} bits/{len(b.refs)} refs, shadow says {fill_bits + len(exp_bits)}/{fill_refs + add_refs}', W)
    else:
        if st == 'ok':
            R.violation(f'accepted-{outcome}-{opkey(op)}', f'{op.name} at fill {fill_bits} bits/{fill_refs} refs must be refused ({outcome}) but returned normally; '
                        f'builder now {len(b.bits)} bits/{len(b.refs)} refs', W)
        else:
            R.exc(e)
            R.counters['oracle_evaluations'] += 1
    # whatever happened, capacity invariants hold and end_cell gives a legal cell
    R.check(len(b.bits) <= 1023 and len(b.refs) <= 4, 'builder-over-capacity', f'builder holds {len(b.bits)} bits / {len(b.refs)} refs', W)
    st, c = mon.call(b.end_cell)
    if st == 'ok':
        R.check(len(c.bits) <= 1023 and len(c.refs) <= 4, 'cell-over-capacity', 'end_cell produced an over-capacity cell', W)


# -------------------------------------------------------------------------------------------- reads

def slice_origins(B, bits, nrefs, leafs):
    r = rc.RC(bits, [rc.RC(rc.u(i, 2)) for i in range(nrefs)])
    c = bridge.to_lib(r)
    plain = B.Cell(bitarray(bits), list(c.refs), -1)
    boc = c.to_boc()
    return [
        ('begin_parse', lambda: c.begin_parse()),
        ('parsed.begin_parse', lambda: B.Cell.one_from_boc(boc).begin_parse()),
        ('Slice.from_cell', lambda: B.Slice.from_cell(c)),
        ('copy', lambda: c.begin_parse().copy()),
        ('Slice.one_from_boc', lambda: B.Slice.one_from_boc(boc)),
        ('plain-bitarray-cell', lambda: plain.begin_parse()),
        ('plain.from_cell', lambda: B.Slice.from_cell(plain)),
        ('plain.copy', lambda: plain.copy().begin_parse().copy()),
        ('builder.to_slice', lambda: c.to_builder().to_slice()),
        ('to_slice', lambda: c.to_slice()),
    ]


def reads(R, B, rng, rem, nrefs, leafs, origins_subset=None):
    bits = gen.rand_bits(rng, rem)
    origins = slice_origins(B, bits, nrefs, leafs)
    if origins_subset is not None:
        origins = [origins[i % len(origins)] for i in origins_subset]
    kinds = [
        ('load_bits', lambda s, n: s.load_bits(n).to01(), lambda n: bits[:n], 1),
        ('load_uint', lambda s, n: s.load_uint(n), lambda n: int(bits[:n], 2) if n else 0, 1),
        ('load_int', lambda s, n: s.load_int(n), lambda n: (int(bits[:n], 2) - ((1 << n) if bits[0] == '1' else 0)) if n else 0, 1),
        ('skip_bits', lambda s, n: s.skip_bits(n) and None, lambda n: None, 1),
        ('load_bytes', lambda s, n: s.load_bytes(n // 8), lambda n: rc.bits_to_bytes_tagged(bits[:n - n % 8]), 8),
        ('load_string', lambda s, n: s.load_bytes(n // 8), lambda n: rc.bits_to_bytes_tagged(bits[:n - n % 8]), 8),
    ]
    for oname, mk in origins:
        for kname, call, want, unit in kinds:
            for req in (rem, rem + unit, rem + 8 * unit if unit == 8 else rem + 1 + rng.randrange(1, 40), max(rem * 3, 2000)):
                if kname == 'load_bytes' or kname == 'load_string':
                    req_bits = (req // 8) * 8
                    if req_bits == 0 and req > rem:
                        continue
                else:
                    req_bits = req
                if kname in ('load_uint', 'load_int') and req_bits == 0:
                    continue
                s = mk()
                st, v = mon.call(call, s, req)
                over = req_bits > rem
                R.count(f'reads:{kname}:{"over" if over else "fit"}')
                R.cover('read_origins', oname)
                W = {'read': kname, 'origin': oname, 'remaining': rem, 'requested_bits': req_bits}
                if over:
                    if st == 'ok':
                        R.violation(f'overread-returned-{kname}-{"plain" if "plain" in oname else "tvm"}',
                                    f'{kname} of {req_bits} bits with {rem} remaining (slice via {oname}) returned {mon.srepr(v, 80)} instead of raising', W)
                    else:
                        R.exc(v)
                        R.counters['oracle_evaluations'] += 1
                else:
                    if st == 'exc':
                        R.exc(v)
                        R.violation(f'read-refused-{kname}', f'{kname} of {req_bits} bits with {rem} remaining raised {v!r}', W)
                    else:
                        R.check(v == want(req_bits), f'read-value-{kname}', f'{kname} returned other data than the cell holds', W)
                        R.check(s.remaining_bits == rem - req_bits, f'read-position-{kname}', f'{kname} left {s.remaining_bits} bits, expected {rem - req_bits}', W)
        # single-bit reads and structured reads on an exhausted / short slice
        s = mk()
        if rem == 0:
            for kname, f in (('load_bit', lambda s: s.load_bit()), ('load_bool', lambda s: s.load_bool()), ('load_coins', lambda s: s.load_coins()),
                             ('load_address', lambda s: s.load_address()), ('load_var_uint', lambda s: s.load_var_uint(5)),
                             ('load_maybe_ref', lambda s: s.load_maybe_ref()), ('load_dict', lambda s: s.load_dict(8))):
                st, v = mon.call(f, mk())
                R.count(f'reads:{kname}:over')
                if st == 'ok':
                    R.violation(f'overread-returned-{kname}', f'{kname} on an empty slice ({oname}) returned {mon.srepr(v)}', {'origin': oname})
                else:
                    R.counters['oracle_evaluations'] += 1
        # references
        s = mk()
        for i in range(nrefs):
            st, v = mon.call(s.load_ref)
            R.check(st == 'ok', 'load_ref-refused', f'load_ref {i} of {nrefs} raised', {'origin': oname})
        st, v = mon.call(s.load_ref)
        R.count('reads:load_ref:over')
        if st == 'ok':
            R.violation('overread-returned-load_ref', f'load_ref with none remaining ({oname}) returned {mon.srepr(v)}', {'origin': oname, 'nrefs': nrefs})
        else:
            R.counters['oracle_evaluations'] += 1


def structured_overreads(R, B, rng):
    """length fields that point beyond the end: var ints, coins, addresses, maybe-ref/dict bit set without a reference"""
    cases = []
    for lb, n in ((4, 15), (4, 3), (5, 31), (3, 7)):
        cases.append((f'load_var_uint({lb})', M.u(n, lb) + gen.rand_bits(rng, 8 * n - 1 - rng.randrange(0, 7)), lambda s, lb=lb: s.load_var_uint(lb)))
        cases.append((f'load_var_int({lb})', M.u(n, lb) + gen.rand_bits(rng, 8 * n - 1), lambda s, lb=lb: s.load_var_int(lb)))
    cases.append(('load_coins', M.u(9, 4) + gen.rand_bits(rng, 71), lambda s: s.load_coins()))
    cases.append(('load_address(std)', '100' + gen.rand_bits(rng, 263), lambda s: s.load_address()))
    cases.append(('load_address(ext)', '01' + M.u(300, 9) + gen.rand_bits(rng, 299), lambda s: s.load_address()))
    cases.append(('load_address(anycast)', '101' + M.u(30, 5) + gen.rand_bits(rng, 29), lambda s: s.load_address()))
    cases.append(('load_maybe_ref', '1', lambda s: s.load_maybe_ref()))
    cases.append(('load_dict', '1', lambda s: s.load_dict(8)))
    cases.append(('load_ref', '', lambda s: s.load_ref()))
    cases.append(('load_snake_bytes(unaligned)', '1010', lambda s: s.load_snake_bytes()))
    for name, bits, f in cases:
        for origin in ('tvm', 'plain'):
            c = bridge.to_lib(rc.RC(bits)) if origin == 'tvm' else B.Cell(bitarray(bits), [], -1)
            st, v = mon.call(f, c.begin_parse())
            R.count(f'reads:{name.split("(")[0]}:over')
            if st == 'ok':
                R.violation(f'overread-returned-{name}-{origin}', f'{name} on truncated data returned {mon.srepr(v, 80)} instead of raising', {'bits': bits, 'origin': origin})
            else:
                R.exc(v)
                R.counters['oracle_evaluations'] += 1


def depth_limit(R, B):
    deep = bridge.to_lib(gen.chain(1023))
    ok = bridge.to_lib(gen.chain(1022))
    for name, f in (('store_ref', lambda b, c: b.store_ref(c)), ('store_maybe_ref', lambda b, c: b.store_maybe_ref(c)),
                    ('store_dict', lambda b, c: b.store_dict(c)), ('store_cell-of-parent', lambda b, c: b.store_cell(B.Builder().store_ref(c).end_cell()) if c is ok else b.store_ref(c))):
        b = B.Builder()
        f(b, deep)
        st, v = mon.call(b.end_cell)
        R.count('depth_attempts')
        if st == 'ok':
            R.violation('depth-1024-accepted', f'end_cell after {name} of a depth-1023 child produced depth {v.get_depth(0)}')
        else:
            R.counters['oracle_evaluations'] += 1
        b = B.Builder()
        f(b, ok)
        st, v = mon.call(b.end_cell)
        R.check(st == 'ok' and v.get_depth(0) == 1023, 'depth-1023-refused', f'cell of depth 1023 refused or wrong depth: {v!r}')


def ref_limit_routes(R, B, rng):
    """no route hands out a cell with more than four references: the constructors themselves, a slice turned into a cell, a builder whose reference
    list was extended in place, a bag of cells whose descriptor byte announces 5..7 references.  Four references pass through every route."""
    from bitarray import bitarray
    Cell, Slice, Builder = B.Cell, B.Slice, B.Builder
    from pytoniq_core.boc.tvm_bitarray import TvmBitarray

    def bag(n):          # root with n references to n distinct one-byte leaves, generic magic, 1-byte sizes
        cells = [bytes([n, 0]) + bytes(range(1, n + 1))] + [bytes([0, 2, i]) for i in range(n)]
        body = b''.join(cells)
        return bytes.fromhex('b5ee9c72') + bytes([1, 1, n + 1, 1, 0, len(body), 0]) + body

    for n in (4, 5, 6, 7, 8, 9):
        kids = [bridge.to_lib(rc.RC(format(i, '08b'))) for i in range(n)]
        bits = '1011'

        def via_builder_append():
            b = Builder().store_bits(bits)
            for k in kids:
                b.refs.append(k)
            return b.end_cell()

        def via_builder_assign():
            b = Builder().store_bits(bits)
            b.refs = list(kids)
            return b.end_cell()

        routes = [('Cell(TvmBitarray)', lambda: Cell(TvmBitarray(1023, bits), list(kids))), ('Cell(bitarray)', lambda: Cell(bitarray(bits), list(kids))),
                  ('Cell(tuple-of-refs)', lambda: Cell(bitarray(bits), tuple(kids))), ('Slice.to_cell', lambda: Slice(TvmBitarray(1023, bits), list(kids)).to_cell()),
                  ('builder.refs.append', via_builder_append), ('builder.refs=', via_builder_assign)]
        if n <= 7:
            routes += [('boc:Cell.one_from_boc', lambda: Cell.one_from_boc(bag(n))), ('boc:Slice.one_from_boc', lambda: Slice.one_from_boc(bag(n)).to_cell())]
        for name, f in routes:
            st, v = mon.call(f)
            R.count('ref_limit_attempts')
            R.counters['oracle_evaluations'] += 1
            W = {'route': name, 'refs': n}
            if n <= 4:
                R.check(st == 'ok' and len(v.refs) == n, f'four-references-refused-{name.split("(")[0]}', f'{name} with {n} references: {v!r}', W)
            elif st == 'ok':
                R.violation(f'cell-with-{min(n, 5)}plus-references-{name.split("(")[0].split(":")[0]}', f'{name} handed out a cell with {len(v.refs)} references (limit 4)', W)
            else:
                R.exc(v)
            R.case(mon.fp('reflimit', name, n))


def derived_builder_capacity(R, B, rng):
    """a builder obtained from a cell or a slice enforces the capacity like a fresh one, whatever kind of bit array the cell was constructed from (a plain
    bitarray of either storage order, a TvmBitarray, a parsed cell): at fill f a store of 1023 - f bits fits, one bit more is refused, through each store kind"""
    from bitarray import bitarray
    from pytoniq_core.boc.tvm_bitarray import TvmBitarray
    for fill in (0, 1, 7, 8, 500, 767, 1000, 1015, 1016, 1022, 1023):
        bits = gen.rand_bits(rng, fill)
        sources = [('Cell(bitarray)', lambda: B.Cell(bitarray(bits), [])), ('Cell(bitarray-little)', lambda: B.Cell(bitarray(bits, endian='little'), [])),
                   ('Cell(TvmBitarray)', lambda: B.Cell(TvmBitarray(1023, bits), [])), ('built', lambda: B.Builder().store_bits(bits).end_cell()),
                   ('parsed', lambda: B.Cell.one_from_boc(B.Builder().store_bits(bits).end_cell().to_boc()))]
        for sname, mk in sources:
            for dname, derive in (('to_builder', lambda c: c.to_builder()), ('begin_parse.to_builder', lambda c: c.begin_parse().to_builder()),
                                  ('copy.to_builder', lambda c: c.copy().to_builder()), ('Builder.store_cell', lambda c: B.Builder().store_cell(c))):
                room = 1023 - fill
                stores = [('store_bits', lambda b, n: b.store_bits('1' * n)), ('store_uint', lambda b, n: b.store_uint(0, n) if n <= 256 else b.store_uint(0, 256).store_uint(0, n - 256) if n <= 512 else b.store_bits('0' * n)),
                          ('store_bit', lambda b, n: [b.store_bit(1) for _ in range(n)] if n <= 64 else b.store_bits('1' * (n - 1)).store_bit(1)),
                          ('store_bytes', lambda b, n: b.store_bytes(bytes((n + 7) // 8)) if n % 8 == 0 or n > room else b.store_bits('0' * n))]
                for kname, store in stores:
                    for extra in (0, 1):
                        n = room + extra
                        if n == 0:
                            continue
                        st0, b = mon.call(lambda: derive(mk()))
                        if st0 == 'exc':
                            continue
                        st, e = mon.call(store, b, n)
                        R.counters['oracle_evaluations'] += 1
                        R.count('derived_builder_stores')
                        W = {'source': sname, 'derivation': dname, 'store': kname, 'fill': fill, 'bits_stored': n}
                        if extra:
                            R.check(st == 'exc' or len(b.bits) <= 1023, f'derived-builder-accepts-overflow-{dname.split(".")[-1]}',
                                    f'a builder obtained by {dname} from a {sname} cell of {fill} bits accepted {n} more bits through {kname}: it now holds {len(b.bits)} bits', W)
                        else:
                            R.check(st == 'ok' and len(b.bits) == 1023, f'derived-builder-refuses-fit-{dname.split(".")[-1]}',
                                    f'a builder obtained by {dname} from a {sname} cell of {fill} bits refused / mis-stored {n} bits that fit exactly ({e!r})', W)
        R.case(mon.fp('derivedbuilder', fill))


def exotic_depth_limits(R, B, rng, quick):
    """the depth limit holds at every level: children that are pruned branches *claim* a depth per level, Merkle cells take their child's depth one
    level up.  Expected verdict from R1 (RefError('depth') <=> some significant level exceeds 1023)."""
    import itertools

    def pruned(mask, depths):
        n = rc.popcount(mask)
        bits = rc.u(rc.PRUNED, 8) + rc.u(mask, 8) + ''.join(rc.bytes_to_bits(gen.rand_hash(rng)) for _ in range(n)) + ''.join(rc.u(d, 16) for d in depths)
        return rc.RC(bits, (), rc.PRUNED)

    def attempt(name, make_ref, build_lib, W):
        try:
            want = make_ref()
            expect = 'ok'
        except rc.RefError as e:
            if str(e) != 'depth':
                return
            want, expect = None, 'exc'
        st, v = mon.call(build_lib)
        R.count('exotic_depth_attempts')
        R.count('exotic_depth_expect_' + expect)
        R.counters['oracle_evaluations'] += 1
        if expect == 'exc' and st == 'ok':
            R.violation(f'depth-1024-accepted-{name}', f'{name}: a cell whose depth exceeds 1023 at some level was constructed: depths by level '
                        f'{[v.get_depth(l) for l in range(4)]}', W)
        elif expect == 'ok' and st == 'exc':
            R.violation(f'depth-1023-refused-{name}', f'{name}: a cell of depth <= 1023 at every level was refused: {v!r}', W)
        elif expect == 'ok':
            R.check([v.get_depth(l) for l in range(4)] == [want.get_depth(l) for l in range(4)], f'depth-values-{name}',
                    f'{name}: depths by level {[v.get_depth(l) for l in range(4)]} != spec {[want.get_depth(l) for l in range(4)]}', W)

    values = [0, 1022, 1023] if quick else [0, 7, 1021, 1022, 1023]
    for mask in range(1, 8):
        n = rc.popcount(mask)
        for depths in itertools.product(values, repeat=n):
            p = pruned(mask, depths)
            lp = bridge.to_lib(p)
            for pos in range(1 if quick else 3):
                others = [rc.RC('1')] * pos
                lothers = [bridge.to_lib(o) for o in others]
                W = {'child': 'pruned branch', 'mask': mask, 'claimed_depths': list(depths), 'position': pos}
                attempt(f'ordinary-parent-of-pruned-mask{mask}', lambda: rc.RC('101', others + [p]),
                        lambda: (lambda b: [b.store_ref(x) for x in lothers + [lp]] and b.end_cell())(B.Builder().store_bits('101')), W)
            # a Merkle proof / update directly over the pruned branch (the Merkle cell's depth at level l is the child's at level l+1, plus one)
            mp_bits = lambda c: rc.u(rc.MPROOF, 8) + rc.bytes_to_bits(c.get_hash(0)) + rc.u(c.get_depth(0), 16)
            W = {'child': 'pruned branch', 'mask': mask, 'claimed_depths': list(depths), 'parent': 'merkle proof'}
            attempt(f'merkle-proof-of-pruned-mask{mask}', lambda: rc.RC(mp_bits(p), (p,), rc.MPROOF),
                    lambda: B.Builder(type_=rc.MPROOF).store_bits(mp_bits(p)).store_ref(lp).end_cell(), W)
            R.cover('exotic_depth_masks', mask)
    # Merkle proof / ordinary wrapper over plain chains at the limit
    for d in (1021, 1022, 1023):
        ch = gen.chain(d)
        lch = bridge.to_lib(ch)
        mp_bits = rc.u(rc.MPROOF, 8) + rc.bytes_to_bits(ch.hash) + rc.u(ch.depth, 16)
        attempt('merkle-proof-of-chain', lambda: rc.RC(mp_bits, (ch,), rc.MPROOF), lambda: B.Builder(type_=rc.MPROOF).store_bits(mp_bits).store_ref(lch).end_cell(),
                {'child': f'chain of depth {d}', 'parent': 'merkle proof'})
        mu_bits = rc.u(rc.MUPDATE, 8) + rc.bytes_to_bits(ch.hash) * 2 + rc.u(ch.depth, 16) * 2
        attempt('merkle-update-of-chain', lambda: rc.RC(mu_bits, (ch, ch), rc.MUPDATE),
                lambda: B.Builder(type_=rc.MUPDATE).store_bits(mu_bits).store_ref(lch).store_ref(lch).end_cell(), {'child': f'chain of depth {d}', 'parent': 'merkle update'})


def random_history(R, B, rng, leafs, n_ops):
    """mixed successful and failing operations on one builder; shadow re-synchronised after expected failures"""
    b = B.Builder()
    sh_bits, sh_refs = '', 0
    trace = []
    for _ in range(n_ops):
        rem = 1023 - len(sh_bits)
        if rem < 0:
            break               # the builder is already over capacity (reported below as builder-over-capacity): nothing sensible can follow
        pool = mk_ops(rng, B, rng.choice([rem, rem, rng.randint(0, max(0, rem)), min(rem, 40), rem + 1]), leafs) + ref_ops(rng, B, leafs)
        op = rng.choice(pool)
        trace.append(op.name)
        if op.bits is None and op.valid:
            continue
        fits = op.valid and len(sh_bits) + len(op.bits) <= 1023 and sh_refs + op.nrefs <= 4
        st, e = mon.call(op.call, b)
        W = {'trace': trace[-12:], 'shadow_bits': len(sh_bits), 'shadow_refs': sh_refs}
        if fits:
            if st == 'exc' and op.may_refuse:
                sh_bits, sh_refs = b.bits.to01(), len(b.refs)
            elif st == 'exc':
                R.violation(f'refused-fitting-{opkey(op)}', f'history: {op.name} fits (shadow {len(sh_bits)}b/{sh_refs}r + {len(op.bits)}b/{op.nrefs}r) but raised {e!r}', W)
                sh_bits, sh_refs = b.bits.to01(), len(b.refs)
            else:
                sh_bits += op.bits
                sh_refs += op.nrefs
                R.check(b.bits.to01() == sh_bits and len(b.refs) == sh_refs, f'history-content-{op.name}', 'builder diverged from shadow', W)
        else:
            if st == 'ok':
                R.violation(f'accepted-{"range" if not op.valid else "overflow"}-{opkey(op)}', f'history: {op.name} must be refused but returned normally', W)
            else:
                R.counters['oracle_evaluations'] += 1
            sh_bits, sh_refs = b.bits.to01(), len(b.refs)
        R.check(len(b.bits) <= 1023 and len(b.refs) <= 4, 'builder-over-capacity', 'builder over capacity', W)
        R.count('history_ops')
    mon.call(b.end_cell)


def run(R):
    B = bridge.lib()
    rng = R.rng
    quick = R.tier == 'quick'
    inv = bridge.CellInvariant(R).install()
    R.rule = ('fill level 0..1023 x every store kind x {fits with room, fits exactly, one bit too many}; reference fill 0..4 x composite '
              'stores (cells/slices with 0..4 refs, partly consumed); out-of-range values per width; depth 1023/1024; reads: every remaining '
              'length x read kind x {exactly remaining, one unit more, far more} x 10 slice origins incl. plain-bitarray cells; random '
              'histories mixing successes and failures; distinct = distinct (fill, op, outcome) / (remaining, read, origin); non-trivial = all')
    R.assumptions = ['after an expected failure the builder may hold a partial write; only capacity invariants are asserted then']
    leafs = [bridge.to_lib(rc.RC(gen.rand_bits(rng, 3 + i))) for i in range(4)]
    fills = [f for f in range(1024) if f % R.nshards == R.shard]
    for fill in fills:
        ops = mk_ops(rng, B, 1023 - fill, leafs)
        if quick and fill % 8 not in (0, 7) and not (fill < 16 or fill > 1000 or 740 <= fill <= 760):
            ops = rng.sample(ops, min(len(ops), 6))
        for op in ops:
            apply(R, B, fill, rng.randrange(0, 4), op, leafs, {})
            R.case(mon.fp('w', fill, op.name, op.bits if op.bits is None else len(op.bits)))
    for fr in range(5):
        for op in ref_ops(rng, B, leafs):
            nb = len(op.bits or '')
            for fb in sorted({0, max(0, 1023 - nb - 1), max(0, 1023 - nb), min(1023, 1024 - nb), rng.randrange(1024)}):
                apply(R, B, fb, fr, op, leafs, {})
                R.case(mon.fp('r', fr, fb, op.name))
    rems = [r for r in range(1024) if r % R.nshards == R.shard]
    for rem in rems:
        sub = None if (not quick or rem % 64 == 0 or rem < 10 or rem > 1015) else [rem, rem + 5]
        reads(R, B, rng, rem, rem % 5, leafs, sub)
        R.case(mon.fp('rd', rem), sample={'remaining': rem} if rem < 2 else None)
        R.cover('remaining_lengths', rem)
    structured_overreads(R, B, rng)
    if R.shard == 0:
        depth_limit(R, B)
        ref_limit_routes(R, B, rng)
        derived_builder_capacity(R, B, rng)
        exotic_depth_limits(R, B, rng, quick)
    for i in range((40 if quick else 3000) // R.nshards + 1):
        random_history(R, B, rng, leafs, 40)
        R.case(mon.fp('h', i, R.shard))
    inv.uninstall()
    R.floor('history_ops', 100)
    R.floor('reads:load_uint:over', 20)
    R.floor('read_origins', 10, 'set')
    if R.nshards == 1:
        R.floor('fill_levels', 1024, 'set')
        R.floor('remaining_lengths', 1024, 'set')
        R.floor('depth_attempts', 4)
        R.floor('ref_limit_attempts', 40)
        R.floor('exotic_depth_expect_exc', 20)
        R.floor('exotic_depth_expect_ok', 20)


def replay(R, w, rec):
    B = bridge.lib()
    rng = R.rng
    leafs = [bridge.to_lib(rc.RC(gen.rand_bits(rng, 3 + i))) for i in range(4)]
    if 'read' in w:
        reads(R, B, rng, w['remaining'], 1, leafs)
    elif 'op' in w:
        for op in mk_ops(rng, B, 1023 - w['fill_bits'], leafs) + ref_ops(rng, B, leafs):
            if op.name == w['op']:
                apply(R, B, w['fill_bits'], w['fill_refs'], op, leafs, {})
    elif 'claimed_depths' in w or 'parent' in w:
        exotic_depth_limits(R, B, rng, False)
    else:
        structured_overreads(R, B, rng)
    R.case(mon.fp(1)); R.case(mon.fp(2))

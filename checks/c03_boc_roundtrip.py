"""C03 - bag-of-cells serialisation round-trips for every DAG, option set, input form and entry point."""
import base64

from lib import bridge, dags, gen, mon, refcell as rc

SHARDS = 16
OPTS = [(False, False, False), (True, False, False), (False, True, False), (True, True, False),
        (True, False, True), (True, True, True)]


_SUB = {}


def _SubCell(B):
    if 'c' not in _SUB:
        class SubCell(B.Cell):
            pass
        _SUB['c'] = SubCell
    return _SUB['c']


def same(R, src_struct, src_hash, got, what, W):
    R.check(got.hash == src_hash, 'roundtrip-hash', f'{what}: parsed root hash differs', W)
    R.check(bridge.struct_lib(got) == src_struct, 'roundtrip-structure', f'{what}: parsed DAG differs in bits/type/refs', W)


def one(R, B, name, r, c, W, all_forms=True, huge=False, light=False):
    """light: two of the six option sets (chosen by the root hash) and one entry point per form - for the variants of a DAG whose full matrix was already run"""
    src = bridge.struct_lib(c)
    ordinary_root = r.type == rc.ORD
    opts = OPTS if not huge else [OPTS[0], OPTS[5]]
    if light:
        k = r.hash[0] % 6
        opts = [OPTS[k], OPTS[(k + 3) % 6]]
    for oi, o in enumerate(opts):
        st, b = mon.call(c.to_boc, *o)
        if st == 'exc':
            R.exc(b)
            R.violation(f'to_boc-raises-{type(b).__name__}', f'to_boc{o} raised {b!r} ({name})', W)
            continue
        forms = [('bytes', b), ('hex', b.hex()), ('base64', base64.b64encode(b).decode())]
        if not all_forms:
            forms = [forms[oi % 3]]
        elif len(b) < 20000:
            # the raw bytes in the other containers a caller may hold them in
            import array as _array
            forms += [('bytearray', bytearray(b)), ('memoryview', memoryview(b)), ('memoryview-of-slice', memoryview(b'\x00' + b + b'\xff')[1:-1]), ('array-B', _array.array('B', b))]
        for fname, data in forms:
            entries = [('Cell.one_from_boc', lambda d: B.Cell.one_from_boc(d)),
                       ('Cell.from_boc', lambda d: B.Cell.from_boc(d)[0]),
                       ('Slice.one_from_boc', lambda d: B.Slice.one_from_boc(d).to_cell())]
            if ordinary_root:
                entries.append(('Builder.one_from_boc', lambda d: B.Builder.one_from_boc(d).end_cell()))
            # the same entry points reached through subclasses (the parser constructs `cls` objects)
            entries.append(('CellSubclass.one_from_boc', lambda d: _SubCell(B).one_from_boc(d)))
            entries.append(('CellSubclass.from_boc', lambda d: _SubCell(B).from_boc(d)[0]))
            if huge or light:
                entries = [entries[(oi + r.hash[1]) % len(entries)]]
            for ename, f in entries:
                st, got = mon.call(f, data)
                R.count(f'parse:{fname}:{ename}')
                if st == 'exc':
                    R.exc(got)
                    R.violation(f'parse-raises-{fname}-{type(got).__name__}', f'{ename}({fname}) of to_boc{o} output raised {got!r} ({name})',
                                dict(W, opts=o))
                    continue
                same(R, src, c.hash, got, f'{ename}({fname}) after to_boc{o}', W)
        R.count(f'opts:{o}')
    # the library agrees with the spec on what the original is (ties C03 to C01/C02)
    R.check(c.hash == r.hash, 'source-hash', 'library hash of the source differs from spec', W)


def run(R):
    B = bridge.lib()
    rng = R.rng
    quick = R.tier == 'quick'
    R.rule = ('DAG classes of lib/dags.py incl. exotic trees and header-width boundaries x 6 option sets x {bytes, hex, base64} x '
              '{Cell.one_from_boc, Cell.from_boc, Slice.one_from_boc, Builder.one_from_boc (ordinary roots)}; parsed root compared '
              'by hash and recursively by (type, bits, refs); distinct = distinct root hash; non-trivial = at least 2 cells')
    inv = bridge.CellInvariant(R).install()
    for name, r in dags.classes(rng, R.tier, R.shard, R.nshards):
        cells = gen.all_cells(r)
        n = len(cells)
        W = {'class': name, 'cells': n, 'boc': rc.encode_boc([r]) if n < 80 else None}
        inv.enabled = n < 5000
        st, c = mon.call(bridge.to_lib, r, 'builder')
        if st == 'exc':
            R.exc(c)
            R.violation(f'build-raises-{type(c).__name__}', f'cannot build {name}: {c!r}', W)
            continue
        one(R, B, name, r, c, W, all_forms=n < 3000, huge=n > 20000)
        if 1 < n <= 300:
            # the same cell objects as parts of different bags, one after the other: a descendant alone, the root again, a new parent of both
            sub = next(((lk, rk) for lk, rk in zip(c.refs, r.refs) if rk.refs), None)
            if sub is not None:
                one(R, B, name + '/descendant-after-root', sub[1], sub[0], dict(W, sequence='root, then a descendant on its own'), all_forms=False, light=True)
                one(R, B, name + '/root-after-descendant', r, c, dict(W, sequence='root, descendant, root again'), all_forms=False, light=True)
                try:
                    parent_r = rc.RC('1011', (sub[1], r))
                except rc.RefError:          # e.g. the root already has depth 1023: no parent exists
                    parent_r = None
                st, parent = mon.call(lambda: B.Builder().store_bits('1011').store_ref(sub[0]).store_ref(c).end_cell()) if parent_r is not None else ('skip', None)
                if st == 'ok':
                    one(R, B, name + '/new-parent-of-serialised-cells', parent_r, parent, dict(W, sequence='children first, then a new parent'), all_forms=False, light=True)
                R.count('multi_bag_sequences')
            # equal sub-cells as distinct Python objects, and a root that came out of the parser (its cells hold parser-made bit arrays)
            st, cf = mon.call(bridge.to_lib, r, 'builder-fresh')
            if st == 'ok':
                one(R, B, name + '/equal-cells-as-distinct-objects', r, cf, dict(W, objects='distinct'), all_forms=False, light=True)
                R.count('fresh_object_dags')
            # cells constructed directly from plain / Tvm bit arrays (any length mod 8)
            for route in ('direct_plain', 'direct_tvm'):
                st, cd = mon.call(bridge.to_lib, r, route)
                if st == 'ok':
                    one(R, B, name + '/' + route, r, cd, dict(W, objects=f'Cell(...) constructed via {route}'), all_forms=False, light=True)
                    R.count('direct_construction_dags')
            st, cp = mon.call(bridge.to_lib, r, 'boc-hashes')
            if st == 'ok':
                one(R, B, name + '/reserialise-parsed-foreign', r, cp, dict(W, objects='parsed from a foreign encoding with stored hashes'), all_forms=False, light=True)
                R.count('reserialised_parsed_dags')
        R.case(mon.fp(r.hash) if n > 1 else None, sample={'class': name, 'cells': n, 'types': sorted({x.type for x in cells})} if not name.startswith('bulk') or R.evaluations < 3 else None)
        R.cover('classes', name)
        R.cover('sharing', min(8, max_fanin(cells)))
        R.extra['largest_dag'] = max(R.extra.get('largest_dag', 0), n)
    # ---- what was parsed before must not matter: a cell and its twin of another type (same bits, same references, so everything but the first descriptor byte
    # is equal) arrive in separate bags one after the other, in both orders and through every entry point; each parse must return the cell its own bag denotes
    if R.shard == 0:
        leaf = rc.RC('10110')
        sub = rc.RC('0110', (leaf,))
        pr = rc.make_pruned(sub, 1)
        exotics = [rc.make_library(bytes(range(32))), rc.make_library(rng.randbytes(32)), pr, rc.make_merkle_proof(sub), rc.make_merkle_proof(rc.RC('1', (pr,))),
                   rc.make_merkle_update(sub, rc.RC('111', (leaf,))), rc.make_merkle_update(pr, pr)]
        for ex in exotics:
            twin = rc.RC(ex.bits, ex.refs)                  # the ordinary cell with the same data and references
            pairs = [(ex, twin), (twin, ex)]
            for first, second in pairs:
                for ename, entry in (('Cell.one_from_boc', lambda b: B.Cell.one_from_boc(b)), ('Cell.from_boc', lambda b: B.Cell.from_boc(b)[0]),
                                     ('parent-bag', lambda b: B.Cell.one_from_boc(b))):
                    seq = [first, second, first]
                    if ename == 'parent-bag':
                        # each twin as the child of an ordinary parent, so that the twins are inner cells of their bags
                        seq = [rc.RC('01', (x,)) for x in seq]
                    for k, x in enumerate(seq):
                        for opts in ((False, False, False), (True, True, False)):
                            st, got = mon.call(entry, rc.encode_boc([x], has_idx=opts[0], has_crc=opts[1]))
                            R.counters['oracle_evaluations'] += 1
                            R.count('type_twin_parses')
                            W = {'entry': ename, 'position': k, 'type': x.type if ename != 'parent-bag' else x.refs[0].type, 'first_parsed_type': first.type, 'boc': rc.encode_boc([x])}
                            if st == 'exc':
                                R.violation(f'type-twin-sequence-raises-{type(got).__name__}', f'{ename}: a bag parsed after the bag of its twin of another type raised {got!r}', W)
                            else:
                                inner = got if ename != 'parent-bag' else got.refs[0]
                                want = x if ename != 'parent-bag' else x.refs[0]
                                R.check(got.hash == x.hash and inner.type_ == want.type and inner.hash == want.hash, 'type-twin-sequence-confused',
                                        f'{ename}: a cell parsed after its twin of another type came back as type {inner.type_} / hash {inner.hash.hex()[:16]}, the bag denotes type {want.type} / '
                                        f'{want.hash.hex()[:16]}: the result depends on what was parsed before', W)
    # ---- a cell whose declared type and first data byte disagree (the format stores the type ONLY in that byte) cannot survive a round trip: the library may refuse to
    # build it, but whatever it lets the caller build must come back from its own serialisation
    if R.shard == 0:
        leaf = rc.RC('10110')
        sub = rc.RC('0110', (leaf,))
        valid = {1: rc.make_pruned(sub, 1), 2: rc.make_library(bytes(range(32))), 3: rc.make_merkle_proof(sub), 4: rc.make_merkle_update(sub, rc.RC('111', (leaf,)))}
        for t, ex in valid.items():
            for first in (1, 2, 3, 4, 0, 5, 0x80, 0xff):
                if first == t:
                    continue
                bits = format(first, '08b') + ex.bits[8:]
                if t == 1 and first in (1, 2, 3, 4):
                    pass
                refs = [bridge.to_lib(x) for x in ex.refs]

                def build():
                    b = B.Builder(type_=t).store_bits(bits)
                    for x in refs:
                        b.store_ref(x)
                    return b.end_cell()
                for rname, mk in (('Builder(type_)', build), ('Cell(bits, refs, type)', lambda: B.Cell(bridge.tvm_bits(bits), list(refs), t))):
                    st, c = mon.call(mk)
                    R.counters['oracle_evaluations'] += 1
                    R.count('mistyped_exotic_attempts')
                    W = {'declared_type': t, 'first_byte': first, 'route': rname}
                    if st == 'exc':
                        R.exc(c)
                        R.count('mistyped_exotic_refused')
                        continue
                    for parent in (False, True):
                        root = c if not parent else mon.call(lambda: B.Builder().store_bits('01').store_ref(c).end_cell())[1]
                        if isinstance(root, Exception):
                            continue
                        st2, back = mon.call(lambda: B.Cell.one_from_boc(root.to_boc()))
                        R.check(st2 == 'ok' and back.hash == root.hash, 'mistyped-exotic-accepted-but-not-round-trippable',
                                f'{rname} built a cell of declared type {t} whose first data byte is {first:#04x}; its serialisation ' +
                                (f'does not parse back ({back!r})' if st2 == 'exc' else 'parses back to another cell') + ' - such a cell must be refused or come back', W)
    inv.uninstall()
    # hex that is also valid base64 and vice versa: form detection must not depend on content
    for b in (b'\xb5\xee\x9c\x72\x01\x01\x01\x01\x00\x02\x00\x00\x00',):
        for form in (b, b.hex(), b.hex().upper(), base64.b64encode(b).decode()):
            st, got = mon.call(B.Cell.one_from_boc, form)
            R.check(st == 'ok' and got.hash == rc.RC('').hash, 'form-detection', f'empty-cell BoC as {type(form).__name__} {form!r} not parsed', {'form': repr(form)})
    R.floor('opts:(True, True, True)', 5)
    R.floor('parse:base64:Slice.one_from_boc', 5)
    R.floor('parse:hex:Builder.one_from_boc', 5)
    R.floor('fresh_object_dags', 20)
    R.floor('multi_bag_sequences', 10)
    R.floor('direct_construction_dags', 40)
    R.floor('reserialised_parsed_dags', 20)
    if R.shard == 0:
        R.floor('type_twin_parses', 200)


def max_fanin(cells):
    cnt = {}
    for c in cells:
        for x in c.refs:
            cnt[x.hash] = cnt.get(x.hash, 0) + 1
    return max(cnt.values()) if cnt else 0


def replay(R, w, rec):
    B = bridge.lib()
    r = rc.decode_boc(w['boc'])['roots'][0]
    one(R, B, 'replay', r, bridge.to_lib(r), w)
    R.case(mon.fp(1)); R.case(mon.fp(2))

"""C11 - Merkle proof checks are complete (every honest pruning accepted) and sound (forgeries rejected)."""
import itertools

from lib import bridge, gen, mon, refcell as rc, tlbref as T

SHARDS = 8
SHARD_TIMEOUT = 3600
LEVEL = 'fault_enumeration'


# ------------------------------------------------------------------------------------------- reference-side tree surgery
def rebuild(root, replace):
    """copy of the tree with replace(cell) -> RC|None applied top-down (None = keep and descend); exotic cells are kept as they are"""
    memo = {}

    def go(c):
        if c.hash in memo:
            return memo[c.hash]
        r = replace(c)
        if r is None:
            if c.type == rc.ORD and c.refs:
                kids = [go(x) for x in c.refs]
                r = rc.RC(c.bits, kids) if any(a is not b for a, b in zip(kids, c.refs)) else c
            else:
                r = c
        memo[c.hash] = r
        return r
    return go(root)


def prune(root, chosen, level=1):
    """replace every subtree whose hash is in `chosen` by a pruned branch of the given level (the root itself only if chosen)"""
    return rebuild(root, lambda c: rc.make_pruned(c, level) if c.hash in chosen and c.mask >> (level - 1) == 0 else None)


def prune_deep(root, chosen, base=1):
    """like prune(), but also below embedded Merkle cells: a subtree with d Merkle cells between `root` (inclusive) and itself is replaced
    by a pruned branch of level base+d (so masks 0b010, 0b100 and ORed masks occur); embedded Merkle cells are recomputed over their new
    children (their stored hashes are level-0 hashes and do not change).  Subtrees that cannot be pruned at their level are kept."""
    memo = {}

    def go(c, level):
        k = (c.hash, level)
        if k in memo:
            return memo[k]
        r = c
        if c.hash in chosen and level <= 3 and c.mask >> (level - 1) == 0 and c.hash != root.hash:
            r = rc.make_pruned(c, level)
        elif c.type == rc.ORD and c.refs:
            kids = [go(x, level) for x in c.refs]
            if any(a is not b for a, b in zip(kids, c.refs)):
                r = rc.RC(c.bits, kids)
        elif c.type == rc.MPROOF:
            kid = go(c.refs[0], level + 1)
            if kid is not c.refs[0]:
                r = rc.make_merkle_proof(kid)
        elif c.type == rc.MUPDATE:
            a, b = go(c.refs[0], level + 1), go(c.refs[1], level + 1)
            if a is not c.refs[0] or b is not c.refs[1]:
                r = rc.make_merkle_update(a, b)
        memo[k] = r
        return r
    return go(root, base)


def rebuild_deep(root, target_hash, m):
    """copy of the tree with the cell `target_hash` replaced by m wherever it occurs, embedded Merkle cells recomputed over the changed child"""
    memo = {}

    def go(c):
        if c.hash in memo:
            return memo[c.hash]
        if c.hash == target_hash:
            r = m
        elif c.type == rc.ORD and c.refs:
            kids = [go(x) for x in c.refs]
            r = rc.RC(c.bits, kids) if any(a is not b for a, b in zip(kids, c.refs)) else c
        elif c.type == rc.MPROOF:
            kid = go(c.refs[0])
            r = rc.make_merkle_proof(kid) if kid is not c.refs[0] else c
        elif c.type == rc.MUPDATE:
            a, b = go(c.refs[0]), go(c.refs[1])
            r = rc.make_merkle_update(a, b) if (a is not c.refs[0] or b is not c.refs[1]) else c
        else:
            r = c
        memo[c.hash] = r
        return r
    return go(root)


def nested_tree(rng, n, budget=2):
    """ordinary level-0 tree of about n cells that embeds Merkle proof / Merkle update cells (nested up to `budget` deep) over ordinary subtrees; the tree under an
    embedded Merkle cell may itself already be partly pruned (level-1 pruned branches, as the old/new states of a real block's state update are)"""
    def partly_pruned(t):
        # replace some proper subtrees of an ordinary tree by level-1 pruned branches (valid only directly under a Merkle cell: the tree's mask becomes 0b01)
        cands = [c for c in gen.all_cells(t) if c.hash != t.hash and c.type == rc.ORD and c.mask == 0]
        if not cands or rng.random() < 0.4:
            return t
        chosen = {c.hash for c in rng.sample(cands, rng.randint(1, min(2, len(cands))))}
        return prune(t, chosen)

    def sub(n, budget):
        if n <= 1:
            return rc.RC(gen.rand_bits(rng, rng.choice([0, 5, 40])))
        kids = []
        left = n - 1
        for _ in range(rng.randint(1, min(3, left))):
            share = max(1, left // 2 if rng.random() < 0.7 else left)
            left = max(0, left - share)
            t = sub(share, budget)
            if budget > 0 and rng.random() < 0.45:
                t = sub(share, budget - 1)
                if rng.random() < 0.5:
                    t = rc.make_merkle_proof(partly_pruned(t) if t.mask == 0 else t)
                else:
                    o_ = sub(max(1, share // 2), budget - 1)
                    t = rc.make_merkle_update(partly_pruned(o_) if o_.mask == 0 else o_, partly_pruned(t) if t.mask == 0 else t)
            kids.append(t)
            if left == 0:
                break
        return rc.RC(gen.rand_bits(rng, rng.choice([1, 9, 33])), kids)
    return sub(n, budget)


def merkle_depths(root):
    """{cell hash: smallest number of Merkle cells between root (inclusive) and the cell}"""
    out = {}
    stack = [(root, 0)]
    while stack:
        c, d = stack.pop()
        if out.get(c.hash, 99) <= d:
            continue
        out[c.hash] = d
        d2 = d + (1 if c.type in (rc.MPROOF, rc.MUPDATE) else 0)
        stack.extend((x, d2) for x in c.refs)
    return out


def prunable(root):
    return [c for c in gen.all_cells(root) if c.hash != root.hash and c.type != rc.PRUNED]


def ordinary_tree(rng, n):
    r = gen.rand_dag(rng, n, max_bits=rng.choice([8, 40, 200]))
    return r


def unpruned_cells(proof_child):
    return [c for c in gen.all_cells(proof_child) if c.type == rc.ORD]


def mutate_cell(rng, target, how):
    """a changed version of ordinary cell `target` (data or structure)"""
    if how == 'flip-bit' and target.bits:
        i = rng.randrange(len(target.bits))
        return rc.RC(target.bits[:i] + ('1' if target.bits[i] == '0' else '0') + target.bits[i + 1:], target.refs)
    if how == 'append-bit' and len(target.bits) < 1023:
        return rc.RC(target.bits + rng.choice('01'), target.refs)
    if how == 'drop-bit' and target.bits:
        return rc.RC(target.bits[:-1], target.refs)
    if how == 'drop-ref' and target.refs:
        i = rng.randrange(len(target.refs))
        return rc.RC(target.bits, target.refs[:i] + target.refs[i + 1:])
    if how == 'swap-refs' and len(target.refs) >= 2 and target.refs[0].hash != target.refs[1].hash:
        return rc.RC(target.bits, (target.refs[1], target.refs[0]) + tuple(target.refs[2:]))
    if how == 'add-ref' and len(target.refs) < 4:
        return rc.RC(target.bits, tuple(target.refs) + (rc.RC('1'),))
    if how == 'replace-ref' and target.refs:
        i = rng.randrange(len(target.refs))
        return rc.RC(target.bits, target.refs[:i] + (rc.RC(gen.rand_bits(rng, 9)),) + target.refs[i + 1:])
    return None


def forge_pruned(rng, target, how):
    """a pruned branch with a substituted stored hash or depth"""
    bits = target.bits
    n = rc.popcount(target.mask)
    if how == 'pruned-mask':
        # one more (or one other) level claimed in the mask byte, the data left as it is: the layout no longer fits the mask - not a valid cell
        i = 8 + rng.choice([5, 6] if target.mask & 1 else [7, 6])
        return rc.RC(bits[:i] + ('1' if bits[i] == '0' else '0') + bits[i + 1:], (), rc.PRUNED, validate=False)
    if how == 'pruned-hash':
        i = 16 + rng.randrange(256 * n)
    else:
        i = 16 + 256 * n + rng.randrange(16 * n)
    return rc.RC(bits[:i] + ('1' if bits[i] == '0' else '0') + bits[i + 1:], (), rc.PRUNED)


MUTATIONS = ['flip-bit', 'append-bit', 'drop-bit', 'drop-ref', 'swap-refs', 'add-ref', 'replace-ref']


def try_build(tree, route='builder'):
    """library cell for a (possibly spec-invalid) reference tree; ('exc', e) if the library refuses to construct it"""
    return mon.call(bridge.to_lib, tree, route)


class Proofs:
    def __init__(self, R):
        self.R = R
        import importlib
        self.cp = importlib.import_module('pytoniq_core.proof.check_proof')
        self.maxflip = 16 if R.tier == 'quick' else 64
        self.extra_currencies = True

    # ---- judge helpers
    def expect_accept(self, name, f, W):
        R = self.R
        st, v = mon.call(f)
        R.counters['oracle_evaluations'] += 1
        R.count(f'honest_{name}')
        if st == 'exc':
            R.exc(v)
            R.violation(f'honest-proof-rejected-{name}-{type(v).__name__}', f'{name} rejected an honest proof: {v!r}', W)
            return None
        return v

    def expect_reject(self, name, op, f, W):
        R = self.R
        st, v = mon.call(f)
        R.counters['oracle_evaluations'] += 1
        R.count(f'forgery_{name}')
        R.cover(f'operators_{name}', op)
        if st == 'ok':
            R.violation(f'forgery-accepted-{name}-{op}', f'{name} accepted a forgery ({op})', W)
        else:
            R.exc(v)
            R.count('forgeries_rejected')

    # ---- generic check_proof
    def generic(self, rng, tree, exhaustive):
        R, cp = self.R, self.cp
        cands = prunable(tree)
        if exhaustive and len(cands) <= 6:
            subsets = [set(c.hash for c in s) for k in range(len(cands) + 1) for s in itertools.combinations(cands, k)]
            R.count('exhaustive_pruning_trees')
        else:
            subsets = [set()] + [set(c.hash for c in rng.sample(cands, rng.randint(1, len(cands)))) for _ in range(4) if cands]
        subsets.append({tree.hash})           # everything pruned: the proof is a Merkle cell over one pruned branch
        H = tree.hash
        W0 = {'tree_boc': rc.encode_boc([tree]) if len(gen.all_cells(tree)) < 40 else None, 'root_hash': H}
        for chosen in subsets:
            child = prune(tree, chosen)
            proof = rc.make_merkle_proof(child)
            if child.get_hash(0) != H:
                R.inconc('reference-pruning-invariance-broken')
                return
            for route in ('builder', 'boc'):
                st, cell = try_build(proof, route)
                W = dict(W0, pruned=len(chosen), route=route, proof_boc=rc.encode_boc([proof]) if len(gen.all_cells(proof)) < 40 else None)
                if st == 'exc':
                    R.violation(f'honest-proof-not-constructible-{route}', f'honest Merkle proof cannot be constructed: {cell!r}', W)
                    continue
                self.expect_accept('check_proof', lambda: cp.check_proof(cell, H), W)
                R.check(cell[0].get_hash(0) == H and cell[0].hash == child.hash, 'proof-child-hashes', 'get_hash(0) / hash of the proof child differ from spec', W)
                # a proof that went through Python's copy / pickle protocols (cached, passed between processes) is the same proof
                if route == 'boc':
                    import copy as _copy
                    import pickle as _pickle
                    for pname, mk in (('copy.copy', lambda: _copy.copy(cell)), ('copy.deepcopy', lambda: _copy.deepcopy(cell)), ('pickle', lambda: _pickle.loads(_pickle.dumps(cell))),
                                      ('Cell.copy', lambda: cell.copy())):
                        st2, c2 = mon.call(mk)
                        if st2 == 'exc':
                            R.cover('protocol_copy_unsupported', pname)      # a cell that cannot be copied that way is not a wrong copy
                            continue
                        self.expect_accept(f'check_proof[{pname}]', lambda: cp.check_proof(c2, H), dict(W, copied_by=pname))
                        R.count('protocol_copies_of_proofs')
            R.case(mon.fp('gp', H, tuple(sorted(chosen))), sample={'cells': len(gen.all_cells(tree)), 'pruned_subtrees': len(chosen)})
            R.cover('pruned_counts', min(len(chosen), 8))
            # ---- soundness on this proof
            st, cell = try_build(proof)
            if st == 'exc':
                continue
            W = dict(W0, pruned=len(chosen))
            other = bytearray(H)
            other[rng.randrange(32)] ^= 1 << rng.randrange(8)
            self.expect_reject('check_proof', 'other-hash-one-bit', lambda: cp.check_proof(cell, bytes(other)), W)
            self.expect_reject('check_proof', 'other-hash-random', lambda: cp.check_proof(cell, rng.randbytes(32)), W)
            self.expect_reject('check_proof', 'hash-of-proof-cell-itself', lambda: cp.check_proof(cell, cell.hash), W)
            # not a Merkle proof cell
            st2, plain = try_build(child)
            if st2 == 'ok':
                self.expect_reject('check_proof', 'root-not-merkle-proof:child-itself', lambda: cp.check_proof(plain, H), W)
            st2, pr = try_build(rc.make_pruned(tree, 1))
            if st2 == 'ok':
                self.expect_reject('check_proof', 'root-not-merkle-proof:pruned-branch-carrying-hash', lambda: cp.check_proof(pr, H), W)
            st2, lib = try_build(rc.make_library(H))
            if st2 == 'ok':
                self.expect_reject('check_proof', 'root-not-merkle-proof:library-cell-with-hash', lambda: cp.check_proof(lib, H), W)
            st2, upd = try_build(rc.make_merkle_update(child, child))
            if st2 == 'ok':
                self.expect_reject('check_proof', 'root-not-merkle-proof:merkle-update', lambda: cp.check_proof(upd, H), W)
            wrapped = rc.RC('', [proof])
            st2, wr = try_build(wrapped)
            if st2 == 'ok':
                self.expect_reject('check_proof', 'root-not-merkle-proof:ordinary-parent-of-proof', lambda: cp.check_proof(wr, H), W)
            # mutations of unpruned cells and pruned branches, stale and recomputed Merkle cell
            targets = unpruned_cells(child)
            pruned_targets = [c for c in gen.all_cells(child) if c.type == rc.PRUNED]
            jobs = []
            full = exhaustive and len(targets) <= 8
            for t in targets:
                hows = MUTATIONS if full else rng.sample(MUTATIONS, 2)
                if full and len(t.bits) <= self.maxflip:
                    for i in range(len(t.bits)):
                        jobs.append((t, f'flip-bit', rc.RC(t.bits[:i] + ('1' if t.bits[i] == '0' else '0') + t.bits[i + 1:], t.refs)))
                for how in hows:
                    m = mutate_cell(rng, t, how)
                    if m is not None and m.hash != t.hash:
                        jobs.append((t, how, m))
            for t in pruned_targets:
                for how in ('pruned-hash', 'pruned-depth'):
                    jobs.append((t, how, forge_pruned(rng, t, how)))
            for t, how, m in jobs:
                try:
                    bad_child = rebuild(child, lambda c: m if c.hash == t.hash else None)
                except rc.RefError:
                    continue
                if bad_child.get_hash(0) == H:
                    R.count('mutation_equivalent_skipped')
                    continue
                # (a) Merkle cell keeps the genuine stored hash (stale w.r.t. its new child), (b) Merkle cell recomputed
                stale = rc.RC(proof.bits, (bad_child,), rc.MPROOF, validate=False)
                fresh = rc.make_merkle_proof(bad_child)
                for variant, forged in (('stale-merkle-hash', stale), ('recomputed-merkle-hash', fresh)):
                    st3, fc = try_build(forged, rng.choice(['builder', 'boc']))
                    if st3 == 'exc':
                        R.count('forgeries_refused_at_construction')
                        R.cover('operators_check_proof', f'{how}:{variant}')
                        continue
                    self.expect_reject('check_proof', f'{how}:{variant}', lambda: cp.check_proof(fc, H), dict(W, mutation=how, forged_boc=rc.encode_boc([forged]) if len(gen.all_cells(forged)) < 40 else None))
                R.case(mon.fp('gm', H, t.hash, how, m.hash))
            # the Merkle proof cell on top is an unpruned cell of the proof like any other: its depth field (all 16 bits), its length and its reference count
            pb = proof.bits
            root_forgeries = [(f'proof-cell-depth-bit', pb[:i] + ('1' if pb[i] == '0' else '0') + pb[i + 1:], (child,)) for i in range(264, 280)]
            root_forgeries += [('proof-cell-byte-appended', pb + '00000000', (child,)), ('proof-cell-depth-field-cut', pb[:264], (child,)),
                               ('proof-cell-second-reference', pb, (child, rc.RC('1'))), ('proof-cell-no-reference', pb, ())]
            # a pruned branch that claims one more level in its mask byte than its data has slots for (built with the library's own constructors: the
            # reference cannot even hash such a cell) directly under the proof cell
            if child.type == rc.PRUNED:
                from bitarray import bitarray as _ba
                B_ = bridge.lib()
                for flip in ((14,) if child.mask & 2 == 0 else ()) + ((13,) if child.mask & 4 == 0 else ()):
                    cb = child.bits[:flip] + '1' + child.bits[flip + 1:]
                    st3, fc = mon.call(lambda: B_.Cell(_ba(pb), [B_.Cell(_ba(cb), [], rc.PRUNED)], rc.MPROOF))
                    R.cover('operators_check_proof', 'pruned-mask-claims-more-levels')
                    if st3 == 'exc':
                        R.count('forgeries_refused_at_construction')
                        R.counters['oracle_evaluations'] += 1
                        continue
                    self.expect_reject('check_proof', 'pruned-mask-claims-more-levels', lambda: cp.check_proof(fc, H), dict(W, mutation='pruned-mask', mask_bit=flip))
            for how, fbits, frefs in root_forgeries:
                for route in ('builder', 'boc'):
                    try:
                        forged = rc.RC(fbits, frefs, rc.MPROOF, validate=False)
                    except Exception:
                        R.count('forgery_not_expressible')
                        continue
                    st3, fc = try_build(forged, route)
                    R.cover('operators_check_proof', how)
                    if st3 == 'exc':
                        R.count('forgeries_refused_at_construction')
                        R.counters['oracle_evaluations'] += 1
                        continue
                    self.expect_reject('check_proof', f'{how}', lambda: cp.check_proof(fc, H), dict(W, mutation=how, route=route))

    # ---- proofs over trees that embed Merkle cells: pruning below them uses levels 2 and 3 (sparse masks)
    def nested(self, rng):
        R, cp = self.R, self.cp
        tree = nested_tree(rng, rng.choice([4, 8, 16, 30]))
        H = tree.hash
        cells = gen.all_cells(tree)
        depths = merkle_depths(tree)
        cands = [c for c in cells if c.hash != H and depths[c.hash] <= 2]
        deep = [c for c in cands if depths[c.hash] >= 1 and c.refs]
        W0 = {'tree_boc': rc.encode_boc([tree]) if len(cells) < 40 else None, 'root_hash': H, 'class': 'nested'}
        R.cover('nested_merkle_depth', max(depths.values()))
        for rep in range(4):
            pick = rng.sample(cands, rng.randint(1, min(4, len(cands)))) if cands else []
            if deep and rep < 2:
                pick.append(rng.choice(deep))          # a subtree of depth > 0 below an embedded Merkle cell
            chosen = {c.hash for c in pick}
            try:
                child = prune_deep(tree, chosen)
                proof = rc.make_merkle_proof(child)
            except rc.RefError:
                R.count('nested_reference_refused')
                continue
            if child.get_hash(0) != H or proof.mask != 0:
                R.inconc('reference-pruning-invariance-broken-nested')
                return
            masks = sorted({c.mask for c in gen.all_cells(child) if c.type == rc.PRUNED})
            for m in masks:
                R.cover('nested_pruned_masks', m)
            for route in ('builder', 'boc'):
                st, cell = try_build(proof, route)
                W = dict(W0, pruned=len(chosen), route=route, pruned_masks=masks, proof_boc=rc.encode_boc([proof]) if len(gen.all_cells(proof)) < 40 else None)
                if st == 'exc':
                    R.violation(f'honest-nested-proof-not-constructible-{route}', f'honest Merkle proof over a tree with embedded Merkle cells cannot be constructed: {cell!r}', W)
                    continue
                self.expect_accept('check_proof', lambda: cp.check_proof(cell, H), W)
                self.expect_accept('check_block_header_proof', lambda: cp.check_block_header_proof(cell[0], H), W)
                R.count('honest_nested')
            R.case(mon.fp('np', H, tuple(sorted(chosen))), sample={'cells': len(cells), 'pruned_masks': masks, 'class': 'nested'})
            st, cell = try_build(proof)
            if st == 'exc':
                continue
            W = dict(W0, pruned=len(chosen), pruned_masks=masks)
            # soundness below embedded Merkle cells: data/structure of an unpruned cell, stored hash/depth of a deep pruned branch
            jobs = []
            ords = unpruned_cells(child)
            for t in rng.sample(ords, min(4, len(ords))):
                for how in rng.sample(MUTATIONS, 2):
                    m = mutate_cell(rng, t, how)
                    if m is not None and m.hash != t.hash:
                        jobs.append((t, how, m))
            for t in [c for c in gen.all_cells(child) if c.type == rc.PRUNED][:4]:
                for how in ('pruned-hash', 'pruned-depth'):
                    try:
                        jobs.append((t, how + f'-mask{t.mask}', forge_pruned(rng, t, how)))
                    except rc.RefError:
                        pass
            for t, how, m in jobs:
                try:
                    bad_child = rebuild_deep(child, t.hash, m)
                    if bad_child.get_hash(0) == H:
                        R.count('mutation_equivalent_skipped')
                        continue
                    stale = rc.RC(proof.bits, (bad_child,), rc.MPROOF, validate=False)
                    fresh = rc.make_merkle_proof(bad_child)
                except rc.RefError:
                    R.count('nested_forgery_invalid_in_reference')
                    continue
                for variant, forged in (('stale-merkle-hash', stale), ('recomputed-merkle-hash', fresh)):
                    st3, fc = try_build(forged, rng.choice(['builder', 'boc']))
                    if st3 == 'exc':
                        R.count('forgeries_refused_at_construction')
                        continue
                    Wf = dict(W, mutation=how, forged_boc=rc.encode_boc([forged]) if len(gen.all_cells(forged)) < 40 else None)
                    self.expect_reject('check_proof', f'nested:{how.split("-mask")[0]}:{variant}', lambda: cp.check_proof(fc, H), Wf)
                    self.expect_reject('check_block_header_proof', f'nested:{how.split("-mask")[0]}', lambda: cp.check_block_header_proof(fc[0], H), Wf)
                R.case(mon.fp('nm', H, t.hash, how, m.hash))

    # ---- block header proofs
    def block(self, rng, state_new=None, state_old=None):
        """block-shaped tree: >= 4 refs, ref 2 a Merkle update whose children are level-1 pruned branches (as in real blocks)"""
        state_new = state_new or ordinary_tree(rng, rng.choice([3, 10]))
        state_old = state_old or ordinary_tree(rng, rng.choice([3, 10]))
        upd = rc.make_merkle_update(rc.make_pruned(state_old, 1) if rng.random() < 0.6 else state_old, rc.make_pruned(state_new, 1))
        info = ordinary_tree(rng, rng.choice([1, 4]))
        vflow = ordinary_tree(rng, rng.choice([1, 3]))
        extra = ordinary_tree(rng, rng.choice([1, 6, 20]))
        root = rc.RC('00010001111011111010101010101010' + rc.u(rng.getrandbits(32), 32), [info, vflow, upd, extra])
        return root, state_new

    def header(self, rng):
        R, cp = self.R, self.cp
        block, state_new = self.block(rng)
        H = block.hash
        keep = {block.refs[2].hash} | {x.hash for x in block.refs[2].refs}
        cands = [c for c in prunable(block) if c.hash not in keep and c.type == rc.ORD]
        for _ in range(3):
            chosen = set(c.hash for c in rng.sample(cands, rng.randint(0, len(cands)))) if cands else set()
            # prune_deep: cells of an unpruned old state sit below the Merkle update and are pruned at level 2
            child = prune_deep(block, chosen)
            if child.get_hash(0) != H:
                R.inconc('reference-pruning-invariance-broken-header')
                return
            for m in {c.mask for c in gen.all_cells(child) if c.type == rc.PRUNED}:
                R.cover('header_pruned_masks', m)
            W = {'block_boc': rc.encode_boc([block]) if len(gen.all_cells(block)) < 60 else None, 'pruned': len(chosen)}
            st, cell = try_build(child, rng.choice(['builder', 'boc']))
            if st == 'exc':
                R.violation('honest-header-proof-not-constructible', f'{cell!r}', W)
                continue
            self.expect_accept('check_block_header_proof', lambda: cp.check_block_header_proof(cell, H), W)
            got = self.expect_accept('check_block_header_proof', lambda: cp.check_block_header_proof(cell, H, True), W)
            if got is not None:
                R.check(got == state_new.hash, 'header-proof-state-hash', 'state hash returned by check_block_header_proof is not the new state of the Merkle update', W)
            # via the Merkle proof cell, as a lite-server sends it
            st, pc = try_build(rc.make_merkle_proof(child), 'boc')
            if st == 'ok':
                self.expect_accept('check_block_header_proof', lambda: (cp.check_proof(pc, H), cp.check_block_header_proof(pc[0], H, True)), W)
            R.case(mon.fp('hp', H, tuple(sorted(chosen))))
            # soundness
            other = bytearray(H)
            other[rng.randrange(32)] ^= 1 << rng.randrange(8)
            self.expect_reject('check_block_header_proof', 'other-hash-one-bit', lambda: cp.check_block_header_proof(cell, bytes(other), True), W)
            for t in rng.sample(unpruned_cells(child), min(4, len(unpruned_cells(child)))):
                for how in rng.sample(MUTATIONS, 3):
                    m = mutate_cell(rng, t, how)
                    if m is None or m.hash == t.hash:
                        continue
                    try:
                        bad = rebuild(child, lambda c: m if c.hash == t.hash else None)
                    except rc.RefError:
                        continue
                    if bad.get_hash(0) == H:
                        continue
                    st2, bc = try_build(bad)
                    if st2 == 'ok':
                        self.expect_reject('check_block_header_proof', how, lambda: cp.check_block_header_proof(bc, H, True), dict(W, mutation=how))
            # another state in the update
            block2, _ = self.block(rng, state_new=ordinary_tree(rng, 4))
            st2, b2 = try_build(block2)
            if st2 == 'ok':
                self.expect_reject('check_block_header_proof', 'other-block', lambda: cp.check_block_header_proof(b2, H, True), W)

    # ---- account proofs
    def gen_account(self, rng, addr_hash, kind):
        if kind == 'none':
            return None
        state = {'_': 'account_uninit'}
        if kind == 'frozen':
            state = {'_': 'account_frozen', 'state_hash': rng.randbytes(32)}
        elif kind == 'active':
            si = {'code': rc.RC(gen.rand_bits(rng, 80), [rc.RC(gen.rand_bits(rng, 33))]), 'data': rc.RC(gen.rand_bits(rng, rng.choice([0, 321])))}
            if rng.random() < 0.3:
                si['split_depth'] = rng.randrange(32)
            if rng.random() < 0.3:
                si['special'] = {'tick': rng.random() < 0.5, 'tock': rng.random() < 0.5}
            if rng.random() < 0.3:
                si['library'] = rc.RC(gen.rand_bits(rng, 20))
            state = {'_': 'account_active', 'state_init': si}
        return {'addr': {'workchain_id': 0, 'address': addr_hash},
                'storage_stat': {'used': {'cells': rng.randrange(1000), 'bits': rng.randrange(100000), 'public_cells': 0}, 'last_paid': rng.getrandbits(32),
                                 'due_payment': rng.choice([None, rng.getrandbits(40)])},
                'storage': {'last_trans_lt': rng.getrandbits(63), 'balance': self.gen_balance(rng), 'state': state}}

    def gen_balance(self, rng):
        bal = {'grams': rng.getrandbits(rng.choice([0, 30, 62]))}
        if self.extra_currencies and rng.random() < 0.5:
            # extra currencies: the account's balance - and with it the DepthBalanceInfo augmentation of its dictionary leaf and of every
            # fork above it - carries a dictionary reference (the leaf then holds that reference *before* the account reference)
            bal['other'] = {rng.choice([1, 239, 0xFFFFFFEF, rng.getrandbits(32)]): rng.getrandbits(rng.choice([1, 30, 200])) + 1
                            for _ in range(rng.randint(1, 3))}
        return bal

    def shard_state(self, rng, accounts):
        s = {'global_id': -239, 'shard_id': {'shard_pfx_bits': 0, 'workchain_id': 0, 'shard_prefix': 1 << 63}, 'seq_no': rng.getrandbits(31), 'vert_seq_no': 0,
             'gen_utime': rng.getrandbits(31), 'gen_lt': rng.getrandbits(62), 'min_ref_mc_seqno': rng.getrandbits(31),
             'out_msg_queue_info': ordinary_tree(rng, 3), 'before_split': 0, 'accounts': accounts,
             'overload_history': rng.getrandbits(64), 'underload_history': rng.getrandbits(64),
             'total_balance': {'grams': sum((a['account'] or {'storage': {'balance': {'grams': 0}}})['storage']['balance']['grams'] for a in accounts.values()),
                               'other': self.sum_other(accounts)},
             'total_validator_fees': {'grams': rng.getrandbits(30)},
             'master_ref': {'master': {'end_lt': rng.getrandbits(63), 'seq_no': rng.getrandbits(31), 'root_hash': rng.randbytes(32), 'file_hash': rng.randbytes(32)}}}
        return T.cell_of(T.enc_shard_state_unsplit, s)

    @staticmethod
    def sum_other(accounts):
        tot = {}
        for a in accounts.values():
            for k, v in ((a['account'] or {}).get('storage', {}).get('balance', {}).get('other') or {}).items():
                tot[k] = tot.get(k, 0) + v
        return tot

    def account(self, rng, quick):
        from pytoniq_core.boc import Cell
        from pytoniq_core.boc.address import Address
        from pytoniq_core.tl.block import BlockIdExt
        R, cp = self.R, self.cp
        n = rng.choice([1, 2, 5, 12] if quick else [1, 2, 5, 12, 50])
        ids = [rng.randbytes(32) for _ in range(n)]
        kind = rng.choice(['uninit', 'frozen', 'active', 'active', 'none'])
        accounts = {}
        for i, h in enumerate(ids):
            k = kind if i == 0 else rng.choice(['uninit', 'frozen', 'active'])
            accounts[int.from_bytes(h, 'big')] = {'account': self.gen_account(rng, h, k), 'last_trans_hash': rng.randbytes(32), 'last_trans_lt': rng.getrandbits(63)}
        me = ids[0]
        acc_cell = T.cell_of(T.enc_account, accounts[int.from_bytes(me, 'big')]['account'])
        state = self.shard_state(rng, accounts)
        block, _ = self.block(rng, state_new=state)
        # honest pruning of the state: everything except the path to our account
        acc_dict_root = state.refs[1]
        prune_acc = rng.random() < 0.6 and kind != 'none'
        marker = {h: rc.bytes_to_bits(accounts[int.from_bytes(h, 'big')]['last_trans_hash']) for h in ids}      # unique per dictionary leaf

        def state_proof_for(target, prune_target_account, p_branch=0.5):
            """(pruned state, ids whose dictionary branch was pruned away): account cells of other accounts, whole sibling branches of the dictionary
            path to `target`, the out-queue and the tail cell are replaced by pruned branches at random"""
            reach = {}

            def reaches(c, mk):
                k = (c.hash, mk)
                if k not in reach:
                    reach[k] = (c.type == rc.ORD and mk in c.bits) or any(reaches(x, mk) for x in c.refs if x.type == rc.ORD)
                return reach[k]
            chosen, gone = set(), set()
            node = acc_dict_root.refs[0] if acc_dict_root.refs else None
            while node is not None and marker[target] not in node.bits:
                nxt = None
                for ch in node.refs[:2]:
                    if reaches(ch, marker[target]):
                        nxt = ch
                    elif rng.random() < p_branch:
                        chosen.add(ch.hash)
                        gone.update(o for o in ids if o != target and reaches(ch, marker[o]))
                node = nxt
            for other in ids:
                if other != target and other not in gone and rng.random() < 0.7:
                    chosen.add(T.cell_of(T.enc_account, accounts[int.from_bytes(other, 'big')]['account']).hash)
            if rng.random() < 0.8:
                chosen.add(state.refs[0].hash)        # out_msg_queue_info
            if rng.random() < 0.6:
                chosen.add(state.refs[2].hash)        # ^[ overload_history ... ]
            else:
                # the group is kept, but the dictionaries that hang off it (extra currencies of total_balance / total_validator_fees) are pruned at their roots
                for x in state.refs[2].refs:
                    chosen.add(x.hash)
                    R.count('dictionary_roots_pruned')
            tc = T.cell_of(T.enc_account, accounts[int.from_bytes(target, 'big')]['account'])
            if prune_target_account:
                chosen.add(tc.hash)
            chosen.discard(tc.hash) if not prune_target_account else None
            return prune(state, chosen), gone
        state_child, gone_ids = state_proof_for(me, prune_acc)
        R.count('dictionary_branches_pruned', len(gone_ids))
        bkeep = {block.refs[2].hash} | {x.hash for x in block.refs[2].refs}
        bcands = [c for c in prunable(block) if c.hash not in bkeep and c.type == rc.ORD]
        block_child = prune(block, set(c.hash for c in rng.sample(bcands, rng.randint(0, len(bcands)))))
        bp, sp = rc.make_merkle_proof(block_child), rc.make_merkle_proof(state_child)
        proof = rc.encode_boc([bp, sp], has_idx=rng.random() < 0.5, has_crc=rng.random() < 0.5)
        blk = BlockIdExt(0, -(1 << 63), 5, block.hash, rng.randbytes(32))
        addr = Address((0, me))
        W = {'accounts': n, 'account_kind': kind, 'account_pruned_in_proof': prune_acc, 'proof_boc': proof if len(proof) < 3000 else None,
             'account_boc': rc.encode_boc([acc_cell]), 'block_hash': block.hash, 'address': me}
        st, acc_lib = try_build(acc_cell)
        if st == 'exc':
            R.violation('account-cell-not-constructible', f'{acc_lib!r}', W)
            return
        got = self.expect_accept('check_account_proof', lambda: cp.check_account_proof(proof, blk, addr, acc_lib, True), W)
        self.expect_accept('check_account_proof', lambda: cp.check_account_proof(proof, blk, addr, acc_lib), W)
        if got is not None:
            R.check(got.last_trans_lt == accounts[int.from_bytes(me, 'big')]['last_trans_lt'] and got.last_trans_hash == accounts[int.from_bytes(me, 'big')]['last_trans_hash'],
                    'account-descr-returned', 'returned shard account descriptor is not the one stored under the address', W)
        R.cover('account_kinds', kind)
        R.cover('account_pruned', prune_acc)
        R.case(mon.fp('ap', block.hash, me), sample={k: W[k] for k in ('accounts', 'account_kind', 'account_pruned_in_proof')})
        # ---------------- several accounts of one state, each proof pruned for its own account, checked one after the other (and the first again)
        if n > 1:
            seq = [ids[1], ids[-1], me]
            for tgt in seq:
                kind_t = 'none' if accounts[int.from_bytes(tgt, 'big')]['account'] is None else 'other'
                child_t, _ = state_proof_for(tgt, rng.random() < 0.5 and kind_t != 'none')
                proof_t = rc.encode_boc([bp, rc.make_merkle_proof(child_t)])
                st_t, lib_t = try_build(T.cell_of(T.enc_account, accounts[int.from_bytes(tgt, 'big')]['account']))
                if st_t != 'ok':
                    continue
                got_t = self.expect_accept('check_account_proof', lambda: cp.check_account_proof(proof_t, blk, Address((0, tgt)), lib_t, True),
                                           dict(W, sequence='proofs for several accounts of one state in a row', target=tgt, proof_boc=proof_t if len(proof_t) < 3000 else None))
                if got_t is not None:
                    R.check(got_t.last_trans_hash == accounts[int.from_bytes(tgt, 'big')]['last_trans_hash'], 'account-descr-returned-in-sequence',
                            'descriptor returned for the second/third account of one state is not the one stored under its address', dict(W, target=tgt))
                R.count('same_state_sequences')
        # ---------------- forgeries
        me_bal = accounts[int.from_bytes(me, 'big')]['account']
        R.cover('account_extra_currencies', bool(me_bal and me_bal['storage']['balance'].get('other')))
        R.cover('state_extra_currencies', bool(self.sum_other(accounts)))
        real = cp.check_account_proof

        class _BothFlags:
            # every forgery is presented with return_account_descr = False and = True: the flag selects what is returned, not what is checked
            @staticmethod
            def check_account_proof(*a):
                flag = _BothFlags.flag
                R.count(f'forgery_flag_{flag}')
                return real(*a, flag) if len(a) == 4 else real(*a)

        def rej(op, f, **kw):
            for flag in (False, True):
                _BothFlags.flag = flag
                self.expect_reject('check_account_proof', op + (':return_account_descr' if flag else ''), f, dict(W, return_account_descr=flag, **kw))
        cp_real, cp = cp, _BothFlags
        H = acc_cell.hash
        # (1) claimed account state whose own hash is not the committed one
        st2, pruned_claim = try_build(rc.make_pruned(acc_cell, 1))
        if st2 == 'ok':
            rej('claimed-state-is-pruned-branch-carrying-hash', lambda: cp.check_account_proof(proof, blk, addr, pruned_claim))
        if acc_cell.refs:
            inner = prune(acc_cell, {acc_cell.refs[0].hash})
            st2, partly = try_build(inner)
            if st2 == 'ok' and inner.hash != H:
                rej('claimed-state-has-pruned-subtree', lambda: cp.check_account_proof(proof, blk, addr, partly))
        other_acc = self.gen_account(rng, me, 'uninit' if kind != 'uninit' else 'frozen')
        st2, oc = try_build(T.cell_of(T.enc_account, other_acc))
        if st2 == 'ok':
            rej('claimed-state-other-account', lambda: cp.check_account_proof(proof, blk, addr, oc))
        if acc_cell.bits:
            m = mutate_cell(rng, acc_cell, 'flip-bit')
            st2, mc = try_build(m)
            if st2 == 'ok':
                rej('claimed-state-one-bit-changed', lambda: cp.check_account_proof(proof, blk, addr, mc))
        st2, mp = try_build(rc.make_merkle_proof(rc.make_pruned(acc_cell, 1)))
        if st2 == 'ok':
            rej('claimed-state-is-merkle-proof-of-it', lambda: cp.check_account_proof(proof, blk, addr, mp))
        # (1b) the empty cell as claimed state: for this account, and for an account whose dictionary branch the proof has pruned away
        st2, empty = try_build(rc.RC(''))
        if st2 == 'ok':
            rej('claimed-state-is-empty-cell', lambda: cp.check_account_proof(proof, blk, addr, empty))
            for g in sorted(gone_ids)[:2]:
                rej('claimed-empty-cell-for-account-in-pruned-branch', lambda: cp.check_account_proof(proof, blk, Address((0, g)), empty), other_address=g)
                st3, gl = try_build(T.cell_of(T.enc_account, accounts[int.from_bytes(g, 'big')]['account']))
                if st3 == 'ok':
                    rej('true-state-of-account-in-pruned-branch', lambda: cp.check_account_proof(proof, blk, Address((0, g)), gl), other_address=g)
        # (2) state root that does not match the block's update
        accounts2 = dict(accounts)
        k0 = int.from_bytes(me, 'big')
        accounts2[k0] = dict(accounts[k0], account=other_acc)
        state2 = self.shard_state(rng, accounts2)
        sp2 = rc.make_merkle_proof(state2)
        proof2 = rc.encode_boc([bp, sp2])
        if st2 == 'ok':
            rej('state-not-committed-by-block', lambda: cp.check_account_proof(proof2, blk, addr, oc))
        # stale Merkle cell in front of the forged state (claims the committed hash, holds another tree)
        sp3 = rc.RC(sp.bits, (state2,), rc.MPROOF, validate=False)
        try:
            proof3 = rc.encode_boc([bp, sp3])
            rej('state-proof-cell-with-stale-hash', lambda: cp.check_account_proof(proof3, blk, addr, oc))
        except rc.RefError:
            pass
        # (3) other block id / other address / wrong number of roots
        blk2 = BlockIdExt(0, -(1 << 63), 5, rng.randbytes(32), blk.file_hash)
        rej('other-block-root-hash', lambda: cp.check_account_proof(proof, blk2, addr, acc_lib))
        rej('address-not-in-state', lambda: cp.check_account_proof(proof, blk, Address((0, rng.randbytes(32))), acc_lib))
        if n > 1:
            rej('address-of-another-account', lambda: cp.check_account_proof(proof, blk, Address((0, ids[1])), acc_lib))
        rej('one-root-only', lambda: cp.check_account_proof(rc.encode_boc([bp]), blk, addr, acc_lib))
        rej('three-roots', lambda: cp.check_account_proof(rc.encode_boc([bp, sp, sp]), blk, addr, acc_lib))
        rej('roots-swapped', lambda: cp.check_account_proof(rc.encode_boc([sp, bp]), blk, addr, acc_lib))
        # (3b) roots that are not Merkle proof cells: ordinary cells holding the same children, the bare children, a Merkle update in place of a proof
        for rname, mk in (('ordinary-wrapper', lambda x: rc.RC('', (x.refs[0],))), ('ordinary-wrapper-with-proof-bits', lambda x: rc.RC(x.bits, (x.refs[0],))),
                          ('merkle-update', lambda x: rc.make_merkle_update(x.refs[0], x.refs[0]))):
            for which in ('block', 'state', 'both'):
                try:
                    r0 = mk(bp) if which in ('block', 'both') else bp
                    r1 = mk(sp) if which in ('state', 'both') else sp
                    forged_proof = rc.encode_boc([r0, r1])
                except Exception:
                    R.count('forgery_not_expressible')
                    continue
                rej(f'root-not-merkle-proof:{rname}:{which}', lambda: cp.check_account_proof(forged_proof, blk, addr, acc_lib))
        # (4) a bit of an unpruned cell of the state proof changed (Merkle cell recomputed)
        for t in rng.sample(unpruned_cells(state_child), min(3, len(unpruned_cells(state_child)))):
            m = mutate_cell(rng, t, rng.choice(['flip-bit', 'swap-refs', 'drop-bit']))
            if m is None or m.hash == t.hash:
                continue
            try:
                bad = rebuild(state_child, lambda c: m if c.hash == t.hash else None)
                p4 = rc.encode_boc([bp, rc.make_merkle_proof(bad)])
            except rc.RefError:
                continue
            if bad.get_hash(0) == state.hash:
                continue
            rej('state-proof-cell-mutated', lambda: cp.check_account_proof(p4, blk, addr, acc_lib))


def _shard_proof_method(self, rng, quick):
    """check_shard_proof (the fourth checker of the module, built on the block-header check): a masterchain block whose state update commits to a masterchain state
    whose ShardHashes list a shard block.  Block and state are encoded by the reference from block.tlb (BlockInfo, ShardStateUnsplit + McStateExtra + BinTree ShardDescr),
    pruned the way a lite server prunes them, and must be accepted; ten forgeries must be rejected."""
    from pytoniq_core.tl.block import BlockIdExt
    from lib import tlbspec as S
    from checks import c16_tlb_parsers as c16
    R, cp = self.R, self.cp
    g = S.G(rng)
    g.small = True
    # ---- the shard blocks the masterchain state knows about: workchain 0, a BinTree of 1..4 ShardDescr leaves
    nleaves = rng.choice([1, 2, 3, 4])
    descrs = [g.value(S.t('ShardDescr')) for _ in range(nleaves)]
    shape = rng.choice(c16.tree_shapes(nleaves))
    it = iter(descrs)

    def build(sh):
        w = T.W()
        if sh is None:
            w.u(0, 1)
            S.enc(w, S.t('ShardDescr'), next(it))
        else:
            w.u(1, 1).ref(build(sh[0])).ref(build(sh[1]))
        return w.cell()
    tree = build(shape)
    target = rng.choice(descrs)
    # ---- McStateExtra
    w = T.W()
    w.u(0xcc26, 16)
    T.enc_hashmap_e(w, {0: tree}, 32, lambda vw, x: vw.ref(x))
    w.bytes(rng.randbytes(32)).ref(T.hashmap({0: rc.RC('1')}, 32, lambda vw, x: vw.ref(x)))

    def inner(iw):
        iw.u(0, 16)
        S.enc(iw, S.t('ValidatorInfo'), g.value(S.t('ValidatorInfo')))
        iw.u(0, 1)
        S.enc(iw, S.t('KeyMaxLt'), {'_': 'key_max_lt', 'key': False, 'max_end_lt': 0})        # prev_blocks: empty HashmapAugE + its root extra
        iw.bool(rng.random() < 0.5)
        T.enc_maybe(iw, None, lambda mw, x: None)
    w.sub(inner)
    T.enc_currency_collection(w, {'grams': rng.getrandbits(60), 'other': {}})
    custom = w.cell()
    seqno = rng.getrandbits(31)
    st_dict = {'global_id': -239, 'shard_id': {'shard_pfx_bits': 0, 'workchain_id': -1, 'shard_prefix': 1 << 63}, 'seq_no': seqno, 'vert_seq_no': 0,
               'gen_utime': rng.getrandbits(31), 'gen_lt': rng.getrandbits(62), 'min_ref_mc_seqno': rng.getrandbits(31), 'out_msg_queue_info': ordinary_tree(rng, 3),
               'before_split': 0, 'accounts': {}, 'overload_history': 0, 'underload_history': 0, 'total_balance': {'grams': 0, 'other': {}},
               'total_validator_fees': {'grams': 0}, 'master_ref': None, 'custom_cell': custom}
    state = T.cell_of(T.enc_shard_state_unsplit, st_dict)
    ext = lambda: g.value(S.t('ExtBlkRef'))
    b = {'version': 0, 'not_master': 0, 'after_merge': 0, 'before_split': 0, 'after_split': 0, 'want_split': False, 'want_merge': False, 'key_block': False, 'vert_seqno_incr': 0,
         'flags': 0, 'seq_no': seqno, 'vert_seq_no': 0, 'shard': {'_': 'shard_ident', 'shard_pfx_bits': 0, 'workchain_id': -1, 'shard_prefix': 1 << 63}, 'gen_utime': g.uint(32),
         'start_lt': g.uint(64), 'end_lt': g.uint(64), 'gen_validator_list_hash_short': g.uint(32), 'gen_catchain_seqno': g.uint(32), 'min_ref_mc_seqno': g.uint(32),
         'prev_key_block_seqno': g.uint(32), 'gen_software': None, 'master_ref': None, 'prev_ref': {'prev': ext()}, 'prev_vert_ref': None}
    iw = T.W()
    c16.enc_block_info(iw, b)
    info = iw.cell()

    def mk_block(info_cell, new_state):
        upd = rc.make_merkle_update(rc.make_pruned(ordinary_tree(rng, 3), 1), rc.make_pruned(new_state, 1))
        return rc.RC(format(0x11ef55aa, '032b') + rc.u(rng.getrandbits(32), 32), [info_cell, ordinary_tree(rng, 3), upd, ordinary_tree(rng, 5)])   # block#11ef55aa global_id:int32
    block = mk_block(info, state)

    def proof_of(block_r, state_r, prune_more=True):
        # the block keeps its info and its state update; value flow and extra are pruned.  The state keeps the path to the ShardHashes; the rest may be pruned
        bchild = prune(block_r, {block_r.refs[1].hash, block_r.refs[3].hash})
        chosen = {state_r.refs[0].hash, state_r.refs[1].hash, state_r.refs[2].hash} if prune_more else set()
        schild = prune(state_r, chosen)
        return rc.encode_boc([rc.make_merkle_proof(bchild), rc.make_merkle_proof(schild)], has_idx=rng.random() < 0.5, has_crc=rng.random() < 0.5)
    blk = BlockIdExt(-1, -(1 << 63), seqno, block.hash, rng.randbytes(32))
    shrd = BlockIdExt(0, -(1 << 63), target['seq_no'], target['root_hash'], target['file_hash'])
    W = {'leaves': nleaves, 'shape': repr(shape), 'block_hash': block.hash, 'shard_root_hash': target['root_hash']}
    for pm in (True, False):
        proof = proof_of(block, state, pm)
        got = self.expect_accept('check_shard_proof', lambda: cp.check_shard_proof(proof, blk, shrd), dict(W, proof_boc=proof if len(proof) < 4000 else None, state_mostly_pruned=pm))
        if got is not None:
            R.check(any(getattr(x, 'root_hash', None) == target['root_hash'] for x in getattr(got, 'list', [])), 'shard-descr-returned',
                    'check_shard_proof returned something that does not hold the shard block it was asked about', W)
    self.expect_accept('check_shard_proof', lambda: cp.check_shard_proof(b'', blk, blk), dict(W, same_block=True))       # the block itself: nothing to prove
    proof = proof_of(block, state)
    other_state = T.cell_of(T.enc_shard_state_unsplit, dict(st_dict, gen_lt=st_dict['gen_lt'] ^ 1))
    other_info_w = T.W()
    c16.enc_block_info(other_info_w, dict(b, seq_no=(seqno + 1) & 0x7fffffff))
    block_other_seq = mk_block(other_info_w.cell(), state)
    forgeries = [
        ('block-hash-other', lambda: cp.check_shard_proof(proof, BlockIdExt(-1, -(1 << 63), seqno, rng.randbytes(32), blk.file_hash), shrd)),
        ('block-not-masterchain', lambda: cp.check_shard_proof(proof, BlockIdExt(0, -(1 << 63), seqno, block.hash, blk.file_hash), shrd)),
        ('block-seqno-other', lambda: cp.check_shard_proof(proof, BlockIdExt(-1, -(1 << 63), (seqno + 1) & 0x7fffffff, block.hash, blk.file_hash), shrd)),
        ('block-info-seqno-other', lambda: cp.check_shard_proof(proof_of(block_other_seq, state), BlockIdExt(-1, -(1 << 63), seqno, block_other_seq.hash, blk.file_hash), shrd)),
        ('state-of-another-block', lambda: cp.check_shard_proof(proof_of(block, other_state), blk, shrd)),
        ('shard-root-hash-unknown', lambda: cp.check_shard_proof(proof, blk, BlockIdExt(0, -(1 << 63), target['seq_no'], rng.randbytes(32), target['file_hash']))),
        ('shard-workchain-unknown', lambda: cp.check_shard_proof(proof, blk, BlockIdExt(7, -(1 << 63), target['seq_no'], target['root_hash'], target['file_hash']))),
        ('one-root', lambda: cp.check_shard_proof(rc.encode_boc([rc.make_merkle_proof(prune(block, {block.refs[1].hash}))]), blk, shrd)),
        ('three-roots', lambda: cp.check_shard_proof(rc.encode_boc([rc.make_merkle_proof(prune(block, {block.refs[1].hash})), rc.make_merkle_proof(state), rc.RC('1')]), blk, shrd)),
        ('roots-swapped', lambda: cp.check_shard_proof(rc.encode_boc([rc.make_merkle_proof(state), rc.make_merkle_proof(prune(block, {block.refs[1].hash}))]), blk, shrd)),
    ]
    for op, f in forgeries:
        self.expect_reject('check_shard_proof', op, f, dict(W, operator=op))
    R.case(mon.fp('shardproof', block.hash, state.hash))


Proofs.shard_proof = _shard_proof_method


def run(R):
    rng = R.rng
    quick = R.tier == 'quick'
    R.rule = ('generic: random ordinary DAGs (<= 60 cells) x prunings (every subset of subtrees for trees with <= 6 prunable cells, random otherwise, and "everything '
              'pruned"), honest proof built by the reference and checked through both construction routes; forgeries by operator: other expected hash, root that is not a '
              'Merkle proof (child itself, pruned branch / library cell carrying the hash, Merkle update, ordinary parent), every data-bit flip of small unpruned cells and '
              '7 structural mutations, substituted pruned hash / depth - each with the Merkle cell left stale and recomputed. Block-header proofs on block-shaped trees '
              '(ref 2 a Merkle update). Account proofs: reference-encoded ShardStateUnsplit with 1..50 accounts (none/uninit/frozen/active), block committing to it, '
              '16 forgery operators incl. a pruned-branch cell carrying the committed hash, each with return_account_descr False and True; balances with and without '
              'extra currencies (dictionary reference inside the DepthBalanceInfo augmentation). Nested: trees embedding Merkle proof/update cells, subtrees below them pruned '
              'at levels 2-3 (masks 0b010, 0b100, ORed), honest proofs accepted, mutations below embedded Merkle cells rejected. distinct = distinct (tree, pruning) / (tree, mutation); non-trivial = all')
    R.assumptions = ['R1/R3 reference models (lib/refcell.py, lib/tlbref.py) written from the specs', 'a forgery the library refuses to construct counts as rejected',
                     'forgery classes outside the listed operators are not covered']
    P = Proofs(R)
    inv = bridge.CellInvariant(R).install()
    try:
        ntrees = (14 if quick else 400) // R.nshards + 1
        for i in range(ntrees):
            n = rng.choice([1, 2, 3, 4, 6, 10, 25] if quick else [1, 2, 3, 4, 5, 6, 10, 25, 60])
            P.generic(rng, ordinary_tree(rng, n), exhaustive=True)
        for i in range((30 if quick else 1500) // R.nshards + 1):
            P.nested(rng)
        for i in range((10 if quick else 200) // R.nshards + 1):
            P.header(rng)
        for i in range((25 if quick else 600) // R.nshards + 1):
            P.account(rng, quick)
        for i in range((12 if quick else 300) // R.nshards + 1):
            P.shard_proof(rng, quick)
    finally:
        inv.uninstall()
    R.floor('honest_check_proof', 100)
    R.floor('honest_check_block_header_proof', 20)
    R.floor('honest_nested', 40)
    R.floor('nested_pruned_masks', 3, 'set')          # level-2 / level-3 pruned branches (sparse masks) must have occurred
    R.floor('forgery_flag_True', 100)
    R.floor('same_state_sequences', 20)
    R.floor('dictionary_branches_pruned', 10)
    R.floor('account_extra_currencies', 2, 'set')
    R.floor('honest_check_account_proof', 20)
    R.floor('honest_check_shard_proof', 20)
    R.floor('operators_check_shard_proof', 10, 'set')
    R.floor('forgery_check_proof', 300)
    R.floor('forgery_check_account_proof', 100)
    R.floor('operators_check_account_proof', 12, 'set')
    R.floor('operators_check_proof', 12, 'set')


def replay(R, w, rec):
    import importlib
    cp = importlib.import_module('pytoniq_core.proof.check_proof')
    from pytoniq_core.boc import Cell
    from pytoniq_core.boc.address import Address
    from pytoniq_core.tl.block import BlockIdExt
    R.case(None)
    key = rec.get('key', '')
    if 'claimed-state-is-pruned-branch-carrying-hash' in key and w.get('proof_boc'):
        acc = rc.decode_boc(w['account_boc'])['roots'][0]
        claim = bridge.to_lib(rc.make_pruned(acc, 1))
        blk = BlockIdExt(0, -(1 << 63), 5, w['block_hash'], bytes(32))
        st, e = mon.call(cp.check_account_proof, w['proof_boc'], blk, Address((0, w['address'])), claim)
        R.check(st == 'exc', key, 'replay: pruned-branch claim still accepted', w)
    elif w.get('forged_boc'):
        cell = Cell.one_from_boc(w['forged_boc'])
        st, e = mon.call(cp.check_proof, cell, w['root_hash'])
        R.check(st == 'exc', key, 'replay: forged proof still accepted', w)
    else:
        R.inconc('replay-not-supported-for-this-witness')

"""C14 - TL serialisation inverts TL parsing and follows TL framing for the bundled schemas; block-id helpers are lossless and hashable."""
from lib import mon, tlref

SHARDS = 16
SHARD_TIMEOUT = 3600


class Gen:
    """well-typed values in the canonical forms the library's parser returns"""

    def __init__(self, codec, rng, known_ids):
        self.c, self.rng, self.known = codec, rng, known_ids
        self.known_sorted = sorted(known_ids)
        self.stats = {}
        self.untouchable = set()
        self.raw_field = False

    def note(self, k):
        self.stats[k] = self.stats.get(k, 0) + 1

    text_ids = ()

    def opaque(self, n):
        while True:
            b = self.rng.randbytes(n)
            if b[:4] not in self.known:
                return b

    def length(self, depth=0):
        r = self.rng.random()
        if r < 0.6 or depth > 2:
            return self.rng.choice([0, 1, 2, 3, 4, 5, 7, 8, 12, 31, 32, 33])
        if r < 0.97 or depth > 0:
            return self.rng.choice([250, 251, 252, 253, 254, 255, 256, 257, 258, 300])
        return self.rng.choice([1000, 65535, 65536, 65537, 65540])

    def value(self, t, depth, auto):
        rng = self.rng
        if t == '#':
            self.note('#')
            return rng.choice([0, 1, 2, 255, 2 ** 31 - 1, 2 ** 31, 2 ** 32 - 1, rng.getrandbits(32)])
        if t == 'int':
            return rng.choice([0, 1, -1, 2 ** 31 - 1, -2 ** 31, rng.randrange(-2 ** 31, 2 ** 31)])
        if t == 'long':
            return rng.choice([0, 1, -1, 2 ** 63 - 1, -2 ** 63, rng.randrange(-2 ** 63, 2 ** 63)])
        if t in ('int128', 'int256'):
            n = tlref.BASE[t]
            return rng.choice([bytes(n), b'\xff' * n, rng.randbytes(n), b'\x80' + bytes(n - 1), bytes(n - 1) + b'\x01']).hex()
        if t == 'Bool':
            return rng.random() < 0.5
        if t == 'true':
            return {'@type': 'true'}
        if t == 'string':
            n = self.length(depth)
            self.note(f'string-len-{"short" if n <= 253 else "long"}')
            s = ''.join(rng.choice('abcXYZ 019_-é漢') for _ in range(n))
            if n >= 4 and self.text_ids and rng.random() < 0.08:
                # a text that happens to begin with the four characters of a registered constructor id: it is text all the same (a `string` field never holds an object)
                self.note('string-begins-with-constructor-id')
                s = rng.choice(self.text_ids) + s[4:]
            return s
        if t == 'bytes':
            if auto and depth < 3 and rng.random() < 0.25 and not self.raw_field:
                self.note('bytes-nested-object')
                return self.object_of_any_class(depth + 1, auto)
            n = self.length(depth)
            self.note(f'bytes-len-{"short" if n <= 253 else "long"}')
            if (self.raw_field or not auto) and rng.random() < 0.35:
                # opaque by declaration (an "untouchable" field) or by mode (auto_deserialize off): bytes that begin with a registered constructor id, or that
                # ARE a complete encoded object, stay bytes there - only the ambiguous case (auto mode, ordinary field) is steered around
                self.note('bytes-looking-like-an-object-where-they-must-stay-bytes')
                if rng.random() < 0.5 and depth < 3:
                    was = self.raw_field
                    inner = self.object_of_any_class(depth + 1, False)
                    self.raw_field = was
                    return self.c.encode(inner)
                return rng.choice(self.known_sorted) + rng.randbytes(max(0, n - 4))
            return self.opaque(n)
        if t.startswith('('):
            sub = t[1:-1].split(' ', 1)[1].strip()
            n = rng.choice([0, 1, 2, 3, 5] if depth else [0, 1, 2, 3, 5, 50])
            self.note('vector')
            return [self.value(sub, depth + 1, auto) for _ in range(n)]
        if t in self.c.by_name:
            return self.obj(self.c.by_name[t], depth + 1, auto)
        if t in self.c.by_class:
            alts = [c for c in self.c.by_class[t] if self.c.ctor_supported(c.name)[0]]
            if depth >= 3:
                flat = [c for c in alts if all(ft in tlref.BASE or ft in ('Bool', 'string', 'bytes', 'true') or '?' in ft for _, ft in c.fields)]
                alts = flat or alts
            self.note('polymorphic' if len(self.c.by_class[t]) > 1 else 'boxed-single')
            return self.obj(rng.choice(alts), depth + 1, auto)
        raise ValueError(t)

    def object_of_any_class(self, depth, auto):
        names = [n for n in self.c.by_name if self.c.ctor_supported(n)[0] and len(self.c.by_name[n].fields) <= 4]
        return self.obj(self.c.by_name[self.rng.choice(names)], depth, auto)

    def obj(self, ctor, depth, auto, flagbits=None):
        v = {'@type': ctor.name}
        flagvars = {}
        for f, t in ctor.fields:
            if '?' in t:
                var = t.split('?')[0]
                vname, bit = var.split('.')
                flagvars.setdefault(vname, set()).add(int(bit))
        chosen = {}
        for vname, bits in flagvars.items():
            if flagbits is not None:
                chosen[vname] = flagbits
            else:
                chosen[vname] = sum(1 << b for b in bits if self.rng.random() < 0.5)
        for f, t in ctor.fields:
            if t == '#' and f in chosen:
                v[f] = chosen[f]
                continue
            if '?' in t:
                var, rest = t.split('?', 1)
                vname, bit = var.split('.')
                if (chosen[vname] >> int(bit)) & 1:
                    if depth > 5:
                        # too deep: drop the optional field (clear its bit) instead of recursing further
                        if not any(o != f and ot.startswith(var + '?') for o, ot in ctor.fields):
                            chosen[vname] &= ~(1 << int(bit))
                            v[vname] = chosen[vname]
                            continue
                    self.raw_field = (ctor.name, f) in self.untouchable
                    v[f] = self.value(rest, depth, auto)
                    self.raw_field = False
                continue
            self.raw_field = (ctor.name, f) in self.untouchable
            v[f] = self.value(t, depth, auto)
            self.raw_field = False
        return v


def normalise(codec, t, v):
    """static-type-directed normal form for comparison: '@type' is dropped where the type is a bare constructor (the parser omits it inside vectors)"""
    if '?' in t:
        t = t.split('?', 1)[1]
    if t.startswith('('):
        sub = t[1:-1].split(' ', 1)[1].strip()
        return [normalise(codec, sub, x) for x in v] if isinstance(v, list) else v
    if t in codec.by_name and isinstance(v, dict):
        return norm_obj(codec, codec.by_name[t], v, keep_type=False)
    if t in codec.by_class and isinstance(v, dict) and v.get('@type') in codec.by_name:
        return norm_obj(codec, codec.by_name[v['@type']], v, keep_type=True)
    if t == 'bytes' and isinstance(v, dict) and v.get('@type') in codec.by_name:
        return norm_obj(codec, codec.by_name[v['@type']], v, keep_type=True)
    return v


def norm_obj(codec, ctor, v, keep_type=True):
    out = {'@type': ctor.name} if keep_type else {}
    for f, t in ctor.fields:
        if f in v and v[f] is not None:
            out[f] = normalise(codec, t, v[f])
    extra = set(v) - {f for f, _ in ctor.fields} - {'@type'}
    if extra:
        out['@extra'] = sorted(extra)
    return out


def first_diff(a, b, path='$'):
    if type(a) is not type(b):
        return f'{path}: {type(a).__name__} {mon.srepr(a, 60)} vs {type(b).__name__} {mon.srepr(b, 60)}'
    if isinstance(a, dict):
        for k in sorted(set(a) | set(b)):
            if k not in a or k not in b:
                return f'{path}.{k}: present only on one side ({mon.srepr(a.get(k), 50)} vs {mon.srepr(b.get(k), 50)})'
            d = first_diff(a[k], b[k], f'{path}.{k}')
            if d:
                return d
        return None
    if isinstance(a, list):
        if len(a) != len(b):
            return f'{path}: length {len(a)} vs {len(b)}'
        for i, (x, y) in enumerate(zip(a, b)):
            d = first_diff(x, y, f'{path}[{i}]')
            if d:
                return d
        return None
    return None if a == b else f'{path}: {mon.srepr(a, 60)} vs {mon.srepr(b, 60)}'


def field_kind(codec, ctor, path):
    """type of the field a diff path like $.a.b[0] ends in, for mechanism-keyed classification"""
    import re
    names = re.findall(r'\.([A-Za-z_0-9@]+)', path.split(':')[0])
    t = None
    cur = ctor
    for n in names:
        ft = dict(cur.fields).get(n) if cur else None
        if ft is None:
            return 'unknown'
        t = ft.split('?', 1)[1] if '?' in ft else ft
        inner = t[1:-1].split(' ', 1)[1].strip() if t.startswith('(') else t
        cur = codec.by_name.get(inner)
        if cur is None and inner in codec.by_class and len(codec.by_class[inner]) == 1:
            cur = codec.by_class[inner][0]
    if t is None:
        return 'unknown'
    if t.startswith('('):
        return 'vector-of-' + ('base' if t[1:-1].split(' ', 1)[1].strip() in list(tlref.BASE) + ['bytes', 'string', 'Bool'] else 'objects')
    return t if t in list(tlref.BASE) + ['Bool', 'string', 'bytes', 'true'] else 'object'


def run(R):
    from pytoniq_core.tl.generator import TlGenerator
    from pytoniq_core.tl.block import BlockId, BlockIdExt
    rng = R.rng
    quick = R.tier == 'quick'
    ctors, skipped = tlref.read_schemas(mon.REPO)
    codec = tlref.Codec(ctors)
    R.rule = ('for every constructor of the three bundled .tl files whose field types are in the supported set (#, int, long, int128, int256, Bool, true, string, '
              'bytes, bare and boxed object types, (vector T), flags.N?T / mode.N?T) values are generated in the canonical forms the parser returns '
              '(flag subsets, width boundaries, string/bytes lengths around 253/254 and 65535, multi-byte UTF-8, nested and polymorphic objects, vectors); the '
              'library\'s bytes must equal an independent TL encoder, and its parser must return the same value and consume exactly all bytes, in both '
              'auto_deserialize modes; registry ids/fields compared constructor by constructor; BlockId/BlockIdExt conversions and hashing. '
              'distinct = distinct (constructor, encoded bytes); non-trivial = constructor with at least one field')
    R.assumptions = ['R5 (lib/tlref.py): constructor id = CRC-32 of the declaration with single spaces, without ";", "(" and ")" (validated on 4 well-known ids and '
                     'the pinned bytes of tests/test_tl.py)', 'opaque bytes (not strings) are generated so that their first four bytes are not a registered constructor id: with auto_deserialize a bytes field that parses as an object is returned as the object, by design',
                     'constructors using vector<T>, double, object/function or a flag variable not named mode/flags are classified unsupported and skipped (counted)']
    lib_auto = TlGenerator.with_default_schemas().generate()
    lib_raw = TlGenerator.with_default_schemas().generate()
    lib_raw._auto_deserialize = False
    known = {c.wire_id for c in ctors.values()} | {s.little_id() for s in lib_auto.list if not s.is_empty()}

    # ---- registry: ids, fields, result class
    for name, c in sorted(ctors.items()):
        l = lib_auto.get_by_name(name)
        R.counters['oracle_evaluations'] += 1
        R.count('registry_compared')
        if l is None:
            R.violation('registry-missing-constructor', f'{name} is not registered', {'constructor': name})
            continue
        if int.from_bytes(l.id, 'big') != c.id:
            mech = 'comment-inside-declaration' if list(l.args.items()) != c.fields else ('irregular-whitespace' if '#' not in c.text.split(' ')[0] else 'explicit-id')
            R.violation(f'registry-id-{mech}', f'{name}: constructor id {l.id.hex()} != {c.id:08x} (CRC-32 of "{c.text[:120]}")', {'constructor': name, 'decl': c.text})
        elif list(l.args.items()) != c.fields:
            R.violation('registry-fields-differ', f'{name}: fields {list(l.args.items())[:6]} != {c.fields[:6]}', {'constructor': name, 'decl': c.text})
        if lib_auto.get_by_id(c.wire_id, 'little') is None and int.from_bytes(l.id, 'big') == c.id:
            R.violation('registry-id-lookup', f'{name}: get_by_id of its own id fails', {'constructor': name})
    supported = [n for n in sorted(ctors) if codec.ctor_supported(n)[0]]
    unsupported = {n: codec.ctor_supported(n)[1] for n in ctors if not codec.ctor_supported(n)[0]}
    R.extra['constructors_total'] = len(ctors)
    R.extra['constructors_supported'] = len(supported)
    R.extra['constructors_skipped'] = len(unsupported)
    reasons = {}
    for n, why in unsupported.items():
        reasons[why.split(' of ')[0]] = reasons.get(why.split(' of ')[0], 0) + 1
    R.extra['skip_reasons'] = reasons

    # ---- codec
    G = Gen(codec, rng, known)
    G.untouchable = {(n, f) for n, fs in lib_auto.untouchables.items() for f in fs}
    G.text_ids = sorted({k.decode() for k in known if len(k) == 4 and all(32 <= b < 127 for b in k)})
    R.extra['constructor_ids_that_are_printable_text'] = len(G.text_ids)
    per = 30 if quick else 500
    mine = [n for i, n in enumerate(supported) if i % R.nshards == R.shard]

    def nested_failure_storm(count):
        """packets whose nested payload cannot be parsed (a constructor with a vector field followed by an absurd element count): the parser gives up from INSIDE a
        nested payload, hundreds of times, on the schemas object that parses all the valid values of this run.  Outcomes are not judged."""
        vec = [s_ for s_ in lib_auto.list if not s_.is_empty() and any('vector' in t_ or '(' in t_ for t_ in s_.args.values())]
        outers = [s_ for s_ in lib_auto.list if not s_.is_empty() and list(s_.args.values()).count('bytes') == 1 and s_.name not in lib_auto.untouchables
                  and all(t_ in ('bytes', 'int', 'long', 'int256', 'int128', '#') for t_ in s_.args.values())]
        if not vec or not outers:
            return
        fill = {'int': 1, 'long': 2, 'int256': '11' * 32, 'int128': '22' * 16, '#': 0}
        for _ in range(count):
            inner = rng.choice(vec).little_id() + rng.choice([b'\xff\xff\xff\x7f', b'\xff' * 12, b'\x01', b'\xfe\xff\xff\xff' + bytes(8), rng.randbytes(7)])
            if rng.random() < 0.3:      # one level further down
                o2 = rng.choice(outers)
                st0, inner = mon.call(lib_auto.serialize, o2, {f_: (inner if t_ == 'bytes' else fill[t_]) for f_, t_ in o2.args.items()})
                if st0 == 'exc':
                    continue
            o = rng.choice(outers)
            st0, data = mon.call(lib_auto.serialize, o, {f_: (inner if t_ == 'bytes' else fill[t_]) for f_, t_ in o.args.items()})
            if st0 == 'exc':
                continue
            st0, res = mon.call(lib_auto.deserialize, data)
            R.cover('nested_failure_outcomes', st0 if st0 == 'ok' else type(res).__name__)
            R.count('nested_failures_provoked')

    nested_failure_storm(300 if quick else 2000)
    for name in mine:
        ctor = ctors[name]
        nflag = len({t.split('?')[0] for _, t in ctor.fields if '?' in t})
        subsets = list(range(1 << nflag)) if 0 < nflag <= (4 if quick else 6) else [None]      # every subset of the optional fields
        cases = [(None, i) for i in range(per)] + ([(s, 0) for s in subsets] if subsets != [None] else [])
        for subset, k in cases:
            auto = (k % 2 == 0)
            lib = lib_auto if auto else lib_raw
            flagbits = None
            if subset is not None:
                bits = sorted({int(t.split('?')[0].split('.')[1]) for _, t in ctor.fields if '?' in t})
                flagbits = sum(1 << b for j, b in enumerate(bits) if (subset >> j) & 1)
            try:
                v = G.obj(ctor, 0, auto, flagbits)
                want = codec.encode(v)
            except RecursionError:
                R.count('generator_recursion_skipped')
                continue
            W = {'constructor': name, 'value': mon.jsonable(v), 'auto_deserialize': auto, 'want_hex': want.hex() if len(want) < 600 else None}
            R.cover('constructors_exercised', name)
            R.case(mon.fp(name, want) if ctor.fields else None, sample={'constructor': name, 'value': mon.jsonable(v)} if len(want) < 200 else None)
            # now and then the same schemas object first parses damaged versions of this encoding (cut short at random places, one byte changed); what it
            # does with them is not judged - the valid calls after them must not depend on them (depth guards, counters, caches left behind by a failed parse)
            if len(want) > 4 and rng.random() < 0.12:
                for _ in range(10):
                    bad = want[:rng.randrange(len(want))] if rng.random() < 0.7 else bytes(b ^ (0xFF if i == pos else 0) for pos in [rng.randrange(4, len(want))] for i, b in enumerate(want))
                    st0, _ = mon.call(lib.deserialize, bad)
                    R.cover('damaged_parse_outcomes', st0)
                    R.count('damaged_parses_between_valid')
            # serialise (by object and by name)
            st, got = mon.call(lib.serialize, lib.get_by_name(name), v)
            R.counters['oracle_evaluations'] += 1
            if st == 'exc':
                R.exc(got)
                R.violation(f'serialize-raises-{type(got).__name__}-{classify_value(codec, ctor, v)}', f'serialize({name}) raised {got!r}', W)
                continue
            if got != want:
                # locate the first field whose encoding differs by decoding what the library wrote
                mech = 'unknown'
                try:
                    back, p = codec.decode(got, 4, ctor)
                    d = first_diff(norm_obj(codec, ctor, v), norm_obj(codec, ctor, back))
                    mech = field_kind(codec, ctor, d) if d else ('length' if p != len(got) else 'framing')
                except Exception:
                    mech = 'undecodable'
                    pref = 0
                    while pref < min(len(got), len(want)) and got[pref] == want[pref]:
                        pref += 1
                    mech += f'-{"id" if pref < 4 else "body"}'
                R.violation(f'bytes-differ-{mech}', f'serialize({name}) differs from the TL binary encoding ({len(got)} vs {len(want)} bytes)', dict(W, got_hex=got.hex() if len(got) < 600 else None))
                continue
            R.count('encodings_equal')
            if k % 3 == 0 and len(v) > 2:
                # a dict is a mapping: the same value with its keys inserted in another order (at every nesting level) is the same value
                def reorder(x):
                    if isinstance(x, dict):
                        items = [(kk, reorder(vv)) for kk, vv in x.items()]
                        rng.shuffle(items)
                        return dict(items)
                    if isinstance(x, list):
                        return [reorder(y) for y in x]
                    return x
                v2 = reorder(v)
                st_r, got_r = mon.call(lib.serialize, lib.get_by_name(name), v2)
                R.check(st_r == 'ok' and got_r == want, 'serialize-depends-on-key-order', f'serialize({name}) of the same value with its dict keys inserted in another order gives other bytes'
                        + (f' / raised {got_r!r}' if st_r == 'exc' else ''), dict(W, key_order=list(v2)[:8]))
                R.count('reordered_dict_cases')
            if k % 5 == 0:
                # the other spellings of the same call: constructor given by name; unboxed (no id prefix) serialise / parse with explicit args;
                # the registry looked up by id in every accepted form
                st2, g2 = mon.call(lib.serialize, name, v)
                R.check(st2 == 'ok' and g2 == want, 'serialize-by-name-differs', f'serialize("{name}", ...) differs from serialize(schema object, ...)', W)
                st3, g3 = mon.call(lib.serialize, lib.get_by_name(name), v, False)
                R.check(st3 == 'ok' and g3 == want[4:], 'serialize-unboxed-differs', f'serialize({name}, boxed=False) is not the boxed encoding without its id', W)
                st4, r4 = mon.call(lib.deserialize, want[4:], False, lib.get_by_name(name).args)
                if auto and name in lib_auto.untouchables:
                    # the unboxed form passes only the field list: the parser cannot know that these are the fields of a constructor with "untouchable"
                    # fields, so what it does with their bytes in auto mode is not judged
                    R.count('unboxed_parse_of_untouchable_constructor_not_judged')
                elif st4 == 'ok' and isinstance(r4, tuple) and isinstance(r4[0], dict):
                    exp4 = v if auto else strip_nested(codec, ctor, v)
                    d4 = first_diff({kk: vv for kk, vv in norm_obj(codec, ctor, exp4).items() if kk != '@type'}, {kk: vv for kk, vv in norm_obj(codec, ctor, dict(r4[0], **{'@type': name})).items() if kk != '@type'})
                    R.check(d4 is None and r4[1] == len(want) - 4, 'deserialize-unboxed-differs', f'deserialize({name} body, boxed=False, args) differs: {d4}, consumed {r4[1]} of {len(want) - 4}', W)
                else:
                    R.violation('deserialize-unboxed-raises', f'deserialize({name} body, boxed=False, args) gave {mon.srepr(r4, 80)}', W)
                sch = lib.get_by_name(name)
                forms = [lib.get_by_id(sch.id), lib.get_by_id(sch.id, 'big'), lib.get_by_id(sch.little_id(), 'little'), lib.get_by_id(int.from_bytes(sch.id, 'big')),
                         lib.get_by_id(int.from_bytes(sch.id, 'big'), 'big'), lib.get_by_id(int.from_bytes(sch.little_id(), 'little'), 'little') if False else sch]
                R.check(all(x is sch for x in forms), 'registry-id-lookup-forms', f'get_by_id of {name} by bytes/int in big/little order does not always return the constructor', W)
                R.count('alternative_call_forms')
            # parse the reference bytes
            st, res = mon.call(lib.deserialize, want)
            if st == 'exc':
                R.exc(res)
                R.violation(f'deserialize-raises-{type(res).__name__}-{classify_value(codec, ctor, v)}', f'deserialize of {name} raised {res!r}', W)
                continue
            try:
                parsed, used = res
            except Exception:
                R.violation('deserialize-result-shape', f'deserialize returned {mon.srepr(res)}', W)
                continue
            R.check(used == len(want), 'consumed-not-all-bytes', f'deserialize({name}) consumed {used} of {len(want)} bytes', W)
            if not isinstance(parsed, dict):
                R.violation('deserialize-not-object', f'deserialize({name}) returned {type(parsed).__name__}', W)
                continue
            expect = v if auto else strip_nested(codec, ctor, v)
            d = first_diff(norm_obj(codec, ctor, expect), norm_obj(codec, ctor, parsed))
            if d:
                R.violation(f'roundtrip-differs-{field_kind(codec, ctor, d)}', f'parse(serialize({name})) differs: {d}', dict(W, parsed=mon.jsonable(parsed)))
            else:
                R.count('roundtrips_equal')
                R.count('roundtrips_auto' if auto else 'roundtrips_raw')
            for f, t in ctor.fields:
                R.cover('type_forms', 'optional' if '?' in t else ('vector' if t.startswith('(') else t if t in tlref.BASE or t in ('Bool', 'string', 'bytes', 'true') else
                                                                 ('bare-object' if t in codec.by_name else 'boxed-object')))
    R.extra['generator_stats'] = G.stats

    # ---- every bytes / string length 0..520 (both length-prefix forms, every padding residue) in one bytes-bearing and one string-bearing constructor
    if R.shard == 0:
        for n in range(0, 521):
            for cname, field, mk in (('adnl.message.custom', 'data', lambda n: G.opaque(n)), ('liteServer.error', 'message', lambda n: 'x' * n)):
                c = ctors.get(cname)
                if c is None:
                    continue
                v = {'@type': cname, **({'code': -1} if cname == 'liteServer.error' else {}), field: mk(n)}
                want = codec.encode(v)
                st, got = mon.call(lib_raw.serialize, lib_raw.get_by_name(cname), v)
                R.counters['oracle_evaluations'] += 1
                R.count('length_sweep_cases')
                if st == 'exc' or got != want:
                    R.violation(f'bytes-differ-{"string" if cname == "liteServer.error" else "bytes"}-length-sweep', f'{cname} with a {n}-byte {field}: serialised bytes differ from the TL encoding '
                                f'({mon.srepr(got, 40)})', {'constructor': cname, 'length': n})
                    continue
                # the same byte string held in a bytearray / memoryview is the same value
                if cname == 'adnl.message.custom' and n % 7 == 0:
                    for fname, conv in (('bytearray', bytearray), ('memoryview', memoryview)):
                        st2, got2 = mon.call(lib_raw.serialize, lib_raw.get_by_name(cname), dict(v, **{field: conv(v[field])}))
                        R.check(st2 == 'ok' and got2 == want, f'bytes-differ-bytes-given-as-{fname}', f'{cname} with its {n}-byte {field} given as a {fname}: serialised bytes differ from the TL encoding '
                                f'({mon.srepr(got2, 40)})', {'constructor': cname, 'length': n, 'form': fname})
                        R.count('bytes_like_field_values')
                st, res = mon.call(lib_raw.deserialize, want)
                ok = st == 'ok' and isinstance(res, tuple) and res[1] == len(want) and (res[0].get(field) == (mk(n) if isinstance(mk(n), bytes) else mk(n).encode()) or res[0].get(field) == mk(n))
                if cname == 'adnl.message.custom':
                    ok = st == 'ok' and isinstance(res, tuple) and res[1] == len(want) and isinstance(res[0].get(field), (bytes, bytearray)) and len(res[0][field]) == n
                R.check(ok, f'roundtrip-differs-{"string" if cname == "liteServer.error" else "bytes"}-length-sweep', f'{cname} with a {n}-byte {field} does not parse back / consume all bytes: '
                        f'{mon.srepr(res, 60)}', {'constructor': cname, 'length': n})
    # ---- a polymorphic field may be given already serialised; a schema file loaded on its own gives the same constructors as inside the bundle
    if R.shard == 0:
        import os as _os
        poly = [(n, f, t) for n in supported for f, t in ctors[n].fields if t in codec.by_class and len(codec.by_class[t]) > 1 and '?' not in t][:40]
        for n, f, t in poly:
            try:
                v = G.obj(ctors[n], 0, True, None)
                want = codec.encode(v)
            except RecursionError:
                continue
            sub = v[f]
            if not (isinstance(sub, dict) and '@type' in sub):
                continue
            pre = dict(v, **{f: codec.encode(sub)})
            st, got = mon.call(lib_auto.serialize, lib_auto.get_by_name(n), pre)
            R.check(st == 'ok' and got == want, 'preserialised-polymorphic-field-differs', f'{n}.{f} given as already serialised bytes is not written as they are: {mon.srepr(got, 60)}',
                    {'constructor': n, 'field': f})
            R.count('preserialised_fields')
        # ---- several objects in one bytes field (the usual framing of liteServer.query.data = waitMasterchainSeqno + the query, adnl.message.query.query =
        # overlay.query + the node query): the parser hands the field back as the list of objects, and what the parser returns must serialise to the bytes it came from
        inner_names = [n for n in ('liteServer.getTime', 'liteServer.getMasterchainInfo', 'liteServer.getVersion', 'liteServer.waitMasterchainSeqno', 'dht.ping', 'tcp.ping',
                                   'overlay.query', 'adnl.ping') if n in ctors and n in supported]
        carriers = [(n, f) for n, f in (('liteServer.query', 'data'), ('adnl.message.query', 'query'), ('adnl.message.answer', 'answer'), ('adnl.message.custom', 'data'))
                    if n in ctors and not (n in getattr(lib_auto, 'untouchables', {}) and f in lib_auto.untouchables[n])]
        for outer, f in carriers:
            for count in (2, 3, 4):
                for rep in range(6):
                    try:
                        inners = [G.obj(ctors[rng.choice(inner_names)], 1, True, None) for _ in range(count)]
                        v = G.obj(ctors[outer], 1, True, None)
                    except RecursionError:
                        continue
                    v[f] = b''.join(codec.encode(x) for x in inners)
                    want = codec.encode(v)
                    W = {'constructor': outer, 'field': f, 'objects': [x['@type'] for x in inners]}
                    st, res = mon.call(lib_auto.deserialize, want)
                    R.counters['oracle_evaluations'] += 1
                    R.count('multi_object_bytes_fields')
                    if st == 'exc' or not isinstance(res, tuple) or res[1] != len(want):
                        R.violation('multi-object-bytes-field-parse', f'{outer}.{f} holding {count} objects: parse raised / did not consume all bytes: {mon.srepr(res, 60)}', W)
                        continue
                    got_field = res[0].get(f)
                    if isinstance(got_field, list):
                        R.count('multi_object_bytes_fields_as_list')
                        same = len(got_field) == count and all(first_diff(norm_obj(codec, ctors[x['@type']], x), norm_obj(codec, ctors[x['@type']], y)) is None
                                                                for x, y in zip(inners, got_field) if isinstance(y, dict) and y.get('@type') == x['@type'])
                        R.check(same and all(isinstance(y, dict) and y.get('@type') == x['@type'] for x, y in zip(inners, got_field)), 'multi-object-bytes-field-values',
                                f'{outer}.{f}: the objects parsed out of the field differ from those encoded: {mon.srepr(got_field, 80)}', W)
                    else:
                        R.check(bytes(got_field) == v[f], 'multi-object-bytes-field-values', f'{outer}.{f} came back neither as the objects nor as the bytes: {mon.srepr(got_field, 60)}', W)
                    st2, back = mon.call(lib_auto.serialize, lib_auto.get_by_name(outer), res[0])
                    R.check(st2 == 'ok' and back == want, 'parsed-value-does-not-serialise-back-multi-object-bytes',
                            f'{outer}.{f} holding {count} objects: serialising what the parser returned gives {mon.srepr(back, 50)} ({len(back) if st2 == "ok" else "-"} bytes, want {len(want)})', W)
                    R.case(mon.fp('multiobj', outer, count, rep))
        # ---- a vector is a sequence: the same elements in a tuple, a range, a dict view, a deque serialise like the list
        import collections as _coll
        vec_ctors = [(n, f, t) for n in supported for f, t in ctors[n].fields if t.startswith('(vector ') and '?' not in t][:60]
        for n, f, t in vec_ctors:
            try:
                v = G.obj(ctors[n], 0, True, None)
            except RecursionError:
                continue
            lst = v.get(f)
            if not isinstance(lst, list) or not lst:
                continue
            want = codec.encode(v)
            forms = [('tuple', tuple(lst)), ('deque', _coll.deque(lst)), ('dict-values', {i: x for i, x in enumerate(lst)}.values())]
            if all(isinstance(x, int) and not isinstance(x, bool) for x in lst) and lst == list(range(lst[0], lst[0] + len(lst))):
                forms.append(('range', range(lst[0], lst[0] + len(lst))))
            for fname, seq in forms:
                st, got = mon.call(lib_auto.serialize, lib_auto.get_by_name(n), dict(v, **{f: seq}))
                R.counters['oracle_evaluations'] += 1
                R.count('vector_container_forms')
                R.check(st == 'ok' and got == want, f'vector-given-as-{fname}-differs', f'{n}.{f} ({t}) given as a {fname} of {len(lst)} elements: serialised bytes differ from the TL encoding '
                        f'({mon.srepr(got, 40)})', {'constructor': n, 'field': f, 'form': fname, 'length': len(lst)})
        iv = [(n, f) for n, f, t in vec_ctors if t in ('(vector int)', '(vector long)')][:3]
        for n, f in iv:
            try:
                v = G.obj(ctors[n], 0, True, None)
            except RecursionError:
                continue
            v[f] = list(range(5, 12))
            want = codec.encode(v)
            st, got = mon.call(lib_auto.serialize, lib_auto.get_by_name(n), dict(v, **{f: range(5, 12)}))
            R.check(st == 'ok' and got == want, 'vector-given-as-range-differs', f'{n}.{f} given as range(5, 12): serialised bytes differ ({mon.srepr(got, 40)})', {'constructor': n, 'field': f})
            R.count('vector_container_forms')
        # ---- a nested object (and several) in a bytes field whose serialisation is longer than 64 KiB / 256 KiB comes back as the object, like a short one
        big_inner = next((n for n in ('liteServer.blockData', 'liteServer.sendMessage', 'adnl.message.custom', 'liteServer.error') if n in ctors and n in supported), None)
        big_carrier = next(((n, f) for n, f in (('adnl.message.answer', 'answer'), ('liteServer.query', 'data'), ('adnl.message.query', 'query')) if n in ctors), None)
        if big_inner and big_carrier:
            bfield = next((f for f, t in ctors[big_inner].fields if t == 'bytes'), None) or next((f for f, t in ctors[big_inner].fields if t == 'string'), None)
            for size in ((70000, 300000) if quick else (65000, 65536, 70000, 300000, 1 << 20)):
                inner = G.obj(ctors[big_inner], 1, True, None)
                payload = G.opaque(size)
                inner[bfield] = payload if dict(ctors[big_inner].fields)[bfield] == 'bytes' else 'x' * size
                outer = G.obj(ctors[big_carrier[0]], 1, True, None)
                outer[big_carrier[1]] = inner
                want = codec.encode(outer)
                st, res = mon.call(lib_auto.deserialize, want)
                R.counters['oracle_evaluations'] += 1
                R.count('large_nested_objects')
                gotf = res[0].get(big_carrier[1]) if st == 'ok' and isinstance(res, tuple) and isinstance(res[0], dict) else None
                R.check(st == 'ok' and res[1] == len(want) and isinstance(gotf, dict) and gotf.get('@type') == big_inner and len(gotf.get(bfield, b'')) == size,
                        'large-nested-object-not-returned-as-object', f'{big_carrier[0]}.{big_carrier[1]} holding a {big_inner} of about {size} bytes comes back as '
                        f'{type(gotf).__name__} ({mon.srepr(gotf, 40)}), a short one comes back as the object', {'inner': big_inner, 'size': size})
                st2, back = mon.call(lib_auto.serialize, lib_auto.get_by_name(big_carrier[0]), outer)
                R.check(st2 == 'ok' and back == want, 'bytes-differ-large-nested-object', f'{big_carrier[0]} with a nested object of about {size} bytes: serialised bytes differ from the TL encoding',
                        {'inner': big_inner, 'size': size})
        sdir = _os.path.join(mon.REPO, 'pytoniq_core', 'tl', 'schemas')
        loaded = {}
        for fn in sorted(_os.listdir(sdir)):
            st, one_file = mon.call(lambda: TlGenerator(_os.path.join(sdir, fn)).generate())
            if st == 'exc':
                R.violation('single-schema-file-raises', f'TlGenerator({fn}).generate() raised {one_file!r}', {'file': fn})
                continue
            loaded[fn] = one_file
        times = {}
        for one_file in loaded.values():
            for x in one_file.list:
                if not x.is_empty():
                    times[x.name] = times.get(x.name, 0) + 1
        for fn, one_file in loaded.items():
            # names declared in more than one file (the built-in types int256, bytes, ... are) resolve to one of their declarations in the bundle: not compared
            bad = [x.name for x in one_file.list if not x.is_empty() and times[x.name] == 1 and
                   (lib_auto.get_by_name(x.name) is None or lib_auto.get_by_name(x.name).id != x.id or dict(lib_auto.get_by_name(x.name).args) != dict(x.args))]
            R.check(not bad and len([x for x in one_file.list if not x.is_empty()]) > 0, 'single-schema-file-differs', f'{fn} loaded on its own registers other ids/fields than inside the bundle: {bad[:5]}', {'file': fn})
            R.count('single_schema_files')
    # ---- block id helpers
    for i in range(50 if quick else 20000):
        wc = rng.choice([0, -1, 2 ** 31 - 1, -2 ** 31, rng.randrange(-100, 100)])
        shard = rng.choice([-2 ** 63, 2 ** 63 - 1, 0, -1, rng.randrange(-2 ** 63, 2 ** 63)])
        seqno = rng.choice([0, 1, 2 ** 31 - 1, rng.getrandbits(31)])
        rh, fh = rng.randbytes(32), rng.randbytes(32)
        W = {'wc': wc, 'shard': shard, 'seqno': seqno, 'root_hash': rh, 'file_hash': fh}
        st, e = mon.call(_blockid, R, BlockId, BlockIdExt, codec, lib_auto, wc, shard, seqno, rh, fh, W)
        if st == 'exc':
            R.violation(f'blockid-helper-raises-{type(e).__name__}', f'block id helper raised {e!r}', W)
        R.case(mon.fp('blk', wc, shard, seqno, rh, fh))
    if R.nshards == 1:
        R.floor('constructors_exercised', 600, 'set')
    R.floor('registry_compared', 700)
    R.floor('roundtrips_equal', 300)
    R.floor('alternative_call_forms', 100)
    R.floor('reordered_dict_cases', 100)
    R.floor('type_forms', 12, 'set')
    if R.shard == 0:
        R.floor('multi_object_bytes_fields_as_list', 10)
        R.floor('vector_container_forms', 20)
        R.floor('large_nested_objects', 2)


def _blockid(R, BlockId, BlockIdExt, codec, lib, wc, shard, seqno, rh, fh, W):
    a = BlockIdExt(wc, shard, seqno, rh, fh)
    b = BlockIdExt.from_bytes(a.to_bytes())
    R.check(b == a and (b.workchain, b.shard, b.seqno, b.root_hash, b.file_hash) == (wc, shard, seqno, rh, fh), 'blockidext-bytes-roundtrip', 'BlockIdExt.from_bytes(to_bytes()) loses information', W)
    R.check(len(a.to_bytes()) == 80, 'blockidext-bytes-length', 'BlockIdExt.to_bytes is not 80 bytes', W)
    c = BlockIdExt.from_dict(a.to_dict())
    R.check(c == a and (c.workchain, c.shard, c.seqno, c.root_hash, c.file_hash) == (wc, shard, seqno, rh, fh), 'blockidext-dict-roundtrip', 'BlockIdExt.from_dict(to_dict()) loses information', W)
    # the dict form is what the TL serializer takes for tonNode.blockIdExt
    want = codec.encode(dict(a.to_dict(), **{'@type': 'tonNode.blockIdExt'}))
    st, got = mon.call(lib.serialize, lib.get_by_name('tonNode.blockIdExt'), a.to_dict())
    R.check(st == 'ok' and got == want, 'blockidext-dict-not-tl-value', 'BlockIdExt.to_dict() is not accepted / mis-encoded as tonNode.blockIdExt', W)
    st, h = mon.call(hash, a)
    if st == 'exc':
        R.violation('blockidext-unhashable', f'hash(BlockIdExt) raised {h!r}: not usable as a dictionary key', W)
    else:
        d = {a: 1}
        d[b] = 2
        R.check(len(d) == 1 and d[c] == 2 and hash(a) == hash(b), 'blockidext-equal-ids-do-not-collide', 'equal BlockIdExt objects are different dictionary keys', W)
        flip = lambda h: bytes([h[0] ^ 1]) + h[1:]
        for what, other in (('seqno', BlockIdExt(wc, shard, seqno ^ 1, rh, fh)), ('workchain', BlockIdExt(wc ^ 1, shard, seqno, rh, fh)),
                            ('shard', BlockIdExt(wc, shard ^ 1, seqno, rh, fh)), ('root_hash', BlockIdExt(wc, shard, seqno, flip(rh), fh)),
                            ('file_hash', BlockIdExt(wc, shard, seqno, rh, flip(fh)))):
            R.check(other != a and not (other == a) and len({a, other}) == 2 and other.to_bytes() != a.to_bytes(), f'blockidext-different-{what}-collide',
                    f'BlockIdExt objects differing in {what} compare equal / serialise alike', W)
        # a dictionary key lives next to keys of other types: one with the very same hash (the tuple of the five fields) must not make the dictionary unusable, and
        # comparing with None / bytes / a tuple is an answer (False), not an error
        tup = (wc, shard, seqno, rh, fh)
        mixed = {tup: 'tuple', a: 'blockid', None: 'none', a.to_bytes(): 'bytes'}
        st, got = mon.call(lambda: (mixed[b], mixed[tup], len(mixed), a in [None, tup, b], a == None, a != tup, a == a.to_bytes()))      # noqa: E711
        R.check(st == 'ok' and got == ('blockid', 'tuple', 4, True, False, True, False), 'blockidext-key-among-keys-of-other-types',
                f'a BlockIdExt used as a dictionary key next to keys of other types (one with the same hash), or compared with None / a tuple / bytes: {got!r}', W)
    e = BlockId(wc, shard, seqno)
    f = BlockId.from_dict(e.to_dict())
    R.check((f.workchain, f.shard, f.seqno) == (wc, shard, seqno), 'blockid-dict-roundtrip', 'BlockId.from_dict(to_dict()) loses information', W)
    R.counters['oracle_evaluations'] += 1
    R.count('blockid_cases')


def strip_nested(codec, ctor, v):
    """expected value with auto_deserialize off: nested objects inside bytes fields stay encoded bytes"""
    out = {}
    for k, x in v.items():
        t = dict(ctor.fields).get(k, '')
        t = t.split('?', 1)[1] if '?' in t else t
        out[k] = strip_value(codec, t, x)
    return out


def strip_value(codec, t, x):
    if t == 'bytes' and isinstance(x, dict):
        return codec.encode(x, boxed=True)
    if t.startswith('(') and isinstance(x, list):
        sub = t[1:-1].split(' ', 1)[1].strip()
        return [strip_value(codec, sub, y) for y in x]
    if isinstance(x, dict) and x.get('@type') in codec.by_name and (t in codec.by_name or t in codec.by_class):
        return strip_nested(codec, codec.by_name[x['@type']], x)
    return x


def classify_value(codec, ctor, v):
    """coarse mechanism key from the value: which hostile feature it carries"""
    feats = set()

    def walk(c, val):
        for f, t in c.fields:
            if f not in val or val[f] is None:
                continue
            tt = t.split('?', 1)[1] if '?' in t else t
            x = val[f]
            if tt == '#' and isinstance(x, int) and x >= 2 ** 31:
                feats.add('nat>=2^31')
            if tt == 'string':
                feats.add('string')
            if tt.startswith('('):
                sub = tt[1:-1].split(' ', 1)[1].strip()
                feats.add('vector-of-base' if sub in tlref.BASE or sub in ('bytes', 'string', 'Bool') else 'vector-of-objects')
                for y in x:
                    if isinstance(y, dict) and y.get('@type', sub) in codec.by_name:
                        walk(codec.by_name[y.get('@type', sub)], y)
            elif isinstance(x, dict) and x.get('@type') in codec.by_name and tt != 'true':
                walk(codec.by_name[x['@type']], x)
    walk(ctor, v)
    for k in ('nat>=2^31', 'string', 'vector-of-base', 'vector-of-objects'):
        if k in feats:
            return k
    return 'plain'


def replay(R, w, rec):
    from pytoniq_core.tl.generator import TlGenerator
    ctors, _ = tlref.read_schemas(mon.REPO)
    codec = tlref.Codec(ctors)
    R.case(None)
    if 'value' not in w:
        R.inconc('replay-supports-codec-witnesses-only')
        return
    lib = TlGenerator.with_default_schemas().generate()
    lib._auto_deserialize = bool(w.get('auto_deserialize', True))
    v = mon.unjson(w['value'])
    name = w['constructor']
    want = codec.encode(v)
    st, got = mon.call(lib.serialize, lib.get_by_name(name), v)
    ok = st == 'ok' and got == want
    if ok:
        st, res = mon.call(lib.deserialize, want)
        ok = st == 'ok' and res[1] == len(want) and not first_diff(norm_obj(codec, ctors[name], v), norm_obj(codec, ctors[name], res[0]))
    R.check(ok, rec.get('key', 'replay'), 'replayed TL value still mis-encoded / mis-parsed', w)

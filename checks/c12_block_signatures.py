"""C12 - block signature sets are accepted only with a genuine validator supermajority (R7 predicate beside check_block_signatures)."""
import hashlib

from lib import mon

SHARDS = 16
LEVEL = "fault_enumeration"
MAGIC = bytes.fromhex('706e0bc5')          # ton.blockId constructor id 0xc50b6e70, little-endian on the wire


def node_id(pub):
    return hashlib.sha256(bytes.fromhex('c6b41348') + pub).digest()      # pub.ed25519 constructor id 0x4813b4c6, little-endian


class World:
    """a validator set with real Ed25519 keys"""

    def __init__(self, rng, n, weights):
        from nacl.signing import SigningKey
        self.keys = [SigningKey(rng.randbytes(32)) for _ in range(n)]
        self.pubs = [bytes(k.verify_key) for k in self.keys]
        self.weights = weights
        self.total = sum(weights)

    def nodes(self, rng):
        from pytoniq_core.tlb.config import ValidatorDescr, SigPubKey
        if self.pubs and all(0 <= w < 1 << 64 for w in self.weights) and rng.random() < 0.5:
            # the way a client gets its validator list: the TL-B ValidatorSet of the configuration (encoded here by the independent R3 transcription), parsed by the library
            from pytoniq_core.tlb.config import ValidatorSet
            from lib import bridge, tlbref as T, tlbspec as S
            n = len(self.pubs)
            vs = {'_': 'validators', 'utime_since': 1, 'utime_until': 2, 'total': n, 'main': n,
                  'list': {i: ({'_': 'validator', 'public_key': {'_': 'ed25519_pubkey', 'pubkey': p}, 'weight': w} if rng.random() < 0.5 else
                               {'_': 'validator_addr', 'public_key': {'_': 'ed25519_pubkey', 'pubkey': p}, 'weight': w, 'adnl_addr': rng.randbytes(32)})
                           for i, (p, w) in enumerate(zip(self.pubs, self.weights))}}
            w_ = T.W()
            S.enc(w_, S.t('ValidatorSet'), vs)
            st, parsed = mon.call(lambda: ValidatorSet.deserialize(bridge.to_lib(w_.cell()).begin_parse()))
            if st == 'ok' and isinstance(getattr(parsed, 'list', None), dict) and len(parsed.list) == n:
                if rng.random() < 0.5:
                    # ... and then through compute_validator_set (masterchain block: the first `main` validators), its result handed on as it is
                    from pytoniq_core.proof.check_proof import compute_validator_set
                    from pytoniq_core.tlb.config import CatchainConfig
                    from pytoniq_core.tl.block import BlockIdExt
                    cw = T.W()
                    S.enc(cw, S.t('CatchainConfig'), {'_': 'catchain_config_new', 'flags': 0, 'shuffle_mc_validators': False, 'mc_catchain_lifetime': 250, 'shard_catchain_lifetime': 250,
                                                      'shard_validators_lifetime': 1000, 'shard_validators_num': 23})
                    cfg = CatchainConfig.deserialize(bridge.to_lib(cw.cell()).begin_parse())
                    self.producer = lambda: compute_validator_set(cfg, BlockIdExt(-1, -(1 << 63), 1, bytes(32), bytes(32)), parsed)
                    st2, res = mon.call(self.producer)
                    if st2 == 'ok':
                        self.route = 'compute_validator_set'
                        return res
                self.route = 'parsed-from-tlb'
                return [parsed.list[i] for i in range(n)]
        self.route = 'constructed'
        out = []
        for p, w in zip(self.pubs, self.weights):
            if rng.random() < 0.5:
                out.append(ValidatorDescr('validator', SigPubKey(p), w))
            else:
                out.append(ValidatorDescr('validator_addr', SigPubKey(p), w, rng.randbytes(32)))
        return out


def r7(world, sigs, blk_root, blk_file):
    """-> (verdict, reason): verdict in accept / reject / ambiguous"""
    from nacl.signing import VerifyKey
    ids = {node_id(p): i for i, p in enumerate(world.pubs)}
    msg = MAGIC + blk_root + blk_file
    seen, dup = set(), False
    for s in sigs:
        i = ids.get(bytes.fromhex(s['node_id_short']))
        if i is None:
            return 'reject', 'unknown-signer'
        try:
            VerifyKey(world.pubs[i]).verify(msg, s['signature'])
        except Exception:
            return 'reject', 'invalid-signature'
        if i in seen:
            dup = True
        seen.add(i)
    w = sum(world.weights[i] for i in seen)
    enough = 3 * w > 2 * world.total
    if not sigs or not world.pubs:
        return 'reject', 'empty'
    if dup:
        return ('ambiguous', 'duplicate-with-supermajority') if enough else ('reject', 'duplicate-below-threshold')
    if not enough:
        return 'reject', 'exact-two-thirds' if 3 * w == 2 * world.total else 'insufficient-weight'
    return 'accept', 'supermajority'


def weight_classes(rng, n):
    yield 'equal', [1] * n
    yield 'equal-big', [1 << 60] * n
    if n:
        yield 'top-bit', [(1 << 63) + 5] + [1 << 20] * (n - 1)
    if n:
        yield 'one-dominant', [10 * n] + [1] * (n - 1)
        yield 'random64', [rng.getrandbits(64) for _ in range(n)]
        yield 'some-zero', [rng.choice([0, 0, 1, 5]) for _ in range(n)]
        yield 'all-zero', [0] * n
        yield 'thirds', [rng.choice([1, 2, 3]) for _ in range(n)]


def knife_edge_world(rng, e, k_sign, k_rest):
    """64-bit-scale weights with 3*signed - 2*total == e exactly (e small, any sign): -> (weights, signer indices)"""
    while True:
        S = rng.getrandbits(62) | (1 << 61)
        if (3 * S - e) % 2 == 0:
            break
    T = (3 * S - e) // 2
    rest = T - S

    def split(x, k):
        parts = []
        for i in range(k - 1):
            p = rng.randrange(1, max(2, x // (k - i)))
            parts.append(p)
            x -= p
        parts.append(x)
        return parts
    ws, wr = split(S, k_sign), split(rest, k_rest)
    assert sum(ws) == S and sum(ws) + sum(wr) == T and 3 * S - 2 * T == e and all(w > 0 for w in ws + wr)
    weights = ws + wr
    idx = list(range(len(weights)))
    rng.shuffle(idx)
    shuffled = [weights[i] for i in idx]
    signers = [j for j, i in enumerate(idx) if i < k_sign]
    return shuffled, signers


def subsets_near_threshold(rng, world):
    """signer index lists: at, just below and just above 2/3 of the weight, plus all / none / one"""
    n = len(world.pubs)
    idx = list(range(n))
    yield 'all', idx
    yield 'none', []
    if not n:
        return
    yield 'one', [rng.randrange(n)]
    for _ in range(3):
        rng.shuffle(idx)
        acc, chosen = 0, []
        for i in idx:
            chosen.append(i)
            acc += world.weights[i]
            if 3 * acc >= 2 * world.total:
                break
        yield 'first-reaching-2/3', list(chosen)                 # may be exactly 2/3 or just above
        if len(chosen) > 1:
            yield 'one-less', chosen[:-1]                        # just below
        rest = [i for i in idx if i not in chosen]
        if rest:
            yield 'one-more', chosen + [rest[0]]
    if n % 3 == 0 and len(set(world.weights)) == 1:
        yield 'exactly-2/3', rng.sample(range(n), 2 * n // 3)
        yield 'exactly-2/3-plus-one', rng.sample(range(n), 2 * n // 3 + 1)


def run(R):
    from pytoniq_core.proof.check_proof import check_block_signatures
    from pytoniq_core.tl.block import BlockIdExt
    from nacl.signing import SigningKey
    rng = R.rng
    quick = R.tier == 'quick'
    R.rule = ('cases = (validator set with real Ed25519 keys and a weight class, signature list built by an operator: honest subsets at / just below / just above '
              'two thirds, duplicates, foreign signer, signature over another block id / without the magic / by the right key for another message, bit-flipped '
              'signature, signature of the wrong length (0/1/32/63/65/128 bytes), invalid entry first/middle/last, empty; validator set handed over as list / tuple / generator / iterator / map / dict view; block id converted, hashed and shown before the check; then the same keys with other weights '
              'or permuted weights in the next call); expected verdict from an independent predicate (R7: distinct known signers, all signatures '
              'verify with PyNaCl, 3*signed > 2*total, non-empty); distinct = distinct (weights, signer list, operator); non-trivial = at least one signature')
    R.assumptions = ['a signature list that contains a duplicate but whose distinct signers alone exceed 2/3 is not judged (the property can be read either way)',
                     'validator sets with two members sharing one public key are not generated', 'Ed25519 verification by PyNaCl is trusted']
    sizes = [0, 1, 2, 3, 4, 5, 6, 7, 9, 10, 12, 30] + ([] if quick else [60, 99, 100])
    CALLS = [0]
    BLK = {}
    rounds = 1 if quick else 6
    ci = 0
    for rnd in range(rounds):
        for n in sizes:
            for wname, weights in weight_classes(rng, n):
                ci += 1
                if R.nshards > 1 and ci % R.nshards != R.shard:
                    continue
                world = World(rng, n, weights)
                nodes = world.nodes(rng)
                root, fileh = rng.randbytes(32), rng.randbytes(32)
                blk = BlockIdExt(-1, -(1 << 63), rng.getrandbits(31), root, fileh)
                msg = MAGIC + root + fileh

                def sig(i, m=msg):
                    return {'node_id_short': node_id(world.pubs[i]).hex(), 'signature': world.keys[i].sign(m).signature}

                def judge(op, sigs):
                    return judge_for(op, sigs, blk)

                def judge_for(op, sigs, the_blk, world=world, nodes=nodes, weights=weights, wname=wname):
                    # the identifier's hashes as they were when the object was first seen here (the object is used between the calls and must not change)
                    rh, fh = BLK.setdefault(id(the_blk), (the_blk.root_hash, the_blk.file_hash, the_blk))[:2]
                    want, reason = r7(world, sigs, rh, fh)
                    # validator lists that come out of compute_validator_set are produced anew for every call and handed over as returned (not copied into a list)
                    nodes_arg = world.producer() if getattr(world, 'route', '') == 'compute_validator_set' else list(nodes)
                    # the validator set is "an iterable of nodes": a list, a tuple, a one-shot generator / iterator / map, the values view of a dict
                    CALLS[0] += 1
                    form = CALLS[0] % 7
                    if isinstance(nodes_arg, list) and form:
                        lst = nodes_arg
                        nodes_arg = [tuple(lst), (x for x in lst), iter(lst), map(lambda x: x, lst), {i: x for i, x in enumerate(lst)}.values(), lst][form - 1]
                        R.cover('validator_set_containers', type(nodes_arg).__name__)
                    # the block identifier is the caller's object: it may have been shown, hashed, converted or compared before the signatures are checked
                    if CALLS[0] % 3 == 0:
                        used = mon.call(lambda: (the_blk.to_dict(), the_blk.to_bytes(), hash(the_blk), repr(the_blk), the_blk == the_blk, BlockIdExt.from_dict(the_blk.to_dict()) == the_blk))
                        R.cover('block_id_used_before_check', used[0])
                    st, e = mon.call(check_block_signatures, nodes_arg, [dict(s) for s in sigs], the_blk)
                    got = 'accept' if st == 'ok' else 'reject'
                    W = {'n': n, 'weights': [str(w) for w in weights[:20]], 'weight_class': wname, 'operator': op, 'reason': reason,
                         'signers': [next((i for i, p in enumerate(world.pubs) if node_id(p).hex() == s['node_id_short']), -1) for s in sigs][:40],
                         'seeds': [bytes(k).hex() for k in world.keys[:12]], 'root': root, 'file': fileh}
                    R.count('verdict_' + want)
                    R.count('nodes_' + getattr(world, 'route', 'constructed'))
                    R.cover('reasons', reason)
                    R.cover('operators', op)
                    if st == 'exc':
                        R.exc(e)
                    if want == 'ambiguous':
                        R.count('ambiguous_not_judged')
                    else:
                        R.counters['oracle_evaluations'] += 1
                        if got != want:
                            R.violation(f'{"accepted" if got == "accept" else "rejected"}-{reason}', f'check_block_signatures {got}s a signature set that must be '
                                        f'{want}ed: {reason} (operator {op}, {len(sigs)} signatures, {n} validators, weights {wname})'
                                        + (f' error: {e!r}' if st == 'exc' else ''), W)
                    R.case(mon.fp(tuple(weights), tuple(W['signers']), op, rnd) if sigs else None,
                           sample={'n': n, 'weight_class': wname, 'operator': op, 'signers': W['signers'][:10], 'expected': want, 'reason': reason})

                for sname, chosen in subsets_near_threshold(rng, world):
                    honest = [sig(i) for i in chosen]
                    judge('honest:' + sname, honest)
                    if not chosen or sname in ('none',):
                        continue
                    # --- duplicates
                    j = rng.randrange(len(honest))
                    judge('dup-one:' + sname, honest + [honest[j]])
                    if sname == 'one' and n >= 2:
                        judge('dup-x7:' + sname, honest * 7)
                        judge('dup-xn:' + sname, honest * n)
                    if sname == 'one-less':
                        judge('dup-pushes-over:' + sname, honest + [honest[j]] * 3)
                    # --- the same validator listed twice, its id written in another hex case
                    up = dict(honest[j], node_id_short=honest[j]['node_id_short'].upper())
                    judge('dup-other-hex-case:' + sname, honest + [up])
                    if sname == 'one-less':
                        judge('dup-other-hex-case-pushes-over:' + sname, honest + [dict(h, node_id_short=h['node_id_short'].upper()) for h in honest])
                    # --- genuine signatures of this block, first checked (accepted or not), then presented for another block
                    other_blk = BlockIdExt(-1, -(1 << 63), blk.seqno, rng.randbytes(32), rng.randbytes(32))
                    mon.call(check_block_signatures, list(nodes), [dict(x) for x in honest], blk)
                    judge_for('replayed-for-other-block:' + sname, honest, other_blk)
                    # --- invalid entries at different positions
                    fk = SigningKey(rng.randbytes(32))
                    foreign = {'node_id_short': node_id(bytes(fk.verify_key)).hex(), 'signature': fk.sign(msg).signature}
                    k = chosen[j]
                    other_root = sig(k, MAGIC + rng.randbytes(32) + fileh)
                    other_file = sig(k, MAGIC + root + rng.randbytes(32))
                    swapped = sig(k, MAGIC + fileh + root)
                    no_magic = sig(k, root + fileh)
                    other_msg = sig(k, rng.randbytes(68))
                    flipped = dict(honest[j])
                    b = rng.randrange(512)
                    fs = bytearray(flipped['signature'])
                    fs[b // 8] ^= 1 << (b % 8)
                    flipped['signature'] = bytes(fs)
                    wrong_key = {'node_id_short': honest[j]['node_id_short'], 'signature': fk.sign(msg).signature}
                    misattributed = None
                    if len(chosen) > 1:
                        k2 = chosen[(j + 1) % len(chosen)]
                        misattributed = {'node_id_short': node_id(world.pubs[k]).hex(), 'signature': world.keys[k2].sign(msg).signature}
                    good = honest[j]['signature']
                    malformed = [('signature-empty', b''), ('signature-truncated-63', good[:63]), ('signature-65-bytes', good + b'\x00'),
                                 ('signature-32-bytes', good[:32]), ('signature-doubled-128', good + good), ('signature-1-byte', good[:1])]
                    for bname, sgn in (rng.sample(malformed, 2) if quick else malformed):
                        bad = dict(honest[j], signature=sgn)
                        judge(f'{bname}-replaces:' + sname, honest[:j] + [bad] + honest[j + 1:])
                        judge(f'{bname}-added:' + sname, honest + [dict(bad, node_id_short=honest[j]['node_id_short'])] if rng.random() < 0.5 else [bad] + honest)
                        R.count('malformed_signature_cases', 2)
                    x_ = rng.randbytes(rng.choice([1, 4, 32]))
                    blob = {'node_id_short': honest[j]['node_id_short'], 'signature': world.keys[k].sign(x_ + msg).signature + x_}
                    judge(f'signature-blob-with-message-prefix-replaces:' + sname, honest[:j] + [blob] + honest[j + 1:])
                    bads = [('foreign-signer', foreign), ('other-root-hash', other_root), ('other-file-hash', other_file), ('root-file-swapped', swapped),
                            ('no-magic', no_magic), ('other-message', other_msg), ('bit-flipped', flipped), ('wrong-key-right-id', wrong_key)]
                    if misattributed:
                        bads.append(('signature-of-another-validator', misattributed))
                    if quick:
                        bads = rng.sample(bads, 4)
                    for bname, bad in bads:
                        rest = honest[:j] + honest[j + 1:]
                        pos = rng.choice(['first', 'middle', 'last'])
                        lst = [bad] + rest if pos == 'first' else rest + [bad] if pos == 'last' else rest[:len(rest) // 2] + [bad] + rest[len(rest) // 2:]
                        judge(f'{bname}-replaces-{pos}:' + sname, lst)
                        judge(f'{bname}-added-{pos}:' + sname, [bad] + honest if pos == 'first' else honest + [bad])
                # ---- the same keys with other weights / in another order right afterwards: a verdict depends on the arguments of the call only
                if n >= 2:
                    alts = [('reversed', weights[::-1]), ('complemented', [max(weights) + 1 - w for w in weights]),
                            ('one-takes-all', [sum(weights) * 3 + 1 if i == n - 1 else 1 for i in range(n)])]
                    for aname, w2 in alts:
                        world2 = World.__new__(World)
                        world2.keys, world2.pubs, world2.weights, world2.total = world.keys, world.pubs, list(w2), sum(w2)
                        nodes2 = world2.nodes(rng)
                        for sname, chosen in subsets_near_threshold(rng, world2):
                            judge_for(f'same-keys-reweighted-{aname}:' + sname, [sig(i) for i in chosen], blk, world2, nodes2, list(w2), wname + '/' + aname)
                            R.count('reweighted_cases')
                    perm = list(range(n))
                    rng.shuffle(perm)
                    world3 = World.__new__(World)
                    world3.keys, world3.pubs = [world.keys[i] for i in perm], [world.pubs[i] for i in perm]
                    world3.weights, world3.total = list(weights), sum(weights)          # the weights stay in place: every key gets another one
                    nodes3 = world3.nodes(rng)
                    for sname, chosen in subsets_near_threshold(rng, world3):
                        s3 = [{'node_id_short': node_id(world3.pubs[i]).hex(), 'signature': world3.keys[i].sign(msg).signature} for i in chosen]
                        judge_for('same-keys-permuted:' + sname, s3, blk, world3, nodes3, list(weights), wname + '/permuted')
                        R.count('reweighted_cases')
                R.cover('set_sizes', n)
                R.cover('weight_classes', wname)
    # ---- 64-bit weights whose signed share misses / passes two thirds by a handful of units (exact integer arithmetic decides)
    from nacl.signing import SigningKey as _SK
    for e in ([-97, -33, -32, -11, -2, -1, 0, 1, 2, 11, 33] if quick else list(range(-40, 41)) + [-97, -1000, 97, 1000]):
        for rep in range(1 if quick else 3):
            st, res = mon.call(knife_edge_world, rng, e, rng.randint(1, 4), rng.randint(1, 4))
            if st == 'exc':
                continue
            weights, signers = res
            world = World(rng, len(weights), weights)
            nodes = world.nodes(rng)
            root, fileh = rng.randbytes(32), rng.randbytes(32)
            blk = BlockIdExt(-1, -(1 << 63), rng.getrandbits(31), root, fileh)
            msg = MAGIC + root + fileh
            sigs = [{'node_id_short': node_id(world.pubs[i]).hex(), 'signature': world.keys[i].sign(msg).signature} for i in signers]
            want, reason = r7(world, sigs, root, fileh)
            st, err = mon.call(check_block_signatures, list(nodes), sigs, blk)
            got = 'accept' if st == 'ok' else 'reject'
            R.counters['oracle_evaluations'] += 1
            R.count('knife_edge_cases')
            R.count('verdict_' + want)
            R.cover('knife_edge_margins', e)
            if got != want:
                R.violation(f'{"accepted" if got == "accept" else "rejected"}-{reason}-64bit-margin', f'64-bit weights, 3*signed - 2*total = {e}: {got} but must {want}',
                            {'n': len(weights), 'weights': [str(w) for w in weights], 'signers': signers, 'margin': e, 'operator': 'knife-edge',
                             'seeds': [bytes(k).hex() for k in world.keys], 'root': root, 'file': fileh, 'reason': reason, 'weight_class': 'knife-edge'})
            R.case(mon.fp('knife', e, tuple(weights), tuple(signers)))
    # ---- two entries of the supplied set carrying the same public key: the set's total weight is the sum over ALL supplied entries. Only a validator with a key of its
    # own signs (which entry a signature by the shared key would count for is not defined, so that is not asked)
    from nacl.signing import SigningKey
    from pytoniq_core.tlb.config import ValidatorDescr, SigPubKey
    for rep in range(40 if quick else 1500):
        kK, kL = SigningKey(rng.randbytes(32)), SigningKey(rng.randbytes(32))
        a, b_, c = rng.choice([(10, 1, 3), (1, 10, 3), (1, 1, 10), (5, 5, 21), (5, 5, 20), (7, 0, 15), (0, 7, 14), (rng.randint(1, 50), rng.randint(1, 50), rng.randint(1, 300))])
        entries = [(kK, a), (kK, b_), (kL, c)]
        if rep % 3 == 1:
            entries = [(kL, c), (kK, a), (kK, b_)]
        elif rep % 3 == 2:
            entries = [(kK, a), (kL, c), (kK, b_)]
        nodes = [ValidatorDescr('validator', SigPubKey(bytes(k.verify_key)), w) for k, w in entries]
        root, fileh = rng.randbytes(32), rng.randbytes(32)
        blk = BlockIdExt(-1, -(1 << 63), rng.getrandbits(31), root, fileh)
        sigs = [{'node_id_short': node_id(bytes(kL.verify_key)).hex(), 'signature': kL.sign(MAGIC + root + fileh).signature}]
        total = a + b_ + c
        want = 'accept' if 3 * c > 2 * total else 'reject'
        st, e = mon.call(check_block_signatures, nodes, sigs, blk)
        got = 'accept' if st == 'ok' else 'reject'
        R.counters['oracle_evaluations'] += 1
        R.count('shared_key_entry_cases')
        R.count('verdict_' + want)
        R.check(got == want, f'{"accepted" if got == "accept" else "rejected"}-with-two-entries-sharing-a-key',
                f'validator set with two entries of one public key (weights {a}, {b_}) and a third validator of weight {c} who alone signs: total {total}, signed {c} - must be {want}ed, was {got}ed',
                {'weights_in_order': [w for _, w in entries], 'signer_weight': c, 'total': total})
        R.case(mon.fp('sharedkey', a, b_, c, rep % 3))
    R.floor('knife_edge_cases', 10)
    R.floor('nodes_parsed-from-tlb', 300)
    R.floor('nodes_compute_validator_set', 300)
    R.floor('reweighted_cases', 100)
    R.floor('malformed_signature_cases', 50)
    R.floor('verdict_accept', 40)
    R.floor('verdict_reject', 300)
    R.floor('reasons', 6, 'set')


def replay(R, w, rec):
    from pytoniq_core.proof.check_proof import check_block_signatures
    from pytoniq_core.tl.block import BlockIdExt
    from nacl.signing import SigningKey
    import random
    n = w['n']
    if n > 12 or any(s < 0 for s in w['signers']) or not w['operator'].startswith(('honest', 'dup')):
        R.inconc('replay-supports-honest/duplicate-lists-of-sets<=12-only')
        return
    world = World(random.Random(1), n, [int(x) for x in w['weights']])
    world.keys = [SigningKey(bytes.fromhex(s)) for s in w['seeds']]
    world.pubs = [bytes(k.verify_key) for k in world.keys]
    root, fileh = w['root'], w['file']
    blk = BlockIdExt(-1, -(1 << 63), 1, root, fileh)
    sigs = [{'node_id_short': node_id(world.pubs[i]).hex(), 'signature': world.keys[i].sign(MAGIC + root + fileh).signature} for i in w['signers']]
    want, reason = r7(world, sigs, root, fileh)
    st, e = mon.call(check_block_signatures, world.nodes(random.Random(2)), sigs, blk)
    R.case(None)
    if want == 'ambiguous':
        R.inconc('ambiguous-case')
        return
    got = 'accept' if st == 'ok' else 'reject'
    R.check(got == want, f'{"accepted" if got == "accept" else "rejected"}-{reason}', f'replay: {got} but must {want}: {reason}', w)

"""C16 - transaction, account and block parsers read exactly what block.tlb specifies (values encoded by the independent R3 transcription)."""
import importlib
import os

from lib import bridge, gen, mon, refcell as rc, tlbref as T, tlbspec as S
from checks import c15_messages as c15

SHARDS = 16
SHARD_TIMEOUT = 3600
SENT_BITS = '1011'

# library class for a schema type, and (schema constructor -> value of the object's type_ attribute); '*' = not exposed / not compared, None = parser returns None
LIBCLS = {
    'AccStatusChange': ('transaction', 'AccStatusChange'), 'ComputeSkipReason': ('transaction', 'ComputeSkipReason'), 'AccountStatus': ('account', 'AccountStatus'),
    'StorageUsedShort': ('account', 'StorageUsedShort'), 'TrStoragePhase': ('transaction', 'TrStoragePhase'), 'TrCreditPhase': ('transaction', 'TrCreditPhase'),
    'TrComputePhase': ('transaction', 'TrComputePhase'), 'TrActionPhase': ('transaction', 'TrActionPhase'), 'TrBouncePhase': ('transaction', 'TrBouncePhase'),
    'SplitMergeInfo': ('transaction', 'SplitMergeInfo'), 'TransactionDescr': ('transaction', 'TransactionDescr'), 'HashUpdate': ('utils', 'HashUpdate'),
    'Transaction': ('transaction', 'Transaction'), 'IntermediateAddress': ('transaction', 'IntermediateAddress'), 'MsgEnvelope': ('transaction', 'MsgEnvelope'),
    'InMsg': ('transaction', 'InMsg'), 'OutMsg': ('transaction', 'OutMsg'), 'ImportFees': ('transaction', 'ImportFees'), 'StorageUsed': ('account', 'StorageUsed'),
    'StorageInfo': ('account', 'StorageInfo'), 'StateInit': ('account', 'StateInit'), 'TickTock': ('account', 'TickTock'), 'AccountState': ('account', 'AccountState'),
    'AccountStorage': ('account', 'AccountStorage'), 'Account': ('account', 'Account'), 'ShardAccount': ('account', 'ShardAccount'), 'AccountBlock': ('account', 'AccountBlock'),
    'ShardIdent': ('block', 'ShardIdent'), 'ExtBlkRef': ('block', 'ExtBlkRef'), 'BlkMasterInfo': ('block', 'BlkMasterInfo'), 'GlobalVersion': ('block', 'GlobalVersion'),
    'ValueFlow': ('block', 'ValueFlow'), 'FutureSplitMerge': ('block', 'FutureSplitMerge'), 'ShardDescr': ('block', 'ShardDescr'), 'SigPubKey': ('config', 'SigPubKey'),
    'ValidatorDescr': ('config', 'ValidatorDescr'), 'ValidatorSet': ('config', 'ValidatorSet'), 'CatchainConfig': ('config', 'CatchainConfig'),
    'ValidatorInfo': ('block', 'ValidatorInfo'), 'KeyExtBlkRef': ('block', 'KeyExtBlkRef'), 'KeyMaxLt': ('block', 'KeyMaxLt'), 'Counters': ('block', 'Counters'),
    'CreatorStats': ('block', 'CreatorStats'), 'BlockExtra': ('block', 'BlockExtra'), 'ShardStateUnsplit': ('block', 'ShardStateUnsplit'),
    'DepthBalanceInfo': ('block', 'DepthBalanceInfo'),
}
TAGS = {
    ('AccStatusChange', 'acst_unchanged'): 'unchanged', ('AccStatusChange', 'acst_frozen'): 'frozen', ('AccStatusChange', 'acst_deleted'): 'deleted',
    ('ComputeSkipReason', 'cskip_no_state'): 'no_state', ('ComputeSkipReason', 'cskip_bad_state'): 'bad_state', ('ComputeSkipReason', 'cskip_no_gas'): 'no_gas',
    ('ComputeSkipReason', 'cskip_suspended'): 'suspended',
    ('AccountStatus', 'acc_state_uninit'): 'uninitialized', ('AccountStatus', 'acc_state_frozen'): 'frozen', ('AccountStatus', 'acc_state_active'): 'active',
    ('AccountStatus', 'acc_state_nonexist'): 'nonexist',
    ('TrComputePhase', 'tr_phase_compute_skipped'): 'skipped', ('TrComputePhase', 'tr_phase_compute_vm'): 'vm',
    ('TrBouncePhase', 'tr_phase_bounce_negfunds'): 'negfunds', ('TrBouncePhase', 'tr_phase_bounce_nofunds'): 'nofunds', ('TrBouncePhase', 'tr_phase_bounce_ok'): 'ok',
    ('TransactionDescr', 'trans_ord'): 'ordinary', ('TransactionDescr', 'trans_storage'): 'storage', ('TransactionDescr', 'trans_tick_tock'): 'tick_tock',
    ('TransactionDescr', 'trans_split_prepare'): 'split_prepare', ('TransactionDescr', 'trans_split_install'): 'split_install',
    ('TransactionDescr', 'trans_merge_prepare'): 'merge_prepare', ('TransactionDescr', 'trans_merge_install'): 'merge_install',
    ('OutMsg', 'msg_export_deq_short'): 'msg_export_deq',        # the library reports the short form under the long form's name (values are returned): recorded, not alarmed
    ('Account', 'account_none'): None, ('FutureSplitMerge', 'fsm_none'): None,
    ('Account', 'account'): '*', ('ShardDescr', 'shard_descr'): '*', ('ShardDescr', 'shard_descr_new'): '*',
}
# schema field -> attribute the library exposes it under (the value is returned; naming differences are recorded, not alarmed)
ALIAS = {('ExtBlkRef', 'seq_no'): 'seqno', ('InMsg', 'msg_discard_fin', 'fwd_fee'): 'transit_fee'}
SINGLE_NO_TYPE = {'StorageUsedShort', 'TrStoragePhase', 'TrCreditPhase', 'TrActionPhase', 'SplitMergeInfo', 'HashUpdate', 'Transaction', 'ImportFees', 'StorageUsed', 'StorageInfo',
                  'StateInit', 'TickTock', 'AccountStorage', 'ShardAccount', 'AccountBlock', 'ShardIdent', 'ExtBlkRef', 'BlkMasterInfo', 'GlobalVersion', 'SigPubKey',
                  'ValidatorInfo', 'KeyExtBlkRef', 'KeyMaxLt', 'Counters', 'CreatorStats', 'BlockExtra', 'ShardStateUnsplit', 'DepthBalanceInfo'}


class Cmp:
    """field-by-field comparison of an encoded value with the object the library's parser returned"""

    def __init__(self, R, L):
        self.R, self.L = R, L
        self.diffs = []
        self.fields = 0
        self.ctx = []

    def d(self, path, kind, msg):
        # mechanism key = innermost (type, field) + kind, never the access path or the random values
        leaf = path.split('.')[-1].split('[')[0]
        self.diffs.append((path, kind, msg, f'{self.ctx[-1] if self.ctx else "?"}.{leaf}'))

    def integer(self, path, v, o, signed):
        self.fields += 1
        if isinstance(o, bool) or not isinstance(o, int):
            self.d(path, 'type', f'expected int {v}, got {type(o).__name__} {mon.srepr(o, 40)}')
        elif o != v:
            kind = 'unsigned-read-as-signed' if (not signed and o < 0 and o + (1 << max(v.bit_length(), 1)) == v) else ('unsigned-negative' if (not signed and o < 0) else 'value')
            self.d(path, kind, f'{o} != {v}')

    def go(self, path, ty, v, o):
        k = ty[0]
        if k in ('u', 'le', 'grams', 'varu', 'main16'):
            return self.integer(path, v, o, False)
        if k == 'i':
            return self.integer(path, v, o, True)
        if k == 'const':
            return
        if k == 'bool':
            self.fields += 1
            if not (isinstance(o, (bool, int)) and bool(o) == bool(v) and o in (0, 1, True, False)):
                self.d(path, 'value', f'bool {o!r} != {v!r}')
            return
        if k == 'bits':
            self.fields += 1
            ok = (isinstance(o, (bytes, bytearray)) and bytes(o) == v) or (isinstance(o, str) and o.lower() == v.hex())
            if not ok:
                self.d(path, 'value', f'{mon.srepr(o, 40)} != {v.hex()[:20]}..')
            return
        if k == 'cc':
            self.fields += 1
            try:
                got = self.L.l_cc(o)
            except Exception as e:
                return self.d(path, 'type', f'not a CurrencyCollection: {mon.srepr(o, 40)} ({e!r})')
            if got != T.norm_cc(v):
                self.d(path, 'value', f'currency collection {mon.srepr(got, 60)} != {mon.srepr(T.norm_cc(v), 60)}')
            return
        if k == 'addr':
            self.fields += 1
            got = self.L.l_addr(o) if o is not None else None
            if got != v:
                self.d(path, 'value', f'address {mon.srepr(got, 60)} != {mon.srepr(v, 60)}')
            return
        if k == 'cell':
            self.fields += 1
            if not (hasattr(o, 'hash') and o.hash == v.hash):
                self.d(path, 'value', f'cell differs: {mon.srepr(o, 40)}')
            return
        if k == 'msg':
            self.fields += 1
            try:
                got = T.norm_msg(self.L.l_message(o))
            except Exception as e:
                return self.d(path, 'type', f'not a message: {mon.srepr(o, 40)} ({e!r})')
            dd = c15.diff(got, T.norm_msg(v['msg']))
            if dd:
                self.d(path, 'value', f'message differs: {dd}')
            return
        if k == 'maybe':
            if v is None:
                self.fields += 1
                if o is not None:
                    self.d(path, 'maybe', f'absent field came back as {mon.srepr(o, 40)}')
                return
            if o is None:
                self.fields += 1
                return self.d(path, 'maybe', 'present field came back as None')
            return self.go(path, ty[1], v, o)
        if k == 'ref':
            return self.go(path, ty[1], v, o)
        if k == 'seq':
            raise AssertionError('seq is flattened into the parent')
        if k == 't':
            return self.obj(path, ty[1], v, o)
        if k in ('hme', 'hm'):
            self.fields += 1
            if not v:
                if o not in (None, {}):
                    self.d(path, 'dict', f'empty dictionary came back as {mon.srepr(o, 40)}')
                return
            if not isinstance(o, dict) or sorted(o) != sorted(v):
                return self.d(path, 'dict', f'dictionary keys differ: {mon.srepr(sorted(o) if isinstance(o, dict) else o, 60)} vs {sorted(v)[:6]}')
            for key in v:
                self.go(f'{path}[{key}]', ty[2], v[key], o[key])
            return
        if k in ('hmaug', 'hmauge'):
            self.fields += 1
            try:
                items, extras = o
                items = items or {}
            except Exception:
                return self.d(path, 'dict', f'augmented dictionary came back as {mon.srepr(o, 40)}')
            if sorted(items) != sorted(v['items']):
                return self.d(path, 'dict', f'augmented dictionary keys differ: {len(items)} returned, {len(v["items"])} encoded')
            for key in v['items']:
                self.go(f'{path}[{key}]', ty[2], v['items'][key], items[key])
            if v['items'] and len(extras or []) < 2 * len(v['items']) - 1:
                self.d(path, 'dict', f'{len(extras or [])} augmentation values for {len(v["items"])} leaves')
            return
        raise ValueError(ty)

    def obj(self, path, name, v, o):
        ctors = S.TYPES[name]
        c = next(c for c in ctors if c[0] == v['_'])
        want_tag = TAGS.get((name, c[0]), c[0] if name not in SINGLE_NO_TYPE else '*')
        if want_tag is None:
            self.fields += 1
            if o is not None:
                self.d(path, 'constructor', f'{c[0]} came back as {mon.srepr(o, 40)}')
            return
        if o is None:
            self.fields += 1
            return self.d(path, 'constructor', f'{c[0]} came back as None')
        if want_tag != '*':
            self.fields += 1
            got = getattr(o, 'type_', '<no type_>')
            if got != want_tag:
                self.d(path + '._', 'constructor', f'constructor {c[0]} reported as {got!r} (expected {want_tag!r})')
        if name == 'ShardAccount' and hasattr(o, 'cell') and '[' in path:      # as a dictionary leaf (stand-alone, the harness' sentinel follows the value in the same cell)
            # the parser also keeps the account_descr as a cell: it is exactly the value (account reference, last_trans_hash, last_trans_lt), whatever was read from
            # the same dictionary leaf before it (the leaf's DepthBalanceInfo may hold a reference of its own)
            self.fields += 1
            w_ = T.W()
            S.enc(w_, S.t('ShardAccount'), v)
            want = w_.cell()
            got = getattr(o, 'cell', None)
            if not (hasattr(got, 'hash') and got.hash == want.hash and len(got.refs) == 1):
                self.d(path + '.cell', 'value', f'kept account_descr cell differs from the encoded value: {mon.srepr(got, 60)} with {len(getattr(got, "refs", []))} references')
        self.ctx.append(name)
        try:
            for f, ft in self.flat_fields(c[2]):
                if ft[0] == 'const':
                    continue
                attr = ALIAS.get((name, c[0], f), ALIAS.get((name, f), f))
                if not hasattr(o, attr):
                    self.fields += 1
                    self.d(f'{path}.{f}', 'missing', f'parsed {type(o).__name__} has no attribute {attr!r}')
                    continue
                got = getattr(o, attr)
                if (name, f) == ('Transaction', 'out_msgs'):
                    # exposed as the list of messages in key order
                    self.fields += 1
                    want = [v[f][k] for k in sorted(v[f])]
                    if not isinstance(got, list) or len(got) != len(want):
                        self.d(f'{path}.{f}', 'dict', f'{len(want)} outbound messages came back as {mon.srepr(got, 40)}')
                    else:
                        for i, (a, b) in enumerate(zip(want, got)):
                            self.go(f'{path}.{f}[{i}]', S.MSG, a, b)
                    continue
                self.go(f'{path}.{f}', ft, v[f], got)
        finally:
            self.ctx.pop()

    @staticmethod
    def flat_fields(fields):
        out = []
        for f, ft in fields:
            if f.startswith('_') and ft[0] == 'ref' and ft[1][0] == 'seq':
                out.extend(ft[1][1])
            else:
                out.append((f, ft))
        return out


def field_type_at(name, cname, path):
    """type form of the field a diff path ends in (for mechanism keys): e.g. u64, i32, grams, bool, constructor"""
    return path


def run(R):
    rng = R.rng
    quick = R.tier == 'quick'
    L = c15.Lib()
    mods = {m: importlib.import_module(f'pytoniq_core.tlb.{m}') for m in ('transaction', 'account', 'block', 'config', 'utils')}
    R.rule = ('for every constructor of the covered block.tlb types (85 constructors of 45 types transcribed independently as data in lib/tlbspec.py, plus hand-written '
              'BlockInfo / BlkPrevInfo / McStateExtra encoders, ShardHashes over every BinTree shape up to 5 leaves, and the ConfigParam 8/28/32-37 entry points of covered types) values are generated with every optional-field combination reachable, '
              'integers at the boundaries of their width (>= 2^63 for uint64, >= 2^31 for uint32), encoded by the reference, followed by 4 sentinel bits and one '
              'sentinel reference; the library parser must return every field with the encoded value (unsigned stays unsigned, after the documented bytes<->hex, '
              'bit<->bool and attribute-name mapping) and leave exactly the sentinel. The bundled main-net block is decoded by the reference (header by hand, value flow / state update / block extra with its in-, out-message and '
              'account-block dictionaries and every transaction in them by the generic decoder, exact consumption enforced) and compared field by field with Block.deserialize. distinct = distinct (constructor, encoded cell); non-trivial = constructor with at least one field')
    R.assumptions = ['R3 transcription (lib/tlbspec.py, lib/tlbref.py) of the bundled tlb/schemas/block.tlb', 'attribute-name differences are recorded (ALIAS/TAGS tables), not alarmed',
                     'values are generated so that each constructor fits one cell (amounts are shortened when necessary)']
    g = S.G(rng, msg_gen=lambda r: {'info': c15.g_info(r), 'init': c15.g_state_init(r) if r.random() < 0.3 else None,
                                   'body': c15.g_cell(r, r.choice([0, 8, 200]), r.choice([0, 1]))})
    inv = bridge.CellInvariant(R).install()
    try:
        ctors = S.all_ctors()
        per = 70 if quick else 3000
        for ci, (name, cname) in enumerate(ctors):
            if R.nshards > 1 and ci % R.nshards != R.shard:
                continue
            cls = getattr(mods[LIBCLS[name][0]], LIBCLS[name][1])
            # first every combination of the structural decisions near the top (optional fields present/absent, alternatives of the direct sub-fields), then random values
            systematic = list(S.enum_values(g, name, cname, 120 if quick else 1500))
            R.count('structural_combinations', len(systematic))
            for k in range(len(systematic) + per):
                v, w = systematic[k] if k < len(systematic) else S.fitting_value(g, name, cname)
                if v is None:
                    R.count('value_does_not_fit_skipped')
                    continue
                nb, nr = w.nbits(), len(w.refs)
                if nb + len(SENT_BITS) > 1023 or nr + 1 > 4:
                    sentinel = False
                else:
                    sentinel = True
                    w.bits(SENT_BITS).ref(rc.RC('0110'))
                cell = w.cell()
                one_case(R, L, cls, name, cname, v, cell, sentinel)
        toplevel_messages(R, L, mods, rng, quick, g)
        config_wrappers(R, L, mods, rng, quick, g)
        shard_hashes(R, L, mods, rng, quick, g)
        if R.shard == 0:
            shard_hashes_at_scale(R, L, mods, rng, quick, g)
        custom_block_types(R, L, mods, rng, quick, g)
        mainnet_block(R, L, mods)
    finally:
        inv.uninstall()
    R.extra['constructors_generated'] = {f'{a}.{b}': n for (a, b), n in sorted(g.ctor_counts.items())}
    if R.nshards == 1:
        R.floor('constructors_covered', 80, 'set')
    R.floor('fields_compared', 3000)
    R.floor('structural_combinations', 300)
    R.floor('sentinel_checks', 200)
    R.floor('blockinfo_cases', 16)
    if R.nshards == 1:
        R.floor('mainnet_block_fields', 200)
    R.floor('config_wrapper_cases', 10)
    R.floor('toplevel_message_cases', 20)
    if R.nshards == 1:
        R.floor('shard_hashes_cases', 20)


def one_case(R, L, cls, name, cname, v, cell, sentinel, deser=None, via=None):
    W = {'type': name, 'constructor': cname, 'boc': rc.encode_boc([cell]), 'sentinel': sentinel}
    if via:
        W['entry_point'] = via
        R.cover('entry_points', via)
    R.cover('constructors_covered', (name, cname))
    st, lc = mon.call(bridge.to_lib, cell)
    if st == 'exc':
        R.violation(f'cannot-build-{name}', f'encoded {name}.{cname} cannot be constructed: {lc!r}', W)
        return
    # now and then the same parser is first given damaged versions of the cell (cut short, a reference missing, leading tag bits inverted); what it does with
    # them is not judged here - but the valid parse that follows must not depend on them (guards, counters and caches left behind by a rejected parse)
    if R.rng.random() < 0.3:
        for _ in range(R.rng.randint(1, 3)):
            bits, refs = cell.bits, list(cell.refs)
            how = R.rng.choice(['cut', 'cut', 'ref', 'tag'])
            if how == 'cut' and bits:
                bits = bits[:R.rng.randrange(len(bits))]
            elif how == 'ref' and refs:
                refs = refs[:-1]
            else:
                k = min(len(bits), R.rng.randint(1, 6))
                bits = ''.join('1' if c == '0' else '0' for c in bits[:k]) + bits[k:]
            st0, bad = mon.call(lambda: bridge.to_lib(rc.RC(bits, refs)).begin_parse())
            if st0 == 'ok':
                st0, _ = mon.call((deser or cls.deserialize), bad)
                R.cover('damaged_parse_outcomes', f'{how}:{st0}')
                R.count('damaged_parses_before_valid')
    sl = lc.begin_parse()
    st, o = mon.call((deser or cls.deserialize), sl)
    R.counters['oracle_evaluations'] += 1
    R.case(mon.fp(name, cname, cell.hash) if S.TYPES.get(name) is None or next(c for c in S.TYPES[name] if c[0] == cname)[2] else None,
           sample={'type': name, 'constructor': cname} if R.evaluations < 4 else None)
    if st == 'exc':
        R.exc(o)
        R.violation(f'deserialize-raises-{(via + ":") if via else ""}{name}.{cname}-{type(o).__name__}', f'{via or name}.deserialize raised {o!r} on a valid {cname}', W)
        return
    # what is left of the slice is recorded, then read to its end before the parsed object is looked at: the object must not depend on the slice any more
    left_bits, left_refs = sl.bits.to01(), len(sl.refs) - sl.ref_offset
    mon.call(lambda: (sl.skip_bits(sl.remaining_bits), [sl.load_ref() for _ in range(sl.remaining_refs)]))
    C = Cmp(R, L)
    try:
        C.obj('$', name, v, o)
    except Exception as e:
        R.violation(f'comparison-failed-{name}.{cname}', f'parsed object cannot be compared: {e!r}', W)
        return
    R.count('fields_compared', C.fields)
    for path, kind, msg, where in C.diffs[:3]:
        R.violation(f'field-differs-{where}-{kind}', f'{name}.{cname}: field {path}: {msg}', W)
    if sentinel and not C.diffs:
        R.count('sentinel_checks')
        if left_bits != SENT_BITS or left_refs != 1:
            R.violation(f'consumed-wrong-amount-{name}.{cname}', f'{name}.{cname}: after parsing, {len(left_bits)} bits / {left_refs} refs remain instead of the 4 sentinel bits / 1 sentinel '
                        f'reference', W)


def toplevel_messages(R, L, mods, rng, quick, g):
    """message$_ ... = Message X read from the caller's own slice (inside the other types messages sit behind references): parse, read the slice to its end,
    then compare the returned object with the encoded value"""
    for k in range(40 if quick else 2000):
        v = g.value(S.MSG)
        try:
            cell = T.cell_of(T.enc_message, v['msg'], *v['placement'])
        except rc.RefError:
            continue
        W = {'type': 'Message', 'placement': list(v['placement']), 'boc': rc.encode_boc([cell])}
        sl = bridge.to_lib(cell).begin_parse()
        st, o = mon.call(mods['transaction'].MessageAny.deserialize, sl)
        R.counters['oracle_evaluations'] += 1
        R.count('toplevel_message_cases')
        R.cover('constructors_covered', ('Message', f'{v["placement"][0]}-{v["placement"][1]}'))
        R.case(mon.fp('msg', cell.hash))
        if st == 'exc':
            R.violation(f'deserialize-raises-Message-{type(o).__name__}', f'MessageAny.deserialize raised {o!r} on a valid message', W)
            continue
        left = (sl.remaining_bits, sl.remaining_refs)
        mon.call(lambda: (sl.skip_bits(sl.remaining_bits), [sl.load_ref() for _ in range(sl.remaining_refs)]))
        C = Cmp(R, L)
        C.ctx.append('Message')
        C.go('$', S.MSG, v, o)
        R.count('fields_compared', C.fields)
        for path, kind, msg, where in C.diffs[:3]:
            R.violation(f'field-differs-{where}-{kind}', f'Message: {msg} (compared after the source slice was read to its end; {left} bits/refs were left after the parse)', W)


# ------------------------------------------------------------------------------------------- configuration-parameter entry points of covered types
WRAPPERS = [('ConfigParam28', 'CatchainConfig', None), ('ConfigParam8', 'GlobalVersion', None), ('ConfigParam32', 'ValidatorSet', 'prev_validators'),
            ('ConfigParam33', 'ValidatorSet', 'prev_temp_validators'), ('ConfigParam34', 'ValidatorSet', 'cur_validators'), ('ConfigParam35', 'ValidatorSet', 'cur_temp_validators'),
            ('ConfigParam36', 'ValidatorSet', 'next_validators'), ('ConfigParam37', 'ValidatorSet', 'next_temp_validators')]


def config_wrappers(R, L, mods, rng, quick, g):
    """_ CatchainConfig = ConfigParam 28; _ cur_validators:ValidatorSet = ConfigParam 34; ... : the same schema types reached through their ConfigParam entry points"""
    for wname, tname, attr in WRAPPERS:
        wcls = getattr(mods['config'], wname, None)
        if wcls is None:
            R.count('config_wrapper_absent')
            continue
        for c in S.TYPES[tname]:
            for rep in range(2 if quick else 20):
                v, w = S.fitting_value(g, tname, c[0])
                if v is None:
                    continue
                w.bits(SENT_BITS).ref(rc.RC('0110'))
                deser = (lambda sl: wcls.deserialize(sl)) if attr is None else (lambda sl: getattr(wcls.deserialize(sl), attr))
                one_case(R, L, wcls, tname, c[0], v, w.cell(), True, deser=deser, via=wname)
                R.count('config_wrapper_cases')


# ------------------------------------------------------------------------------------------- ShardHashes: HashmapE 32 ^(BinTree ShardDescr)
def tree_shapes(n):
    """all binary tree shapes with n leaves: None = leaf, (l, r) = fork"""
    if n == 1:
        return [None]
    return [(l, r) for k in range(1, n) for l in tree_shapes(k) for r in tree_shapes(n - k)]


def shard_hashes(R, L, mods, rng, quick, g):
    """bt_leaf$0 leaf:X / bt_fork$1 left:^(BinTree X) right:^(BinTree X): every tree shape up to 6 (quick 5) leaves; the leaves must come back left to right"""
    from pytoniq_core.tlb.utils import deserialize_shard_hashes
    shapes = [sh for n in range(1, (6 if quick else 7)) for sh in tree_shapes(n)]
    for si, shape in enumerate(shapes):
        if R.nshards > 1 and si % R.nshards != R.shard:
            continue
        for rep in range(2 if quick else 6):
            leaves = []

            def build(sh):
                w = T.W()
                if sh is None:
                    g.small = True
                    v = g.value(S.t('ShardDescr'))
                    g.small = False
                    leaves.append(v)
                    w.u(0, 1)
                    S.enc(w, S.t('ShardDescr'), v)
                else:
                    w.u(1, 1).ref(build(sh[0])).ref(build(sh[1]))
                return w.cell()
            try:
                tree = build(shape)
            except rc.RefError:
                R.count('shard_tree_does_not_fit')
                continue
            wcs = {0: tree}
            if rep % 2:
                wcs[rng.choice([1, 7, 2 ** 31 - 1])] = build(None)
                leaves_second = leaves.pop()
            w = T.W()
            T.enc_hashmap_e(w, wcs, 32, lambda vw, x: vw.ref(x))
            w.bits(SENT_BITS)
            cell = w.cell()
            W = {'type': 'ShardHashes', 'shape': repr(shape), 'leaves': len(leaves), 'boc': rc.encode_boc([cell])}
            sl = bridge.to_lib(cell).begin_parse()
            st, o = mon.call(deserialize_shard_hashes, sl)
            R.counters['oracle_evaluations'] += 1
            R.count('shard_hashes_cases')
            R.cover('constructors_covered', ('ShardHashes', f'{len(leaves)}-leaves'))
            R.case(mon.fp('shardhashes', cell.hash))
            if st == 'exc':
                R.exc(o)
                R.violation(f'deserialize-raises-ShardHashes-{type(o).__name__}', f'deserialize_shard_hashes raised {o!r} on a BinTree of shape {shape!r}', W)
                continue
            lst = getattr((o or {}).get(0), 'list', None)
            if not isinstance(lst, list) or len(lst) != len(leaves):
                R.violation('field-differs-ShardHashes-leaf-count', f'BinTree with {len(leaves)} leaves came back as {mon.srepr(lst, 60)}', W)
                continue
            C = Cmp(R, L)
            for i, (v, got) in enumerate(zip(leaves, lst)):
                C.obj(f'$[0].list[{i}]', 'ShardDescr', v, got)
            R.count('fields_compared', C.fields)
            if C.diffs:
                # a whole leaf in another position shows as many field differences: name the mechanism once
                order = [next((j for j, v in enumerate(leaves) if getattr(got, 'root_hash', None) == v['root_hash']), -1) for got in lst]
                if sorted(order) == list(range(len(leaves))) and order != list(range(len(leaves))):
                    R.violation('field-differs-ShardHashes-leaf-order', f'BinTree leaves came back in order {order}, encoded left to right (shape {shape!r})', W)
                else:
                    for path, kind, msg, where in C.diffs[:3]:
                        R.violation(f'field-differs-{where}-{kind}', f'ShardHashes: field {path}: {msg}', W)
            R.check(sl.bits.to01() == SENT_BITS and sl.remaining_refs == 0, 'consumed-wrong-amount-ShardHashes', 'deserialize_shard_hashes did not consume exactly the dictionary bit and reference', W)


def shard_hashes_at_scale(R, L, mods, rng, quick, g):
    """a shard tree with 2^16 (thorough also 2^17) leaves, encoded as 17 cells (both children of every fork are the same cell): every leaf comes back, in order"""
    from pytoniq_core.tlb.utils import deserialize_shard_hashes
    g.small = True
    v = g.value(S.t('ShardDescr'))
    g.small = False
    for depth in ((16,) if quick else (15, 16, 17)):
        w = T.W()
        w.u(0, 1)
        S.enc(w, S.t('ShardDescr'), v)
        c = w.cell()
        for _ in range(depth):
            c = T.W().u(1, 1).ref(c).ref(c).cell()
        top = T.W()
        T.enc_hashmap_e(top, {0: c}, 32, lambda vw, x: vw.ref(x))
        cell = top.cell()
        st, o = mon.call(deserialize_shard_hashes, bridge.to_lib(cell).begin_parse())
        R.counters['oracle_evaluations'] += 1
        R.count('shard_hashes_at_scale')
        W = {'type': 'ShardHashes', 'leaves': 2 ** depth, 'cells': depth + 2}
        if st == 'exc':
            R.exc(o)
            R.violation(f'deserialize-raises-ShardHashes-at-scale-{type(o).__name__}', f'a BinTree of 2^{depth} shard descriptors (a valid ShardHashes) raised {o!r}', W)
            continue
        lst = getattr((o or {}).get(0), 'list', None)
        if not R.check(isinstance(lst, list) and len(lst) == 2 ** depth, 'field-differs-ShardHashes-leaf-count', f'BinTree with 2^{depth} leaves came back with {len(lst) if isinstance(lst, list) else lst!r}', W):
            continue
        C = Cmp(R, L)
        for i in (0, 1, 2 ** depth // 2, 2 ** depth - 1):
            C.obj(f'$[0].list[{i}]', 'ShardDescr', v, lst[i])
        for path, kind, msg, where in C.diffs[:3]:
            R.violation(f'field-differs-{where}-{kind}', f'ShardHashes at scale: field {path}: {msg}', W)
        R.case(mon.fp('shardscale', depth))


# ------------------------------------------------------------------------------------------- hand-written composite types
def enc_blk_prev_info(w, v, after_merge):
    """prev_blk_info$_ prev:ExtBlkRef = BlkPrevInfo 0;  prev_blks_info$_ prev1:^ExtBlkRef prev2:^ExtBlkRef = BlkPrevInfo 1;"""
    if not after_merge:
        S.enc(w, S.t('ExtBlkRef'), v['prev'])
    else:
        w.sub(S.enc, S.t('ExtBlkRef'), v['prev1']).sub(S.enc, S.t('ExtBlkRef'), v['prev2'])


def enc_block_info(w, b):
    """block_info#9bc7a987 version:uint32 not_master:(## 1) after_merge:(## 1) before_split:(## 1) after_split:(## 1) want_split:Bool want_merge:Bool key_block:Bool
    vert_seqno_incr:(## 1) flags:(## 8) { flags <= 1 } seq_no:# vert_seq_no:# shard:ShardIdent gen_utime:uint32 start_lt:uint64 end_lt:uint64 gen_validator_list_hash_short:uint32
    gen_catchain_seqno:uint32 min_ref_mc_seqno:uint32 prev_key_block_seqno:uint32 gen_software:flags . 0?GlobalVersion master_ref:not_master?^BlkMasterInfo
    prev_ref:^(BlkPrevInfo after_merge) prev_vert_ref:vert_seqno_incr?^(BlkPrevInfo 0) = BlockInfo;"""
    w.u(0x9bc7a987, 32).u(b['version'], 32)
    for k in ('not_master', 'after_merge', 'before_split', 'after_split', 'want_split', 'want_merge', 'key_block', 'vert_seqno_incr'):
        w.u(int(b[k]), 1)
    w.u(b['flags'], 8).u(b['seq_no'], 32).u(b['vert_seq_no'], 32)
    S.enc(w, S.t('ShardIdent'), b['shard'])
    w.u(b['gen_utime'], 32).u(b['start_lt'], 64).u(b['end_lt'], 64).u(b['gen_validator_list_hash_short'], 32).u(b['gen_catchain_seqno'], 32)
    w.u(b['min_ref_mc_seqno'], 32).u(b['prev_key_block_seqno'], 32)
    if b['flags'] & 1:
        S.enc(w, S.t('GlobalVersion'), b['gen_software'])
    if b['not_master']:
        w.sub(S.enc, S.t('BlkMasterInfo'), b['master_ref'])
    w.sub(enc_blk_prev_info, b['prev_ref'], b['after_merge'])
    if b['vert_seqno_incr']:
        w.sub(enc_blk_prev_info, b['prev_vert_ref'], 0)


def custom_block_types(R, L, mods, rng, quick, g):
    blk = mods['block']
    # ---- BlockInfo: every combination of the four structure-deciding flags
    combos = [(nm, am, vi, fl) for nm in (0, 1) for am in (0, 1) for vi in (0, 1) for fl in (0, 1)]
    for rep in range(1 if quick else 150):
        for (nm, am, vi, fl) in combos:
            ext = lambda: g.value(S.t('ExtBlkRef'))
            b = {'version': g.uint(32), 'not_master': nm, 'after_merge': am, 'before_split': rng.getrandbits(1), 'after_split': rng.getrandbits(1), 'want_split': rng.random() < 0.5,
                 'want_merge': rng.random() < 0.5, 'key_block': rng.random() < 0.5, 'vert_seqno_incr': vi, 'flags': fl, 'seq_no': g.uint(32), 'vert_seq_no': max(vi, g.uint(32)),
                 'shard': g.value(S.t('ShardIdent')), 'gen_utime': g.uint(32), 'start_lt': g.uint(64), 'end_lt': g.uint(64), 'gen_validator_list_hash_short': g.uint(32),
                 'gen_catchain_seqno': g.uint(32), 'min_ref_mc_seqno': g.uint(32), 'prev_key_block_seqno': g.uint(32),
                 'gen_software': g.value(S.t('GlobalVersion')) if fl else None, 'master_ref': g.value(S.t('BlkMasterInfo')) if nm else None,
                 'prev_ref': ({'prev1': ext(), 'prev2': ext()} if am else {'prev': ext()}), 'prev_vert_ref': {'prev': ext()} if vi else None}
            w = T.W()
            enc_block_info(w, b)
            cell = w.cell()
            W = {'type': 'BlockInfo', 'flags': {'not_master': nm, 'after_merge': am, 'vert_seqno_incr': vi, 'gen_software': fl}, 'boc': rc.encode_boc([cell])}
            R.count('blockinfo_cases')
            R.cover('constructors_covered', ('BlockInfo', f'nm{nm}am{am}vi{vi}fl{fl}'))
            st, o = mon.call(lambda: blk.BlockInfo.deserialize(bridge.to_lib(cell).begin_parse()))
            R.counters['oracle_evaluations'] += 1
            R.case(mon.fp('blockinfo', cell.hash))
            if st == 'exc':
                R.exc(o)
                R.violation(f'deserialize-raises-BlockInfo-{type(o).__name__}', f'BlockInfo.deserialize raised {o!r} (not_master={nm} after_merge={am} vert_seqno_incr={vi} flags={fl})', W)
                continue
            C = Cmp(R, L)
            simple = [('version', S.U(32)), ('not_master', S.BOOL), ('after_merge', S.BOOL), ('before_split', S.BOOL), ('after_split', S.BOOL), ('want_split', S.BOOL),
                      ('want_merge', S.BOOL), ('key_block', S.BOOL), ('vert_seqno_incr', S.BOOL), ('flags', S.U(8)), ('gen_utime', S.U(32)), ('start_lt', S.U(64)), ('end_lt', S.U(64)),
                      ('gen_validator_list_hash_short', S.U(32)), ('gen_catchain_seqno', S.U(32)), ('min_ref_mc_seqno', S.U(32)), ('prev_key_block_seqno', S.U(32)),
                      ('shard', S.t('ShardIdent')), ('gen_software', S.maybe(S.t('GlobalVersion'))), ('master_ref', S.maybe(S.t('BlkMasterInfo')))]
            for f, ft in simple:
                if hasattr(o, f):
                    C.go(f'$.{f}', ft, b[f], getattr(o, f))
                else:
                    C.d(f'$.{f}', 'missing', 'no such attribute')
            C.integer('$.seq_no', b['seq_no'], getattr(o, 'seqno', None), False)        # exposed as seqno / vert_seqno
            C.integer('$.vert_seq_no', b['vert_seq_no'], getattr(o, 'vert_seqno', None), False)
            for f in ('prev_ref', 'prev_vert_ref'):
                pv, po = b[f], getattr(o, f, '<missing>')
                if pv is None:
                    if po is not None:
                        C.d(f'$.{f}', 'maybe', f'absent {f} came back as {mon.srepr(po, 30)}')
                    continue
                for kk in pv:
                    if not hasattr(po, kk):
                        C.d(f'$.{f}.{kk}', 'missing', f'{f} has no {kk}')
                    else:
                        C.obj(f'$.{f}.{kk}', 'ExtBlkRef', pv[kk], getattr(po, kk))
            R.count('fields_compared', C.fields)
            for path, kind, msg, where in C.diffs[:3]:
                R.violation(f'field-differs-{where if where[0] != "?" else "BlockInfo" + where[1:]}-{kind}', f'BlockInfo: field {path}: {msg}', W)
    # ---- McStateExtra: the fields behind the HashmapAugE of old blocks
    for rep in range(6 if quick else 1500):
        flags = rng.choice([0, 1])
        nblocks = rng.choice([0, 1, 3])
        old = {rng.getrandbits(32): {'_': 'key_ext_blk_ref', 'key': rng.random() < 0.5, 'blk_ref': g.value(S.t('ExtBlkRef'))} for _ in range(nblocks)}
        after_key_block = rng.random() < 0.5
        last_key = g.value(S.t('ExtBlkRef')) if rng.random() < 0.6 else None
        vinfo = g.value(S.t('ValidatorInfo'))
        gb = g.cc()
        cfg_addr = rng.randbytes(32)
        w = T.W()
        w.u(0xcc26, 16)
        w.u(0, 1)                                                     # shard_hashes: empty HashmapE 32
        w.bytes(cfg_addr).ref(T.hashmap({0: rc.RC('1')}, 32, lambda vw, x: vw.ref(x)))   # config:^(Hashmap 32 ^Cell)

        def inner(iw):
            iw.u(flags, 16)
            S.enc(iw, S.t('ValidatorInfo'), vinfo)
            T.enc_hashmap_aug_e(iw, old, 32, lambda vw, x: S.enc(vw, S.t('KeyExtBlkRef'), x),
                                lambda x: {'_': 'key_max_lt', 'key': x['key'], 'max_end_lt': x['blk_ref']['end_lt']},
                                lambda a, b: {'_': 'key_max_lt', 'key': a['key'] or b['key'], 'max_end_lt': max(a['max_end_lt'], b['max_end_lt'])},
                                lambda xw, e: S.enc(xw, S.t('KeyMaxLt'), e), {'_': 'key_max_lt', 'key': False, 'max_end_lt': 0})
            iw.bool(after_key_block)
            T.enc_maybe(iw, last_key, lambda mw, x: S.enc(mw, S.t('ExtBlkRef'), x))
            if flags & 1:
                iw.u(0x17, 8).u(0, 1)                                 # block_create_stats#17 counters: empty
        w.sub(inner)
        T.enc_currency_collection(w, gb)
        cell = w.cell()
        W = {'type': 'McStateExtra', 'old_blocks': nblocks, 'after_key_block': after_key_block, 'last_key_block': last_key is not None, 'flags': flags, 'boc': rc.encode_boc([cell])}
        st, o = mon.call(lambda: blk.McStateExtra.deserialize(bridge.to_lib(cell).begin_parse()))
        R.counters['oracle_evaluations'] += 1
        R.count('mcstateextra_cases')
        R.cover('constructors_covered', ('McStateExtra', f'flags{flags}'))
        R.case(mon.fp('mcse', cell.hash))
        if st == 'exc':
            R.exc(o)
            R.violation(f'deserialize-raises-McStateExtra-{type(o).__name__}', f'McStateExtra.deserialize raised {o!r}', W)
            continue
        C = Cmp(R, L)
        C.go('$.after_key_block', S.BOOL, after_key_block, getattr(o, 'after_key_block', None))
        C.go('$.last_key_block', S.maybe(S.t('ExtBlkRef')), last_key, getattr(o, 'last_key_block', '<missing>'))
        C.go('$.validator_info', S.t('ValidatorInfo'), vinfo, getattr(o, 'validator_info', None))
        C.go('$.global_balance', S.CC, gb, getattr(o, 'global_balance', None))
        C.integer('$.flags', flags, getattr(o, 'flags', None), False)
        R.count('fields_compared', C.fields)
        for path, kind, msg, where in C.diffs[:3]:
            R.violation(f'field-differs-{where if where[0] != "?" else "McStateExtra" + where[1:]}-{kind}', f'McStateExtra: field {path}: {msg}', W)

    # ---- McBlockExtra (masterchain_block_extra#cca5), key blocks included: key_block:(## 1) shard_hashes:ShardHashes shard_fees:ShardFees
    #      ^[ prev_blk_signatures:(HashmapE 16 CryptoSignaturePair) recover_create_msg:(Maybe ^InMsg) mint_msg:(Maybe ^InMsg) ] config:key_block?ConfigParams
    #      ShardFees = HashmapAugE 96 ShardFeeCreated ShardFeeCreated (its root extra sits INLINE, before the reference group and the config address)
    def cc_add(a, b):
        other = dict(a.get('other') or {})
        for k, v in (b.get('other') or {}).items():
            other[k] = other.get(k, 0) + v
        return {'grams': a['grams'] + b['grams'], 'other': other}

    def enc_sfc(xw, e):
        T.enc_currency_collection(xw, e['fees'])
        T.enc_currency_collection(xw, e['create'])
    zero_sfc = {'fees': {'grams': 0, 'other': {}}, 'create': {'grams': 0, 'other': {}}}
    for rep in range(24 if quick else 1500):
        key_block = rep % 2
        nfees = rng.choice([0, 0, 1, 3])
        g.small = rep % 3 != 0             # two thirds without extra currencies, one third with (dictionary references inside the inline root extra)
        fees = {rng.getrandbits(96): {'fees': dict(g.cc(), grams=rng.getrandbits(60)), 'create': dict(g.cc(), grams=rng.getrandbits(60))} for _ in range(nfees)}
        g.small = False
        sigs = {rng.getrandbits(16): (rng.randbytes(32), rng.randbytes(32), rng.randbytes(32)) for _ in range(rng.choice([0, 1, 2]))}
        recover = rc.RC(gen.rand_bits(rng, 20)) if rng.random() < 0.5 else None
        mint = rc.RC(gen.rand_bits(rng, 33)) if rng.random() < 0.5 else None
        cfg_addr = rng.choice([bytes([0x55]) * 32, rng.randbytes(32), bytes(32), b'\xff' * 32])
        cfg_keys = sorted({rng.choice([0, 1, 8, 34, -1 & 0xFFFFFFFF, rng.getrandbits(31)]) for _ in range(3)})
        w = T.W()
        w.u(0xcca5, 16).u(key_block, 1)
        w.u(0, 1)                                                     # shard_hashes: empty HashmapE 32
        T.enc_hashmap_aug_e(w, fees, 96, enc_sfc, lambda v: v, lambda a, b: {'fees': cc_add(a['fees'], b['fees']), 'create': cc_add(a['create'], b['create'])}, enc_sfc, zero_sfc)

        def inner(iw):
            T.enc_hashmap_e(iw, sigs, 16, lambda vw, x: vw.bytes(x[0]).u(5, 4).bytes(x[1]).bytes(x[2]))
            T.enc_maybe(iw, recover, lambda mw, x: mw.ref(x))
            T.enc_maybe(iw, mint, lambda mw, x: mw.ref(x))
        w.sub(inner)
        if key_block:
            w.bytes(cfg_addr).ref(T.hashmap({k: rc.RC(format(i, '08b')) for i, k in enumerate(cfg_keys)}, 32, lambda vw, x: vw.ref(x)))
        w.bits(SENT_BITS)
        try:
            cell = w.cell()
        except rc.RefError:
            R.count('mcblockextra_does_not_fit')
            continue
        W = {'type': 'McBlockExtra', 'key_block': key_block, 'shard_fees_entries': nfees, 'extra_currencies': any(v['fees']['other'] or v['create']['other'] for v in fees.values()),
             'signatures': len(sigs), 'boc': rc.encode_boc([cell])}
        sl = bridge.to_lib(cell).begin_parse()
        st, o = mon.call(lambda: blk.McBlockExtra.deserialize(sl))
        R.counters['oracle_evaluations'] += 1
        R.count('mcblockextra_cases')
        R.cover('constructors_covered', ('McBlockExtra', f'key{key_block}-fees{min(nfees, 1)}'))
        R.case(mon.fp('mcbe', cell.hash))
        if st == 'exc':
            R.exc(o)
            R.violation(f'deserialize-raises-McBlockExtra-{type(o).__name__}', f'McBlockExtra.deserialize raised {o!r}', W)
            continue
        C = Cmp(R, L)
        C.integer('$.key_block', key_block, int(getattr(o, 'key_block', -1)), False)
        got_sigs = getattr(o, 'prev_blk_signatures', None)
        R.check(sorted(got_sigs or {}) == sorted(sigs), 'field-differs-McBlockExtra-prev_blk_signatures', f'McBlockExtra: prev_blk_signatures keys {sorted(got_sigs or {})} != {sorted(sigs)}', W)
        for nm, want in (('recover_create_msg', recover), ('mint_msg', mint)):
            got = getattr(o, nm, '<missing>')
            R.check((got is None and want is None) or (want is not None and getattr(got, 'hash', None) == want.hash), f'field-differs-McBlockExtra-{nm}',
                    f'McBlockExtra: {nm} is {mon.srepr(got, 40)}, encoded {"absent" if want is None else want.hash.hex()[:16]}', W)
        sf = getattr(o, 'shard_fees', '<missing>')
        R.check((sf is None) == (not fees), 'field-differs-McBlockExtra-shard_fees', f'McBlockExtra: shard_fees is {mon.srepr(sf, 40)} for {nfees} encoded entries', W)
        cfg = getattr(o, 'config', '<missing>')
        if key_block:
            got_addr = getattr(cfg, 'config_addr', None)
            got_addr = bytes.fromhex(got_addr) if isinstance(got_addr, str) else got_addr
            R.check(got_addr == cfg_addr, 'field-differs-McBlockExtra-config_addr', f'McBlockExtra (key block): config_addr {mon.srepr(got_addr, 40)} != encoded {cfg_addr.hex()[:20]}..', W)
            got_cfg = getattr(cfg, 'config', None) or {}
            R.check(sorted(k & 0xFFFFFFFF for k in got_cfg) == cfg_keys, 'field-differs-McBlockExtra-config', f'McBlockExtra (key block): config parameters {sorted(got_cfg)[:5]} != encoded {cfg_keys}', W)
        else:
            R.check(cfg is None, 'field-differs-McBlockExtra-config', 'McBlockExtra (not a key block): a config came back', W)
        R.count('fields_compared', C.fields + 6)
        for path, kind, msg, where in C.diffs[:3]:
            R.violation(f'field-differs-McBlockExtra-{kind}', f'McBlockExtra: field {path}: {msg}', W)
        if key_block and isinstance(getattr(cfg, 'config', None), dict):
            # what the caller does with one result (reading the parameter slices to their end is the normal way to use them) must not show in the next parse of the same cell
            lib_cell = bridge.to_lib(cell)
            st1, o1 = mon.call(lambda: blk.McBlockExtra.deserialize(lib_cell.begin_parse()))
            if st1 == 'ok' and o1.config is not None:
                first = {k: (v.bits.to01(), v.remaining_refs) for k, v in o1.config.config.items()}
                for v in o1.config.config.values():
                    mon.call(lambda: (v.load_bits(v.remaining_bits), [v.load_ref() for _ in range(v.remaining_refs)]))
                st2, o2 = mon.call(lambda: blk.McBlockExtra.deserialize(lib_cell.begin_parse()))
                second = {k: (v.bits.to01(), v.remaining_refs) for k, v in o2.config.config.items()} if st2 == 'ok' and o2.config is not None else None
                R.count('same_cell_parsed_twice')
                R.check(second == first, 'second-parse-of-same-cell-differs-McBlockExtra-config', 'parsing the same key-block extra cell again after the configuration parameter slices of the first result '
                        'were read to their end gives other parameter contents: results share state', W)
        R.check(sl.bits.to01() == SENT_BITS and sl.remaining_refs == 0, 'consumed-wrong-amount-McBlockExtra',
                f'McBlockExtra.deserialize left {sl.remaining_bits} bits / {sl.remaining_refs} references, the sentinel is {len(SENT_BITS)} bits / 0 references', W)


# ------------------------------------------------------------------------------------------- the bundled main-net block
def dec_ext_blk_ref(r):
    return {'_': 'ext_blk_ref', 'end_lt': r.u(64), 'seq_no': r.u(32), 'root_hash': r.bytes(32), 'file_hash': r.bytes(32)}


def mainnet_block(R, L, mods):
    path = os.path.join(mon.VERIF_DIR, 'data', 'mainnet_block.boc')
    if R.shard != 0 or not os.path.exists(path):
        return
    data = open(path, 'rb').read()
    root = rc.decode_boc(data, strict_distinct=False)['roots'][0]
    r = T.Rd(root)
    assert r.u(32) == 0x11ef55aa
    gid = r.i(32)
    ir = T.Rd(r.ref())
    assert ir.u(32) == 0x9bc7a987
    b = {'version': ir.u(32)}
    for k in ('not_master', 'after_merge', 'before_split', 'after_split', 'want_split', 'want_merge', 'key_block', 'vert_seqno_incr'):
        b[k] = ir.u(1)
    b['flags'] = ir.u(8)
    b['seq_no'], b['vert_seq_no'] = ir.u(32), ir.u(32)
    assert ir.u(2) == 0
    b['shard'] = {'_': 'shard_ident', 'shard_pfx_bits': ir.u(6), 'workchain_id': ir.i(32), 'shard_prefix': ir.u(64)}
    for k, n in (('gen_utime', 32), ('start_lt', 64), ('end_lt', 64), ('gen_validator_list_hash_short', 32), ('gen_catchain_seqno', 32), ('min_ref_mc_seqno', 32), ('prev_key_block_seqno', 32)):
        b[k] = ir.u(n)
    if b['flags'] & 1:
        assert ir.u(8) == 0xc4
        b['gen_software'] = {'_': 'capabilities', 'version': ir.u(32), 'capabilities': ir.u(64)}
    if b['not_master']:
        b['master_ref'] = {'_': 'master_info', 'master': dec_ext_blk_ref(T.Rd(ir.ref()))}
    pr = T.Rd(ir.ref())
    b['prev_ref'] = {'prev1': dec_ext_blk_ref(T.Rd(pr.ref())), 'prev2': dec_ext_blk_ref(T.Rd(pr.ref()))} if b['after_merge'] else {'prev': dec_ext_blk_ref(pr)}
    st, blk = mon.call(lambda: mods['block'].Block.deserialize(L.B.Cell.one_from_boc(data).begin_parse()))
    R.counters['oracle_evaluations'] += 1
    R.case(mon.fp('mainnet-block'))
    if st == 'exc':
        R.violation(f'mainnet-block-deserialize-raises-{type(blk).__name__}', f'Block.deserialize raised {blk!r} on the bundled main-net block', {})
        return
    C = Cmp(R, L)
    C.integer('$.global_id', gid, blk.global_id, True)
    o = blk.info
    for f, n in (('version', 32), ('gen_utime', 32), ('start_lt', 64), ('end_lt', 64), ('gen_validator_list_hash_short', 32), ('gen_catchain_seqno', 32), ('min_ref_mc_seqno', 32),
                 ('prev_key_block_seqno', 32), ('flags', 8)):
        C.integer(f'$.info.{f}', b[f], getattr(o, f, None), False)
    C.integer('$.info.seq_no', b['seq_no'], o.seqno, False)
    C.integer('$.info.vert_seq_no', b['vert_seq_no'], o.vert_seqno, False)
    for f in ('not_master', 'after_merge', 'before_split', 'after_split', 'want_split', 'want_merge', 'key_block', 'vert_seqno_incr'):
        C.go(f'$.info.{f}', S.BOOL, bool(b[f]), getattr(o, f, None))
    C.obj('$.info.shard', 'ShardIdent', b['shard'], o.shard)
    if 'gen_software' in b:
        C.obj('$.info.gen_software', 'GlobalVersion', b['gen_software'], o.gen_software)
    if 'master_ref' in b:
        C.obj('$.info.master_ref', 'BlkMasterInfo', b['master_ref'], o.master_ref)
    for kk, pv in b['prev_ref'].items():
        C.obj(f'$.info.prev_ref.{kk}', 'ExtBlkRef', pv, getattr(o.prev_ref, kk, None))
    # ---- the rest of the block, read by the generic R3 decoder (exact consumption of every referenced structure is part of the decode)
    try:
        vf = S.dec(T.Rd(root.refs[1]), S.t('ValueFlow'))
        ex_r = T.Rd(root.refs[3])
        ex = S.dec(ex_r, S.t('BlockExtra'))
        if ex_r.left() != (0, 0):
            raise rc.RefError(f'block extra: {ex_r.left()} left')
    except (rc.RefError, ValueError, IndexError) as e:
        R.inconc(f'reference-decoder-cannot-read-mainnet-block:{e}')
        return
    C.obj('$.value_flow', 'ValueFlow', vf, blk.value_flow)
    upd = root.refs[2]
    C.go('$.state_update.old_hash', S.B(32), rc.bits_to_bytes_tagged(upd.bits[8:264]), getattr(blk.state_update, 'old_hash', None))
    C.go('$.state_update.new_hash', S.B(32), rc.bits_to_bytes_tagged(upd.bits[264:520]), getattr(blk.state_update, 'new_hash', None))
    C.ctx.append('BlockExtra')
    for f, ft in S.TYPES['BlockExtra'][0][2]:
        if f == 'custom':
            C.fields += 1
            if (ex['custom'] is None) != (getattr(blk.extra, 'custom', None) is None):
                C.d('$.extra.custom', 'maybe', 'presence of the masterchain extra differs')
            continue
        C.go(f'$.extra.{f}', ft, ex[f], getattr(blk.extra, f, None))
    C.ctx.pop()
    R.extra['mainnet_block'] = {'in_msgs': len(ex['in_msg_descr']['items']), 'out_msgs': len(ex['out_msg_descr']['items']), 'account_blocks': len(ex['account_blocks']['items']),
                                'transactions': sum(len(a['transactions']['items']) for a in ex['account_blocks']['items'].values()), 'custom': ex['custom'] is not None}
    R.count('fields_compared', C.fields)
    R.count('mainnet_block_fields', C.fields)
    for path, kind, msg, where in C.diffs[:5]:
        R.violation(f'mainnet-block-field-differs-{where}-{kind}', f'bundled main-net block: field {path}: {msg}', {'field': path})


def replay(R, w, rec):
    L = c15.Lib()
    R.case(None)
    if not w.get('boc') or w.get('type') not in LIBCLS:
        R.inconc('replay-needs-a-generic-constructor-witness')
        return
    mods = {m: importlib.import_module(f'pytoniq_core.tlb.{m}') for m in ('transaction', 'account', 'block', 'config', 'utils')}
    cls = getattr(mods[LIBCLS[w['type']][0]], LIBCLS[w['type']][1])
    cell = rc.decode_boc(w['boc'], strict_distinct=False)['roots'][0]
    st, o = mon.call(lambda: cls.deserialize(bridge.to_lib(cell).begin_parse()))
    R.check(st == 'ok' and 'raises' not in rec.get('key', ''), rec.get('key', 'replay'), f'replay of {w["type"]}.{w["constructor"]}: {mon.srepr(o, 100)} (field comparison needs the generating run)', w)

"""C09 - dictionary (HashMap) serialise/parse round trip, ascending order, insertion-order independence,
empty map = no cell, keys that do not fit are rejected."""
import itertools

from lib import bridge, dictref, gen, mon, refcell as rc

SHARDS = 16
SHARD_TIMEOUT = 5400


def u(v, w):
    return bin(v)[2:].zfill(w) if w else ''


# ------------------------------------------------------------------------------------------- value kinds
class VK:
    """a value kind: how the library stores / loads it and which bits the leaf must hold"""

    MAXBITS = {'uint8': 8, 'int16': 16, 'coins': 124, 'address': 267, 'cell': 64, 'uint1': 1, 'empty': 0}

    def __init__(self, name, gen_, store, load, bits, with_=None):
        self.name, self.gen, self.store, self.load, self.bits, self.with_ = name, gen_, store, load, bits, with_
        self.maxbits = self.MAXBITS[name]


def fitting(vks, w):
    """value kinds whose leaf (worst-case label 2 + bitlen(w) + w bits, then the value) always fits a cell"""
    return [v for v in vks if 2 + w.bit_length() + w + v.maxbits <= 1023]


def value_kinds():
    from lib import bsmodel as bs
    from pytoniq_core.boc import Builder
    from pytoniq_core.boc.address import Address

    def addr(rng):
        return Address((rng.choice([0, -1, 5, -128, 127]), rng.randbytes(32)))

    def addr_bits(a):
        return '100' + bs.i2(a.wc, 8) + rc.bytes_to_bits(a.hash_part)

    def cellv(rng):
        b = Builder().store_bits(gen.rand_bits(rng, rng.choice([0, 1, 9, 64])))
        if rng.random() < 0.5:
            b.store_ref(Builder().store_uint(rng.getrandbits(16), 16).end_cell())
        return b.end_cell()

    return [
        VK('uint8', lambda r: r.getrandbits(8), lambda v, d: d.store_uint(v, 8), lambda s: s.load_uint(8), lambda v: u(v, 8),
           with_=lambda h: h.with_uint_values(8)),
        VK('int16', lambda r: r.randrange(-32768, 32768), lambda v, d: d.store_int(v, 16), lambda s: s.load_int(16), lambda v: bs.i2(v, 16),
           with_=lambda h: h.with_int_values(16)),
        VK('coins', lambda r: r.choice([0, 1, 255, 256, r.getrandbits(60), (1 << 120) - 1]), lambda v, d: d.store_coins(v), lambda s: s.load_coins(),
           lambda v: bs.var_uint_bits(v, 4), with_=lambda h: h.with_coins_values()),
        VK('address', addr, lambda v, d: d.store_address(v), lambda s: s.load_address(), addr_bits, with_=lambda h: h.with_address_values()),
        VK('cell', cellv, None, None, lambda v: v.bits.to01()),      # default value serializer: store_cell (inline)
        VK('uint1', lambda r: r.getrandbits(1), lambda v, d: d.store_uint(v, 1), lambda s: s.load_uint(1), lambda v: u(v, 1)),
        VK('empty', lambda r: 0, lambda v, d: d, lambda s: 0, lambda v: ''),
    ]


# ------------------------------------------------------------------------------------------- key-set shapes
def key_shapes(rng, w, maxkeys):
    """hostile key-set shapes for width w (ints)"""
    full = (1 << w) - 1
    shapes = {}
    shapes['single'] = [rng.getrandbits(w)]
    shapes['single-zero'] = [0]
    shapes['single-ones'] = [full]
    a = rng.getrandbits(w)
    shapes['last-bit-pair'] = [a | 1, a & ~1]
    shapes['first-bit-pair'] = [a | (1 << (w - 1)), a & ~(1 << (w - 1))]
    shapes['extremes'] = [0, full]
    n = min(maxkeys, 1 << min(w, 16))
    base = rng.getrandbits(w) & ~((1 << min(w, 12)) - 1)
    shapes['dense-block'] = [(base + i) & full for i in range(rng.randint(2, n))]
    shapes['comb'] = [1 << i for i in range(0, min(w, 400), max(1, min(w, 400) // rng.randint(2, min(400, max(2, maxkeys)))))] + [0]
    pre = [rng.getrandbits(w) for _ in range(rng.randint(1, 4))]
    shapes['clusters'] = [p ^ rng.getrandbits(min(w, rng.choice([1, 3, 8]))) for p in pre for _ in range(rng.randint(1, max(1, maxkeys // 4)))]
    shapes['random'] = [rng.getrandbits(w) for _ in range(rng.randint(1, maxkeys))]
    shapes['uniform-prefix'] = [((full >> k) << k) & full | rng.getrandbits(k) if k else full for k in (rng.randrange(0, min(w, 12) + 1),) for _ in range(3)]
    return {k: sorted(set(v)) for k, v in shapes.items()}


def orders(rng, keys, nrandom=1):
    ks = sorted(keys)
    yield 'ascending', ks
    if len(ks) > 1:
        yield 'descending', ks[::-1]
        for _ in range(nrandom):
            sh = ks[:]
            rng.shuffle(sh)
            yield 'shuffled', sh


# ------------------------------------------------------------------------------------------- the monitor
class DictMonitor:
    def __init__(self, R):
        self.R = R
        from pytoniq_core.boc import Builder, Cell, Slice
        from pytoniq_core.boc.hashmap.hashmap import HashMap
        self.HashMap, self.Builder, self.Cell = HashMap, Builder, Cell
        self.patch = mon.Patch()
        self.vks = {v.name: v for v in value_kinds()}
        # M-POST / invariant on the key normalisation: after any set*, every key held is an int inside [0, 2^size)
        orig = HashMap.__dict__['set_int_key']
        Rr = R

        def set_int_key(self_, int_key, value):
            res = orig(self_, int_key, value)
            Rr.counters['post_set_int_key'] += 1
            Rr.counters['oracle_evaluations'] += 1
            if not (isinstance(int_key, int) and 0 <= int_key < (1 << self_.size)):
                Rr.violation('post-set-accepted-unfit-key', f'set_int_key accepted key {int_key} for width {self_.size}',
                             {'key': int_key, 'width': self_.size})
            return res
        self.patch.set(HashMap, 'set_int_key', set_int_key)

    def close(self):
        self.patch.undo()

    def new_map(self, w, vk, how):
        hm = self.HashMap(w)
        if vk.store is not None:
            if how == 'with' and vk.with_:
                vk.with_(hm)
            else:
                hm.value_serializer = vk.store
        return hm

    def build(self, w, pairs, vk, keyform='int', how='with'):
        """pairs: ordered list of (int key, value) as inserted"""
        from pytoniq_core.boc.address import Address
        hm = self.new_map(w, vk, how)
        for k, v in pairs:
            if keyform == 'int':
                hm.set_int_key(k, v) if how == 'with' else hm.set(k, v)
            elif keyform == 'bytes':
                hm.set(k.to_bytes(w // 8, 'big'), v)
            elif keyform == 'bitstr':
                hm.set(u(k, w), v)
            else:
                raise ValueError(keyform)
        return hm

    def value_eq(self, vk, want, got):
        if vk.name == 'cell':
            return got.bits.to01() == want.bits.to01() and [r.hash for r in got.refs[got.ref_offset:]] == [r.hash for r in want.refs]
        if vk.name == 'address':
            return type(got) is type(want) and got == want and got.wc == want.wc and got.hash_part == want.hash_part
        return type(got) is type(want) and got == want

    def check_map(self, w, m, vk, order_name, ordered_keys, keyform='int', how='with', tag='', full_routes=True):
        """m: {int key: value}.  Returns the root hash (or None)."""
        R = self.R
        W = lambda **kw: dict({'width': w, 'keys': [str(k) for k in ordered_keys[:40]], 'nkeys': len(m), 'value_kind': vk.name,
                               'order': order_name, 'keyform': keyform, 'values': [mon.srepr(m[k], 40) for k in ordered_keys[:8]]}, **kw)
        st, hm = mon.call(self.build, w, [(k, m[k]) for k in ordered_keys], vk, keyform, how)
        if st == 'exc':
            R.exc(hm)
            R.violation(f'set-raises-{type(hm).__name__}-{keyform}', f'valid keys refused: {hm!r}', W())
            return None
        st, cell = mon.call(hm.serialize)
        if st == 'exc':
            R.exc(cell)
            R.violation(f'serialize-raises-{type(cell).__name__}', f'HashMap.serialize raised {cell!r}', W())
            return None
        if cell is None:
            R.violation('nonempty-map-no-cell', 'serialize returned None for a non-empty map', W())
            return None
        load = vk.load
        want_keys = sorted(m)
        routes = [('HashMap.parse', lambda: self.HashMap.parse(cell.begin_parse(), w, value_deserializer=load) if load else
                   self.HashMap.parse(cell.begin_parse(), w))]
        if full_routes:
            routes += [
                ('from_cell', lambda: self.HashMap.from_cell(cell, w).map),
                ('load_hashmap', lambda: cell.begin_parse().load_hashmap(w, value_deserializer=load) if load else cell.begin_parse().load_hashmap(w)),
                ('store_dict/load_dict', lambda: self.Builder().store_uint(5, 3).store_dict(cell).store_uint(1, 1).end_cell().begin_parse()
                 .skip_bits(3).load_dict(w, value_deserializer=load)),
                ('store_dict/preload_dict', lambda: self.Builder().store_dict(cell).end_cell().begin_parse().preload_dict(w, value_deserializer=load)),
            ]
            if w >= 1:
                # the dictionary as a later field of a cell whose earlier references were already consumed (another dictionary of the same width sits in
                # front of it, so that a parser reading from the wrong reference returns a plausible but different map)
                decoy = bridge.to_lib(dictref.encode({u(0, w): ('1', [])}, w))

                def after_ref(peek):
                    s = self.Builder().store_ref(decoy).store_uint(3, 2).store_dict(cell).store_uint(1, 1).end_cell().begin_parse()
                    s.load_ref()
                    s.skip_bits(2)
                    before = (s.bits.to01(), s.remaining_refs)
                    got = (s.preload_dict if peek else s.load_dict)(w, value_deserializer=load)
                    if peek and (s.bits.to01(), s.remaining_refs) != before:
                        raise AssertionError('preload_dict consumed from the slice')
                    return got

                def second_dict(peek):
                    s = self.Builder().store_dict(decoy).store_dict(cell).end_cell().begin_parse()
                    s.load_maybe_ref()
                    return (s.preload_dict if peek else s.load_dict)(w, value_deserializer=load)
                def inline_after_ref():
                    # the dictionary root written inline (Hashmap n X, not HashmapE) after another field whose reference has been consumed
                    if len(cell.bits) + 5 > 1023 or len(cell.refs) > 3:
                        return None
                    s = self.Builder().store_ref(decoy).store_uint(21, 5).store_cell(cell).end_cell().begin_parse()
                    s.load_ref()
                    s.skip_bits(5)
                    return s.load_hashmap(w, value_deserializer=load) if load else s.load_hashmap(w)
                if len(cell.bits) + 5 <= 1023 and len(cell.refs) <= 3:
                    routes.append(('inline-root-after-consumed-ref/load_hashmap', inline_after_ref))
                routes += [('after-consumed-ref/load_dict', lambda: after_ref(False)), ('after-consumed-ref/preload_dict', lambda: after_ref(True)),
                           ('second-dict-field/load_dict', lambda: second_dict(False)), ('second-dict-field/preload_dict', lambda: second_dict(True))]
        for rname, f in routes:
            st, got = mon.call(f)
            R.count('route_' + rname)
            if st == 'exc':
                R.exc(got)
                R.violation(f'parse-raises-{rname}-{type(got).__name__}', f'{rname} raised {got!r} on the library\'s own dictionary cell', W())
                continue
            if not isinstance(got, dict):
                R.violation(f'parse-not-dict-{rname}', f'{rname} returned {type(got).__name__}', W())
                continue
            gk = list(got.keys())
            R.check(gk == sorted(gk), f'not-ascending-{rname}', f'{rname}: keys not in ascending order', W(got=[str(k) for k in gk[:40]]))
            if not R.check(sorted(gk) == want_keys, f'keys-differ-{rname}', f'{rname}: parsed key set differs from the map '
                           f'(missing {len(set(want_keys) - set(gk))}, extra {len(set(gk) - set(want_keys))})',
                           W(got=[str(k) for k in gk[:40]])):
                continue
            for k in want_keys:
                gv = got[k]
                if rname == 'from_cell' or load is None:
                    # values are slices positioned at the value
                    ok = self.value_eq(self.vks['cell'], _AsCell(vk.bits(m[k]), self._value_refs(vk, m[k])), gv)
                else:
                    ok = self.value_eq(vk, m[k], gv)
                if not ok:
                    R.violation(f'value-differs-{rname}-{vk.name}', f'{rname}: value under key {k} differs', W(key=str(k), got=mon.srepr(gv)))
                    break
            R.counters['oracle_evaluations'] += 1
        # consumed dictionary bit + reference exactly
        s = self.Builder().store_dict(cell).store_uint(1, 1).end_cell().begin_parse()
        s.load_dict(w)
        R.check(len(s.bits) == 1 and len(s.refs) - s.ref_offset == 0, 'load-dict-consumption', 'load_dict did not consume exactly one bit and one reference', W())
        # M-REF: independent decoder on the produced cell
        try:
            ref = bridge.from_lib(cell)
            leaves, _, pruned = dictref.decode(ref, w)
        except (dictref.DictDecodeError, rc.RefError, ValueError, IndexError) as e:
            R.violation('ref-decoder-rejects', f'independent Hashmap decoder rejects the produced cell: {e!r}', W())
            return cell.hash
        wantleaves = {u(k, w): (vk.bits(m[k]), [x.hash for x in self._value_refs(vk, m[k])]) for k in m}
        gotleaves = {k: (b, [x.hash for x in refs]) for k, (b, refs) in leaves.items()}
        R.check(gotleaves == wantleaves and not pruned, 'ref-decoder-differs', 'independent Hashmap decoder reads other pairs from the produced cell', W())
        R.count('maps_checked')
        R.cover('value_kinds', vk.name)
        R.cover('keyforms', keyform)
        return cell.hash

    def _value_refs(self, vk, v):
        return list(v.refs) if vk.name == 'cell' else []


class _AsCell:
    def __init__(self, bits, refs):
        from bitarray import bitarray
        self.bits, self.refs = bitarray(bits), refs


# ------------------------------------------------------------------------------------------- workload
def run(R):
    rng = R.rng
    quick = R.tier == 'quick'
    R.rule = ('maps = (key width, key set, values, insertion order, key form, value kind); exhaustive: every non-empty key subset for widths 1..3 '
              '(width 4: all 65535 in thorough, a seeded sample in quick) under ascending/descending/shuffled insertion; widths 5..1023 by hostile '
              'key-set shapes (single, bit pairs, extremes, dense blocks, combs up to 400 nested forks, clusters, random up to 2000 keys); each map '
              'through 5 parse routes + an independent Hashmap decoder; unfit keys (>= 2^w, negative, long bytes/bit strings) must be refused and leave '
              'the map unchanged; distinct = distinct (width, key set, value kind, order); non-trivial = at least 2 keys')
    R.assumptions = ['the general workload keeps fork nesting <= 400; deeper maps (450, 600, 1000 nested forks) are driven separately under the default recursion limit - the library\'s '
                     'RecursionError beyond ~490 nested forks is a recorded known finding',
                     'width 0 dictionaries are not generated', 'R4 decoder (lib/dictref.py) is the independent reading of hashmap.tlb']
    M = DictMonitor(R)
    vks = value_kinds()
    inv = bridge.CellInvariant(R).install()
    try:
        _run(R, M, vks, rng, quick)
    finally:
        inv.uninstall()
        M.close()
    if R.shard == 0:
        deep_combs(R)
        unchecked_routes(R)
    R.floor('maps_checked', 300 if quick else 3000)
    R.floor('unfit_keys_tried', 100)
    R.floor('post_set_int_key', 1000)
    R.floor('empty_maps', 3)
    R.floor('history_steps', 100)
    R.floor('history_transitions', 12, 'set')


def unchecked_routes(R):
    """the ways a key can get into a map without passing through set() / set_int_key(): the constructor's map_ argument and the public .map attribute; and the
    Address key form when the address carries an anycast prefix (its encoding is longer than 267 bits).  Keys that do not fit must be refused, never aliased."""
    from pytoniq_core.boc.hashmap.hashmap import HashMap
    from pytoniq_core.boc.hashmap.parse import parse_hashmap
    from pytoniq_core.boc.address import Address
    rng = R.rng
    for w in (1, 4, 8, 32, 64, 256):
        bad_sets = [{-1: 7}, {1 << w: 1}, {-1: 7, 1: 5}, {0: 1, (1 << w) + 1: 2}, {-(1 << w): 3}]
        for m in bad_sets:
            for how in ('constructor', 'attribute'):
                W = {'width': w, 'map': {str(k): v for k, v in m.items()}, 'route': how}

                def make():
                    if how == 'constructor':
                        hm = HashMap(w, map_=dict(m)).with_uint_values(8)
                    else:
                        hm = HashMap(w).with_uint_values(8)
                        hm.map.update(m)
                    return hm.serialize()
                st, cell = mon.call(make)
                R.counters['oracle_evaluations'] += 1
                R.count('unchecked_route_cases')
                if st == 'ok':
                    got = mon.call(lambda: sorted(int(k, 2) for k in parse_hashmap(cell.begin_parse(), w)))
                    R.violation('accepted-key-via-map-argument', f'a map given through the {how} with keys {sorted(m)} at width {w} was serialised instead of refused; the cell parses to {mon.srepr(got, 60)}', W)
                else:
                    R.exc(cell)
        good = {rng.randrange(1 << w): rng.randrange(256) for _ in range(5)}
        st, back = mon.call(lambda: {int(k, 2): v.load_uint(8) for k, v in parse_hashmap(HashMap(w, map_=dict(good)).with_uint_values(8).serialize().begin_parse(), w).items()})
        R.check(st == 'ok' and back == good, 'map-argument-roundtrip', f'a valid map given through the constructor does not round-trip at width {w}: {mon.srepr(back, 80)}', {'width': w})
    for rep in range(6):
        h = rng.randbytes(31)
        a1, a2 = Address((0, h + b'\x01')), Address((0, h + b'\x02'))
        depth = rng.choice([1, 3, 8, 30])
        pfx = rng.getrandbits(depth)
        a1.set_anycast(depth, pfx)
        a2.set_anycast(depth, pfx)
        W = {'anycast_depth': depth, 'hash_prefix': h}
        hm = HashMap(267).with_uint_values(8)
        st, e = mon.call(lambda: (hm.set(a1, 1), hm.set(a2, 2)))
        R.count('anycast_address_key_cases')
        R.counters['oracle_evaluations'] += 1
        if st == 'exc':
            R.exc(e)                 # refusing an address that does not fit 267 bits is what the property asks for
            continue
        st, back = mon.call(lambda: parse_hashmap(hm.serialize().begin_parse(), 267))
        R.check(len(hm.map) == 2 and st == 'ok' and len(back) == 2, 'anycast-address-keys-aliased',
                f'two different addresses with an anycast prefix of depth {depth} were accepted as keys of a 267-bit map and fell on {len(hm.map)} key(s)', W)


def deep_combs(R):
    """maps whose Patricia tree nests more forks than the explored bound of the other cases: the comb 2^1-1, 2^2-1, ... of width 1023 nests one fork per key; the
    tree is valid up to 1023 nested forks (cell depth).  Run under Python's default recursion limit, which is what a user has."""
    import sys
    from pytoniq_core.boc.hashmap.hashmap import HashMap
    from pytoniq_core.boc.hashmap.parse import parse_hashmap
    w = 1023
    for depth in (450, 600, 1000):
        keys = [(1 << i) - 1 for i in range(1, depth + 1)]
        old = sys.getrecursionlimit()
        sys.setrecursionlimit(1000)
        try:
            hm = HashMap(w).with_uint_values(8)
            for k in keys:
                hm.set_int_key(k, k % 251)
            st, cell = mon.call(hm.serialize)
            W = {'width': w, 'nested_forks': depth, 'keys': 'comb 2^i - 1, i = 1..%d' % depth, 'recursion_limit': 1000}
            R.counters['oracle_evaluations'] += 1
            R.count('deep_comb_cases')
            if st == 'exc':
                R.exc(cell)
                R.violation('recursion-limit-nested-forks-serialize' if isinstance(cell, RecursionError) and depth >= 600 else f'deep-comb-{depth}-serialize-raises-{type(cell).__name__}',
                            f'HashMap.serialize raised {type(cell).__name__} for a valid map whose tree nests {depth} forks', W)
                continue
            st, got = mon.call(lambda: {int(k, 2): v.load_uint(8) for k, v in parse_hashmap(cell.begin_parse(), w).items()})
            if st == 'exc':
                R.exc(got)
                R.violation('recursion-limit-nested-forks-parse' if isinstance(got, RecursionError) and depth >= 600 else f'deep-comb-{depth}-parse-raises-{type(got).__name__}',
                            f'parse_hashmap raised {type(got).__name__} on the library\'s own cell of a map whose tree nests {depth} forks', W)
                continue
            R.check(got == {k: k % 251 for k in keys} and list(got) == sorted(got), 'deep-comb-roundtrip', f'a map nesting {depth} forks does not round-trip', W)
        finally:
            sys.setrecursionlimit(old)


def _case(R, M, w, keys, vk, rng, keyform='int', how='with', nrandom=1, full_routes=True, shape=''):
    m = {k: vk.gen(rng) for k in keys}
    hashes = set()
    for oname, okeys in orders(rng, keys, nrandom):
        h = M.check_map(w, m, vk, oname, okeys, keyform, how, full_routes=full_routes)
        if h is not None:
            hashes.add(h)
        R.case(mon.fp(w, tuple(sorted(keys)), vk.name, oname) if len(keys) > 1 else None,
               sample={'width': w, 'keys': [str(k) for k in sorted(keys)[:12]], 'nkeys': len(keys), 'value_kind': vk.name, 'shape': shape})
        R.count('orders_' + oname)
    R.check(len(hashes) <= 1, 'insertion-order-dependent', 'the serialised dictionary depends on insertion order',
            {'width': w, 'keys': [str(k) for k in sorted(keys)[:40]], 'value_kind': vk.name})
    R.cover('width_class', 'w<=4' if w <= 4 else 'w<=64' if w <= 64 else 'w<=256' if w <= 256 else 'w<=1023')
    R.cover('size_class', min(len(keys), 2000).bit_length())
    if shape:
        R.cover('shapes', shape)


def _run(R, M, vks, rng, quick):
    byname = {v.name: v for v in vks}
    # ---- exhaustive small widths (sharded by subset index)
    idx = 0
    for w in (1, 2, 3, 4):
        universe = list(range(1 << w))
        nsub = (1 << len(universe)) - 1
        if w == 4 and quick:
            subsets = sorted({rng.randrange(1, nsub + 1) for _ in range(500)} | {nsub, 1, 1 << 15, 0x8001, 0x5555, 0xAAAA, 0x00FF, 0xFF00})
        else:
            subsets = range(1, nsub + 1)
        done = 0
        for sbits in subsets:
            idx += 1
            if idx % R.nshards != R.shard:
                continue
            keys = [k for k in universe if (sbits >> k) & 1]
            vk = vks[sbits % 3] if w == 4 else vks[(sbits + w) % len(vks)]
            _case(R, M, w, keys, vk, rng, full_routes=(w < 4 or sbits % 16 == 0), shape=f'exhaustive-w{w}')
            done += 1
        R.count(f'exhaustive_w{w}_subsets', done)
    R.extra['exhaustive_subspaces'] = ['all non-empty key subsets of widths 1,2,3'] + ([] if quick else ['all 65535 non-empty key subsets of width 4'])

    # ---- empty map
    from pytoniq_core.boc import Builder
    for w in (1, 8, 267, 1023):
        hm = M.HashMap(w).with_uint_values(8)
        c = hm.serialize()
        R.check(c is None, 'empty-map-has-cell', 'empty map serialised to a cell instead of "no cell"', {'width': w})
        cell = Builder().store_dict(c).end_cell()
        R.check(cell.bits.to01() == '0' and not cell.refs, 'empty-store-dict', 'store_dict(None) is not the single bit 0', {'width': w})
        st, got = mon.call(lambda: cell.begin_parse().load_dict(w))
        R.check(st == 'ok' and not got, 'empty-load-dict', f'load_dict of the empty dictionary gave {got!r}', {'width': w})
        st, got = mon.call(lambda: cell.begin_parse().preload_dict(w))
        R.check(st == 'ok' and not got, 'empty-preload-dict', f'preload_dict of the empty dictionary gave {got!r}', {'width': w})
        R.count('empty_maps')
        R.case(None)

    # ---- larger widths by shape
    widths = [5, 6, 7, 8, 9, 15, 16, 17, 31, 32, 33, 63, 64, 65, 127, 128, 255, 256, 257, 267, 511, 512, 900, 1003, 1011]
    nrounds = 2 if quick else 10
    maxkeys = 60 if quick else 400
    for rnd in range(nrounds):
        for wi, w in enumerate(widths):
            if (wi + rnd) % R.nshards != R.shard and R.nshards > 1:
                continue
            for sname, keys in key_shapes(rng, w, maxkeys).items():
                vk = rng.choice(fitting(vks, w))
                _case(R, M, w, keys, vk, rng, shape=sname, full_routes=len(keys) < 200)
    # width 1023: only key sets whose labels are uniform fit a cell at all (hml_same); the two extreme keys do
    if R.shard == 0:
        for w in (1022, 1023):
            _case(R, M, w, [0, (1 << w) - 1], byname['uint8'], rng, shape='w1023-extremes')
    # big maps
    for n in ([300] if quick else [1000, 2000]):
        w = rng.choice([32, 64, 256])
        keys = sorted({rng.getrandbits(w) for _ in range(n)})
        _case(R, M, w, keys, byname['uint8'], rng, shape=f'big-{n}', nrandom=1, full_routes=False)
    # deep fork nesting (comb of 2^i plus 0): fork depth = w - 1
    for d in ([200, 400] if R.shard == 0 else []):
        keys = [0] + [1 << i for i in range(d)]
        _case(R, M, d, keys, byname['uint8'], rng, shape=f'comb-depth-{d}', nrandom=0, full_routes=False)
        R.cover('fork_depth', d)

    # ---- key forms
    for _ in range(10 if quick else 60):
        # bytes keys
        w = rng.choice([8, 16, 32, 256])
        keys = sorted({rng.getrandbits(w) for _ in range(rng.randint(1, 12))} | {0, (1 << w) - 1})
        _case(R, M, w, keys, rng.choice(vks), rng, keyform='bytes', shape='bytes-keys')
        w = rng.choice([1, 3, 9, 70])
        keys = sorted({rng.getrandbits(w) for _ in range(rng.randint(1, 12))})
        _case(R, M, w, keys, rng.choice(vks), rng, keyform='bitstr', shape='bitstr-keys')
        _case(R, M, w, keys, rng.choice(vks), rng, keyform='int', how='set', shape='set-int')
        _guard(R, 'address', lambda: _address_keys(R, M, rng))
        _guard(R, 'hashed', lambda: _hashed_keys(R, M, rng))
        _guard(R, 'bitarray', lambda: _bitarray_keys(R, M, rng))
        _guard(R, 'key-serializer', lambda: _ks_keys(R, M, rng))
        R.case(None, n=3)

    _histories(R, M, vks, rng, quick)

    # ---- more than 65 536 entries (2^17): a size no map built entry by entry reaches in a quick run - encoded as 18 cells (both children of every fork are the same
    # cell, all 2^17 keys present with the same value); every entry must come back, in ascending order, through the parse routes
    if R.shard == 0:
        c = rc.RC('00' + '10101010')
        for i in range(17):
            c = rc.RC('00', (c, c))
        cell17 = bridge.to_lib(c, 'builder')
        for rname, f in (('HashMap.parse', lambda: M.HashMap.parse(cell17.begin_parse(), 17, value_deserializer=lambda s_: s_.load_uint(8))),
                         ('load_dict', lambda: M.Builder().store_dict(cell17).end_cell().begin_parse().load_dict(17, value_deserializer=lambda s_: s_.load_uint(8)))):
            st, got = mon.call(f)
            R.counters['oracle_evaluations'] += 1
            R.count('dictionaries_beyond_65536_entries')
            ok = st == 'ok' and isinstance(got, dict) and len(got) == 2 ** 17 and list(got)[:3] == [0, 1, 2] and list(got)[-1] == 2 ** 17 - 1 and set(got.values()) == {0xAA}
            R.check(ok, 'large-dictionary-not-returned', f'{rname} of a dictionary with 2^17 entries ' + (f'raised {got!r}' if st == 'exc' else f'returned {len(got) if isinstance(got, dict) else got!r} entries'),
                    {'entries': 2 ** 17, 'route': rname})
    # ---- keys that do not fit
    for w in [1, 2, 3, 7, 8, 9, 16, 32, 64, 248, 255, 256, 267, 1000]:
        good = sorted({rng.getrandbits(w) for _ in range(3)})
        bad_ints = [1 << w, (1 << w) + 1, (1 << (w + 1)) - 1, (1 << w) + rng.getrandbits(w), 1 << (w + 8), -1, -2, -(1 << (w - 1)) if w > 1 else -3,
                    -(1 << w), -((1 << w) - 1), -rng.getrandbits(w) - 1]
        attempts = [('int', b, lambda hm, b=b: hm.set_int_key(b, 1)) for b in bad_ints]
        attempts += [('int-set', b, lambda hm, b=b: hm.set(b, 1)) for b in bad_ints]
        nb = (w + 7) // 8
        long_bytes = [((1 << w) + rng.getrandbits(w)).to_bytes(nb + 1, 'big'), b'\x01' + bytes(nb), b'\xff' * (nb + 1)]
        if w % 8:
            long_bytes.append(((1 << w)).to_bytes(nb, 'big'))
        attempts += [('bytes', b.hex(), lambda hm, b=b: hm.set(b, 1)) for b in long_bytes]
        long_strs = ['1' + '0' * w, '1' * (w + 1), '1' + u(rng.getrandbits(w), w), '1' + '0' * (w + 7)]
        attempts += [('bitstr', s, lambda hm, s=s: hm.set(s, 1)) for s in long_strs]
        # too long although the extra leading bits are zero: the key the caller wrote has more bits than the width, dropping them aliases it to a shorter key
        g0 = good[0]
        zero_strs = ['0' + u(g0, w), '00000000' + u(g0, w), '0' * (w + 1), '0' * w + '1']
        attempts += [('bitstr-leading-zeros', s_, lambda hm, s_=s_: hm.set(s_, 1)) for s_ in zero_strs]
        zero_bytes = [b'\x00' + g0.to_bytes(nb, 'big'), bytes(nb + 1), bytes(3) + g0.to_bytes(nb, 'big')]
        attempts += [('bytes-leading-zeros', b.hex(), lambda hm, b=b: hm.set(b, 1)) for b in zero_bytes]
        attempts += [('key-serializer', b, lambda hm, b=b: _with_ks(hm, b)) for b in bad_ints[:6]]
        if w <= 248:
            # a hashed-string key is a 256-bit digest: it does not fit a narrower map, also when its leading byte(s) happen to be zero
            import hashlib as _hl
            zero_led = next(f'name{i}' for i in range(100000) if _hl.sha256(f'name{i}'.encode()).digest()[0] == 0)
            attempts += [('hashed-string', nm, lambda hm, nm=nm: hm.set(nm, 1, hash_key=True)) for nm in (zero_led, 'name', f'k{rng.getrandbits(30)}')]
        if w < 267:
            from pytoniq_core.boc.address import Address
            for a in (Address((0, rng.randbytes(32))), Address((-1, bytes(32))), Address((0, bytes(31) + b'\x01'))):
                attempts.append(('address', a.to_str(False), lambda hm, a=a: hm.set(a, 1)))
        for form, desc, f in attempts:
            hm = M.HashMap(w).with_uint_values(8)
            for g in good:
                hm.set_int_key(g, 7)
            before = hm.serialize().hash
            st, e = mon.call(f, hm)
            R.count('unfit_keys_tried')
            R.cover('unfit_forms', form)
            W = {'width': w, 'form': form, 'key': str(desc)[:300], 'existing': [str(g) for g in good]}
            if st == 'ok':
                st2, c2 = mon.call(hm.serialize)
                after = c2.hash if st2 == 'ok' and c2 is not None else None
                sign = 'negative' if (isinstance(desc, int) and desc < 0) else 'toolarge'
                R.violation(f'unfit-key-accepted-{form}-{sign}', f'key that does not fit {w} bits accepted ({form}); map afterwards: '
                            f'{[str(k) for k in list(hm.map)[:6]]}, serialises: {st2}, changed: {after != before}', W)
            else:
                R.exc(e)
                st2, c2 = mon.call(hm.serialize)
                R.check(st2 == 'ok' and c2 is not None and c2.hash == before, 'unfit-key-rejected-but-map-changed',
                        'a refused key changed the map', W)
            R.counters['oracle_evaluations'] += 1
            R.case(mon.fp('unfit', w, form, str(desc)))


def _histories(R, M, vks, rng, quick):
    """multi-step use of one HashMap object: serialise, mutate through every mutator (new key / overwrite / both entry points), serialise again;
    every serialisation must denote the map as it is at that moment (no state carried over from an earlier serialise)"""
    byname = {v.name: v for v in vks}
    for it in range(40 if quick else 600):
        w = rng.choice([1, 2, 3, 4, 8, 16, 32, 64, 256])
        vk = rng.choice([byname['uint8'], byname['int16'], byname['coins'], byname['uint1']])
        hm = M.new_map(w, vk, 'with')
        model = {}
        steps = []
        for step in range(rng.randint(3, 9)):
            op = rng.choice(['add-set_int_key', 'add-set', 'overwrite-set_int_key', 'overwrite-set', 'serialize', 'serialize', 'parse-own',
                             'edit-map-add', 'edit-map-del', 'edit-map-del', 'edit-map-clear', 'edit-map-rebind'])
            if op.startswith('edit-map'):
                # .map is a public attribute (the only way to remove a key): the next serialisation denotes the map as edited
                R.count('direct_map_edits')
                if op == 'edit-map-add' or not model:
                    k = rng.getrandbits(w)
                    v = vk.gen(rng)
                    hm.map[k] = v
                    model[k] = v
                elif op == 'edit-map-del':
                    k = rng.choice(sorted(model))
                    del hm.map[k]
                    del model[k]
                elif op == 'edit-map-clear':
                    hm.map.clear()
                    model.clear()
                else:
                    k = rng.choice(sorted(model))
                    model = {kk: vv for kk, vv in model.items() if kk != k}
                    hm.map = dict(model)
            elif op.startswith('add') or (op.startswith('overwrite') and not model):
                k = rng.getrandbits(w)
                v = vk.gen(rng)
                (hm.set_int_key if op.endswith('set_int_key') else hm.set)(k, v)
                model[k] = v
            elif op.startswith('overwrite'):
                k = rng.choice(sorted(model))
                v = vk.gen(rng)
                (hm.set_int_key if op.endswith('set_int_key') else hm.set)(k, v)
                model[k] = v
            steps.append(op)
            W = {'width': w, 'value_kind': vk.name, 'steps': list(steps), 'model': {str(k): mon.srepr(v, 30) for k, v in sorted(model.items())[:20]}}
            st, cell = mon.call(hm.serialize)
            if st == 'exc':
                R.violation(f'history-serialize-raises-{type(cell).__name__}', f'serialize raised {cell!r} after {steps}', W)
                break
            if not model:
                R.check(cell is None, 'history-empty-not-none', 'empty map serialised to a cell', W)
                continue
            if cell is None:
                R.violation('history-nonempty-none', 'non-empty map serialised to None', W)
                break
            st, got = mon.call(lambda: M.HashMap.parse(cell.begin_parse(), w, value_deserializer=vk.load))
            ok = st == 'ok' and got == dict(sorted(model.items())) and list(got) == sorted(model)
            prev = steps[-2] if len(steps) > 1 else 'start'
            if not ok:
                R.violation(f'history-stale-after-{steps[-1]}', f'after {steps} the serialised dictionary does not denote the current map '
                            f'(got {mon.srepr(got, 200)})', W)
                break
            R.counters['oracle_evaluations'] += 1
            R.count('history_steps')
            R.cover('history_transitions', (prev, op))
        R.count('histories')
        R.case(mon.fp('hist', w, vk.name, tuple(steps), tuple(sorted(model))), sample={'width': w, 'steps': steps} if it < 2 else None)


def _guard(R, name, f):
    st, e = mon.call(f)
    if st == 'exc':
        R.exc(e)
        R.violation(f'keyform-{name}-raises-{type(e).__name__}', f'valid {name} keys: {e!r}', {'keyform': name})


def _address_keys(R, M, rng):
    from pytoniq_core.boc.address import Address
    addrs = [Address((rng.choice([0, -1, 100, -128]), rng.randbytes(32))) for _ in range(rng.randint(1, 6))]
    hm = M.HashMap(267).with_coins_values()
    vals = {}
    for i, a in enumerate(addrs):
        hm.set(a, i)
        vals[int('100' + u(a.wc & 0xFF, 8) + rc.bytes_to_bits(a.hash_part), 2)] = i
    got = M.HashMap.parse(hm.serialize().begin_parse(), 267, value_deserializer=lambda s: s.load_coins())
    R.check(got == dict(sorted(vals.items())) and list(got) == sorted(vals), 'address-keys', f'Address-keyed map does not round-trip: {got!r}'[:300],
            {'addresses': [a.to_str(False) for a in addrs]})
    got2 = M.HashMap.parse(hm.serialize().begin_parse(), 267, key_deserializer=lambda b: M.Builder().store_bits(b).end_cell().begin_parse().load_address(),
                           value_deserializer=lambda s: s.load_coins())
    R.check(set(got2) == set(addrs), 'address-keys-deser', 'Address keys do not come back through a key deserializer', {})
    R.cover('keyforms', 'address')
    # an address with an anycast prefix is 272 + depth bits long: in a 267-bit map it does not fit (and must not land on the key of the plain address), in a map of its
    # own width all of its bits are the key
    for depth in (1, 5, 30):
        base = rng.choice(addrs)
        a = Address((base.wc, base.hash_part))
        pfx = rng.getrandbits(depth) | 1
        a.set_anycast(depth, pfx)
        before = hm.serialize().hash
        st, e = mon.call(hm.set, a, 99)
        R.count('unfit_keys_tried')
        W = {'address': base.to_str(False), 'anycast_depth': depth}
        if st == 'ok':
            R.violation('unfit-key-accepted-address-anycast-toolarge', f'an Address key with an anycast prefix ({272 + depth} bits) was accepted by a 267-bit map; keys now '
                        f'{[hex(k)[:14] for k in list(hm.map)[:4]]}', W)
            hm.map = dict(vals and {k: v for k, v in zip(vals, vals.values())})
        else:
            R.exc(e)
            R.check(hm.serialize().hash == before, 'unfit-key-rejected-but-map-changed', 'a refused anycast Address key changed the map', W)
        wide = M.HashMap(272 + depth).with_coins_values()
        st, e = mon.call(wide.set, a, 5)
        full = int('101' + u(depth, 5) + u(pfx, depth) + u(a.wc & 0xFF, 8) + rc.bytes_to_bits(a.hash_part), 2)
        R.check(st == 'ok' and list(wide.map) == [full] and M.HashMap.parse(wide.serialize().begin_parse(), 272 + depth, value_deserializer=lambda s: s.load_coins()) == {full: 5},
                'address-key-anycast-own-width', f'an anycast Address key in a map of its own width ({272 + depth}) is not stored under all of its bits: {e!r}'[:300], W)


def _bitarray_keys(R, M, rng):
    """a bit array as a key: not one of the listed key forms - the map may refuse it; if it takes it, the key is the bits in index order whatever the array's storage order"""
    from bitarray import bitarray
    for w in (4, 8, 13):
        for endian in ('big', 'little'):
            for bits in ('0001', '1000', '0110', '1', '0000', '1011'):
                bits = (bits * 4)[:w]
                hm = M.HashMap(w).with_uint_values(8)
                st, e = mon.call(hm.set, bitarray(bits, endian=endian), 7)
                R.count('bitarray_key_attempts')
                if st == 'exc':
                    R.exc(e)
                    continue
                R.counters['oracle_evaluations'] += 1
                R.check(list(hm.map) == [int(bits, 2)], f'bitarray-key-misread-{endian}-endian', f'a {endian}-endian bit array {bits} taken as a key landed on {list(hm.map)} instead of {int(bits, 2)}',
                        {'width': w, 'bits': bits, 'endian': endian})
    R.cover('keyforms', 'bitarray')


def _hashed_keys(R, M, rng):
    import hashlib
    names = [f'k{rng.getrandbits(20)}' for _ in range(rng.randint(1, 6))] + ['name']
    hm = M.HashMap(256, value_serializer=lambda src, dest: dest.store_uint(src, 32))
    vals = {}
    for i, nme in enumerate(names):
        hm.set(nme, i, hash_key=True)
        vals[int.from_bytes(hashlib.sha256(nme.encode()).digest(), 'big')] = i
    got = M.HashMap.parse(hm.serialize().begin_parse(), 256, value_deserializer=lambda s: s.load_uint(32))
    R.check(got == vals and list(got) == sorted(vals), 'hashed-keys', 'hashed-string-keyed map does not round-trip', {'names': names})
    R.cover('keyforms', 'hashed')


def _ks_keys(R, M, rng):
    hm = M.HashMap(16, key_serializer=lambda k: k * 2, value_serializer=lambda s, d: d.store_uint(s, 8))
    ks = sorted({rng.getrandbits(15) for _ in range(5)})
    for k in ks:
        hm.set(k, k % 256)
    got = M.HashMap.parse(hm.serialize().begin_parse(), 16, key_deserializer=lambda b: int(b, 2) // 2, value_deserializer=lambda s: s.load_uint(8))
    R.check(got == {k: k % 256 for k in ks}, 'key-serializer', 'map with key serializer does not round-trip', {'keys': ks})
    R.cover('keyforms', 'key-serializer')


def _with_ks(hm, b):
    hm.key_serializer = lambda k: k
    return hm.set(b, 1)


def replay(R, witness, rec):
    """re-run the witnessed map (keys/width/value kind/order) under the same monitors"""
    M = DictMonitor(R)
    vks = {v.name: v for v in value_kinds()}
    rng = R.rng
    try:
        if 'form' in witness:       # unfit key
            w = witness['width']
            hm = M.HashMap(w).with_uint_values(8)
            key = witness['key']
            form = witness['form']
            val = int(key) if form.startswith('int') or form == 'key-serializer' else (bytes.fromhex(key) if form == 'bytes' else key)
            st, e = mon.call((lambda: _with_ks(hm, val)) if form == 'key-serializer' else (lambda: hm.set(val, 1)))
            R.case(None)
            R.check(st == 'exc', f'unfit-key-accepted-{form}-' + ('negative' if isinstance(val, int) and val < 0 else 'toolarge'), 'unfit key accepted', witness)
            return
        w = witness['width']
        keys = [int(k) for k in witness['keys']]
        vk = vks[witness.get('value_kind', 'uint8')]
        _case(R, M, w, keys, vk, rng, keyform=witness.get('keyform', 'int'))
    finally:
        M.close()

"""C20 - ADNL channel crypto is symmetric between peers; signatures and keys are consistent."""
import hashlib

from lib import mon

SHARDS = 16
SHARD_TIMEOUT = 3600


class ChannelContracts:
    """M-POST contracts on AdnlChannel.encrypt (packet layout) - evaluated on every packet any workload produces."""

    def __init__(self, R):
        self.R = R
        self.patch = mon.Patch()

    def install(self):
        from pytoniq_core.crypto import ciphers
        R = self.R
        orig = ciphers.AdnlChannel.__dict__['encrypt']

        def encrypt(self_, data):
            snap = bytes(data)
            out = orig(self_, data)
            R.counters['post_encrypt'] += 1
            R.counters['oracle_evaluations'] += 1
            W = {'plaintext_len': len(snap), 'plaintext_prefix': snap[:32]}
            if not isinstance(out, (bytes, bytearray)) or len(out) != 64 + len(snap):
                R.violation('packet-length', f'packet is {len(out)} bytes for a {len(snap)}-byte plaintext (want 32 + 32 + n)', W)
                return out
            if bytes(out[32:64]) != hashlib.sha256(snap).digest():
                R.violation('packet-checksum', 'bytes 32..64 of the packet are not SHA-256 of the plaintext', W)
            if bytes(out[:32]) != bytes(self_.client_aes_key_id):
                R.violation('packet-keyid-own', 'first 32 bytes are not the key id this endpoint announces (client_aes_key_id)', W)
            if bytes(data) != snap:
                R.violation('encrypt-mutates-input', 'encrypt changed its input buffer', W)
            return out
        self.patch.set(ciphers.AdnlChannel, 'encrypt', encrypt)
        return self

    def uninstall(self):
        self.patch.undo()


def id_pairs(rng, n):
    """(local id, peer id) pairs: both orders, equal, differing only in the last / first byte, shared long prefixes"""
    for i in range(n):
        a, b = rng.randbytes(32), rng.randbytes(32)
        k = i % 8
        if k == 0:
            yield a, a, 'equal'
        elif k == 1:
            yield a, a[:31] + bytes([a[31] ^ 1]), 'last-byte'
        elif k == 2:
            yield a, bytes([a[0] ^ 0x80]) + a[1:], 'first-byte'
        elif k == 3:
            yield bytes(32), b'\xff' * 32, 'extremes'
        elif k == 4:
            yield b'\xff' * 32, bytes(32), 'extremes-rev'
        else:
            yield a, b, 'random'


def run(R):
    from pytoniq_core.crypto import ciphers, signature, keys
    from pytoniq_core.crypto.ciphers import Client, Server, AdnlChannel
    rng = R.rng
    quick = R.tier == 'quick'
    R.rule = ('channel cases = (seed A, seed B, local id, peer id, plaintext length): both endpoints are constructed (A with B\'s public key and vice versa, ids mirrored), '
              'each direction is encrypted by one side and decrypted by the other; packet layout contract on every encrypt; signature cases = (key, message) with '
              'all 512 single-bit flips of the signature, neighbouring messages, other keys; mnemonics sampled from mnemonic_new() and produced by it under a steered entropy source (basic seeds with rare digest contents); distinct = distinct case tuple; '
              'non-trivial = plaintext non-empty / any signature case')
    R.assumptions = ['libsodium (PyNaCl), x25519 and pycryptodome are trusted', 'mnemonic_new is sampled with its default word count and with 12 / 18 / 32 words (recorded finding: the validator accepts 24 words only)',
                     '"fails" for a signature = verify_sign returns False or raises']
    C = ChannelContracts(R).install()
    try:
        npairs = (120 if quick else 2500)
        lengths = [0, 1, 15, 16, 17, 31, 32, 33, 1000] + ([100000] if R.shard == 0 else [])
        for i, (lid, pid, klass) in enumerate(id_pairs(rng, npairs)):
            sa, sb = rng.randbytes(32), rng.randbytes(32)
            if i % 50 == 7:
                sb = sa          # both sides use the same key pair
            W = {'seed_a': sa, 'seed_b': sb, 'local_id': lid, 'peer_id': pid}
            st, res = mon.call(lambda: (Client(sa), Client(sb)))
            if st == 'exc':
                R.violation(f'client-construct-{type(res).__name__}', f'Client(seed) raised {res!r}', W)
                continue
            ca, cb = res
            st, res = mon.call(lambda: (AdnlChannel(ca, Server('h', 1, cb.ed25519_public.encode()), lid, pid),
                                        AdnlChannel(cb, Server('h', 1, ca.ed25519_public.encode()), pid, lid)))
            if st == 'exc':
                R.violation(f'channel-construct-{type(res).__name__}', f'AdnlChannel raised {res!r}', W)
                continue
            A, B = res
            order = 'local>peer' if lid > pid else 'local<peer' if lid < pid else 'equal'
            R.count('pairs_' + order)
            R.cover('id_classes', klass)
            R.check(A.channel_shared == B.channel_shared, 'shared-secret-differs', 'the two endpoints derive different shared secrets', W)
            R.check(A.enc_key == B.dec_key and A.dec_key == B.enc_key, f'direction-keys-not-mirrored-{order}',
                    'enc/dec keys of the two endpoints are not mirrored', W)
            R.check(A.client_aes_key_id == B.server_aes_key_id and B.client_aes_key_id == A.server_aes_key_id, f'keyid-not-expected-by-peer-{order}',
                    'the key id one side sends is not the one the peer expects', W)
            # the first pair of each id class carries every plaintext length 0..80 (all residues of the 16-byte cipher block, several times over)
            for n in (list(range(81)) + lengths if i < 3 else lengths if i % 4 == 0 else [rng.choice(lengths[:9]), rng.randrange(0, 300)]):
                data = rng.randbytes(n)
                for dirname, X, Y in (('a->b', A, B), ('b->a', B, A)):
                    st, pkt = mon.call(X.encrypt, data)
                    if st == 'exc':
                        R.violation(f'encrypt-raises-{type(pkt).__name__}', f'encrypt raised {pkt!r}', dict(W, n=n))
                        continue
                    R.check(pkt[:32] == Y.server_aes_key_id, f'packet-keyid-peer-{order}', 'packet does not start with the key id the peer expects', dict(W, n=n))
                    st, back = mon.call(Y.decrypt, pkt[64:], pkt[32:64])
                    R.check(st == 'ok' and back == data, f'peer-cannot-decrypt-{order}', f'{dirname}: peer decrypts to something else '
                            f'({mon.srepr(back, 60)})', dict(W, n=n, data=data[:64]))
                    if n >= 16:
                        R.check(pkt[64:] != data, 'not-encrypted', 'ciphertext equals plaintext', dict(W, n=n))
                        # the sender's own decryption key is the other direction: must not decrypt its own packet unless ids are equal
                        if order != 'equal' and A.channel_shared != A.channel_shared[::-1]:
                            st2, own = mon.call(X.decrypt, pkt[64:], pkt[32:64])
                            R.check(not (st2 == 'ok' and own == data), f'directions-share-key-{order}', 'both directions use the same key although ids differ', W)
                    R.count('packets')
                    R.cover('plaintext_lengths', n if n in lengths else 'other')
                R.case(mon.fp('ch', sa, sb, lid, pid, n) if n else None, sample={'local_id': lid.hex()[:16], 'peer_id': pid.hex()[:16], 'order': order, 'len': n})
            # another local identity opens a channel to the SAME peer in this process (and the first pair is used again afterwards):
            # nothing derived for A<->B may leak into C<->B
            if i % 3 == 0:
                sc_ = rng.randbytes(32)
                cc = Client(sc_)
                st, res = mon.call(lambda: (AdnlChannel(cc, Server('h', 1, cb.ed25519_public.encode()), lid, pid),
                                            AdnlChannel(cb, Server('h', 1, cc.ed25519_public.encode()), pid, lid)))
                if st == 'ok':
                    C2, B2 = res
                    data = rng.randbytes(40)
                    W2 = dict(W, seed_c=sc_)
                    R.check(C2.channel_shared == B2.channel_shared, 'shared-secret-differs-second-identity', 'a second local identity talking to the same peer derives '
                            'another secret than that peer (state carried over from the first channel)', W2)
                    for X, Y in ((C2, B2), (B2, C2), (A, B), (B, A)):
                        st, pkt = mon.call(X.encrypt, data)
                        ok = st == 'ok' and pkt[:32] == Y.server_aes_key_id
                        if ok:
                            st, back = mon.call(Y.decrypt, pkt[64:], pkt[32:64])
                            ok = st == 'ok' and back == data
                        R.check(ok, 'peer-cannot-decrypt-second-identity', 'with two local identities talking to one peer, a channel is no longer symmetric', W2)
                    R.count('second_identity_pairs')

        # ---- signatures
        nkeys = 6 if quick else 60
        for i in range(nkeys):
            seed = rng.randbytes(32)
            cl = Client(seed)
            pub = cl.ed25519_public.encode()
            sk64 = seed + pub                   # libsodium secret-key layout
            other = Client(rng.randbytes(32)).ed25519_public.encode()
            # message lengths: the small ones, one random one, and (first two keys) lengths around the sizes at which an implementation might chunk or cut
            for n in [0, 1, 32, 33, 64, 100, rng.randrange(0, 2000)] + ([255, 256, 1023, 1024, 1025, 2049, 4097, 65537] if i < 2 else []):
                msg = rng.randbytes(n)
                W = {'seed': seed, 'msg': msg[:64], 'n': n}
                sigs = {}
                for name, f in (('sign_message', lambda: signature.sign_message(msg, sk64)), ('Client.sign', lambda: cl.sign(msg)),
                                ('get_signature', lambda: ciphers.get_signature(cl.ed25519_private, msg))):
                    st, sig = mon.call(f)
                    if st == 'exc':
                        R.violation(f'sign-raises-{name}', f'{name} raised {sig!r}', W)
                        continue
                    sigs[name] = bytes(sig)
                    R.check(len(sig) == 64, f'signature-length-{name}', f'{name} returned {len(sig)} bytes', W)
                    st, ok = mon.call(signature.verify_sign, pub, msg, bytes(sig))
                    R.check(st == 'ok' and ok is True, f'own-signature-rejected-{name}', f'signature by {name} does not verify under the matching key', W)
                    # independent verification (PyNaCl directly)
                    from nacl.signing import VerifyKey
                    try:
                        VerifyKey(pub).verify(msg, bytes(sig))
                        ind = True
                    except Exception:
                        ind = False
                    R.check(ind, f'signature-invalid-{name}', f'{name} signature is not a valid Ed25519 signature of the message', W)
                    R.count('signatures_made')
                if not sigs:
                    continue
                R.check(len(set(sigs.values())) == 1, 'signers-disagree', 'the three signing helpers give different signatures for the same key and message', W)
                sig = next(iter(sigs.values()))

                def rejected(p, m, s):
                    st, ok = mon.call(signature.verify_sign, p, m, s)
                    return st == 'exc' or ok is False
                R.check(rejected(other, msg, sig), 'verifies-under-other-key', 'signature verifies under another key', W)
                # the message is a byte string whatever its class: an already signed document (PyNaCl's SignedMessage is a bytes subclass carrying its own .signature and
                # .message) that is countersigned, a user's bytes subclass - signed and verified like the same bytes
                from nacl.signing import SigningKey as _SK

                class Blob(bytes):
                    pass
                inner = _SK(rng.randbytes(32)).sign(msg)                   # SignedMessage = inner signature + msg
                for mname, m in (('SignedMessage', inner), ('bytes-subclass', Blob(msg))):
                    st, csig = mon.call(signature.sign_message, m, sk64)
                    if st == 'exc':
                        R.violation(f'sign-raises-message-{mname}', f'sign_message of a {mname} raised {csig!r}', W)
                        continue
                    csig = bytes(csig)
                    st, ok = mon.call(signature.verify_sign, pub, m, csig)
                    R.check(st == 'ok' and ok is True, f'own-signature-rejected-message-{mname}', f'the signature over a message given as a {mname} does not verify under the matching key', W)
                    st, ok = mon.call(signature.verify_sign, pub, bytes(m), csig)
                    R.check(st == 'ok' and ok is True, f'own-signature-rejected-message-{mname}', f'the signature over a {mname} does not verify for the same bytes as plain bytes', W)
                    R.check(rejected(pub, m, bytes(64)) and rejected(pub, m, csig[:63] + bytes([csig[63] ^ 1])) and rejected(other, m, csig),
                            f'forged-signature-accepted-message-{mname}', f'a zero / altered signature, or another key, is accepted for a message given as a {mname}', W)
                    R.count('bytes_subclass_messages')
                R.check(rejected(pub, msg + b'\x00', sig), 'verifies-extended-message', 'signature verifies for message + 1 byte', W)
                if n:
                    R.check(rejected(pub, msg[:-1], sig), 'verifies-truncated-message', 'signature verifies for message - 1 byte', W)
                    j = rng.randrange(n * 8)
                    m2 = bytearray(msg)
                    m2[j // 8] ^= 1 << (j % 8)
                    R.check(rejected(pub, bytes(m2), sig), 'verifies-flipped-message', 'signature verifies for a message with one bit flipped', W)
                for alt_name, alt in (('one-byte-appended', sig + b'\x00'), ('doubled', sig + sig), ('message-appended', sig + msg[:8] + b'x'), ('last-byte-dropped', sig[:-1]),
                                      ('first-half', sig[:32]), ('empty', b''), ('all-zero', bytes(64))):
                    R.check(rejected(pub, msg, alt), f'altered-signature-accepted-{alt_name}', f'altered signature ({alt_name}, {len(alt)} bytes) verifies', W)
                # bytes moved across the boundary between signature and message: (signature || message) is the same string, the pair is another one
                for k in (1, 2, 7, 31):
                    if n >= k:
                        R.check(rejected(pub, msg[k:], sig + msg[:k]), 'altered-signature-accepted-message-prefix-moved-into-signature',
                                f'(signature + first {k} message bytes, rest of the message) verifies', dict(W, k=k))
                    R.check(rejected(pub, sig[64 - k:] + msg, sig[:64 - k]), 'altered-signature-accepted-signature-tail-moved-into-message',
                            f'(first {64 - k} signature bytes, last {k} signature bytes + message) verifies', dict(W, k=k))
                    R.count('signature_negatives', 2)
                # the optional encoder argument encodes the detached signature; decoding gives the raw one back
                import nacl.encoding as _enc
                for E in (_enc.RawEncoder, _enc.HexEncoder, _enc.Base16Encoder, _enc.Base32Encoder, _enc.Base64Encoder, _enc.URLSafeBase64Encoder):
                    st, es = mon.call(signature.sign_message, msg, sk64, E)
                    if st == 'exc':
                        R.violation(f'sign-raises-encoder-{E.__name__}', f'sign_message(..., encoder={E.__name__}) raised {es!r}', W)
                        continue
                    st2, raw = mon.call(E.decode, es)
                    R.check(st2 == 'ok' and raw == sig and es == E.encode(sig), f'encoded-signature-{E.__name__}',
                            f'sign_message with {E.__name__} is not the encoding of the detached signature (so it cannot verify under the matching key)', dict(W, encoder=E.__name__))
                    R.count('encoded_signatures')
                R.count('signature_negatives', 11)
                if n in (32, 100) or not quick:
                    bad = 0
                    for b in range(512):
                        s2 = bytearray(sig)
                        s2[b // 8] ^= 1 << (b % 8)
                        if not rejected(pub, msg, bytes(s2)):
                            bad += 1
                            R.violation('altered-signature-accepted', f'signature with bit {b} flipped verifies', dict(W, bit=b))
                    R.count('signature_bitflips', 512)
                    R.counters['oracle_evaluations'] += 512
                R.case(mon.fp('sig', seed, msg))

        # ---- the peer given as an instance of a Server subclass (applications derive their node classes from Server) and the local side as a Client subclass
        class _Node(Server):
            pass

        class _MyClient(Client):
            pass
        for i in range(6):
            sa, sb = rng.randbytes(32), rng.randbytes(32)
            ca, cb = _MyClient(sa) if i % 2 else Client(sa), Client(sb)
            lid, pid = ca.get_key_id(), cb.get_key_id()
            st, res = mon.call(lambda: (AdnlChannel(ca, _Node('h', 1, cb.ed25519_public.encode()), lid, pid), AdnlChannel(cb, Server('h', 1, ca.ed25519_public.encode()), pid, lid)))
            W = {'seed_a': sa, 'seed_b': sb, 'peer_class': 'Server subclass', 'local_class': type(ca).__name__}
            if st == 'exc':
                R.violation(f'channel-construct-subclass-{type(res).__name__}', f'AdnlChannel with a Server-subclass peer raised {res!r}', W)
                continue
            A_, B_ = res
            data = rng.randbytes(40)
            pkt = A_.encrypt(data)
            st2, back = mon.call(B_.decrypt, pkt[64:], pkt[32:64])
            R.check(pkt[:32] == B_.server_aes_key_id and st2 == 'ok' and back == data and pkt[32:64] == hashlib.sha256(data).digest(), 'subclass-peer-channel',
                    'a channel opened towards a Server-subclass peer is not what the peer decrypts / expects', W)
            R.count('subclass_peer_channels')
        # ---- key ids
        for i in range(20):
            seed = rng.randbytes(32)
            cl = Client(seed)
            R.check(cl.get_key_id() == hashlib.sha256(b'\xc6\xb4\x13\x48' + cl.ed25519_public.encode()).digest(), 'key-id', 'key id is not sha256(magic + pubkey)', {'seed': seed})
            R.check(Server('h', 1, cl.ed25519_public.encode()).get_key_id() == cl.get_key_id(), 'key-id-server-client', 'Server and Client disagree on the id of one key', {'seed': seed})
            R.case(mon.fp('kid', seed))

        # ---- mnemonics
        nm = (12 if quick else 40)
        nd = (3 if quick else 6)
        for i in range(nm):
            st, words = mon.call(keys.mnemonic_new)
            if st == 'exc':
                R.violation('mnemonic-new-raises', f'mnemonic_new raised {words!r}', {})
                continue
            R.check(isinstance(words, list) and len(words) == 24 and all(w in keys.words for w in words), 'mnemonic-shape', 'mnemonic_new() is not 24 words of the word list', {'words': words})
            R.check(keys.mnemonic_is_valid(words) is True, 'generated-mnemonic-invalid', 'mnemonic_is_valid(mnemonic_new()) is false', {'words': words})
            R.count('mnemonics')
            R.case(mon.fp('mn', tuple(words)), sample={'mnemonic_first_words': words[:3]})
            # corrupting the mnemonic must (almost always) invalidate it: count, do not judge (1/256 chance of validity)
            w2 = list(words)
            w2[rng.randrange(24)] = rng.choice(keys.words)
            R.count('altered_mnemonic_still_valid', int(bool(keys.mnemonic_is_valid(w2))))
            if i < nd:
                k1 = keys.mnemonic_to_wallet_key(words)
                k2 = keys.mnemonic_to_wallet_key(list(words))
                R.check(k1 == k2, 'derivation-not-deterministic', 'two derivations from the same mnemonic differ', {'words': words})
                pub, priv = k1
                R.check(len(pub) == 32 and len(priv) == 64 and priv[32:] == pub and keys.private_key_to_public_key(priv) == pub, 'derived-key-shape',
                        'derived (public, secret) pair is inconsistent', {'words': words})
                p1 = keys.mnemonic_to_private_key(words)
                R.check(p1 == keys.mnemonic_to_private_key(words) and p1[1][32:] == p1[0], 'derivation-not-deterministic', 'mnemonic_to_private_key differs between calls', {'words': words})
                msg = rng.randbytes(40)
                sig = signature.sign_message(msg, priv)
                R.check(signature.verify_sign(pub, msg, sig) is True, 'derived-key-signature', 'a signature by the derived key does not verify under the derived public key', {'words': words})
                R.count('derivations')
        for i in range(4 if quick else 12):
            pw = rng.choice(['x', 'correct horse', 'пароль'])
            st, words = mon.call(keys.mnemonic_new, 24, pw)
            if st == 'exc':
                R.violation('mnemonic-new-raises', f'mnemonic_new(24, password) raised {words!r}', {'password': pw})
                continue
            R.check(keys.mnemonic_is_valid(words) is True, 'generated-mnemonic-invalid-with-password', 'mnemonic_is_valid(mnemonic_new(24, password)) is false',
                    {'words': words, 'password': pw})
            R.count('mnemonics_with_password')
            R.case(mon.fp('mnpw', tuple(words)))
        R.check(keys.mnemonic_is_valid(['abandon'] * 23) is False, 'short-mnemonic-valid', '23-word mnemonic accepted', {})
        # the generator's other parameter: a word count other than the default 24 (its output is a generated mnemonic too)
        for wc in (12, 18, 32):
            st, words = mon.call(keys.mnemonic_new, wc)
            R.counters['oracle_evaluations'] += 1
            R.count('mnemonics_other_word_count')
            if st == 'exc':
                R.exc(words)         # refusing an unsupported word count is consistent with the validator
                continue
            st, ok = mon.call(keys.mnemonic_is_valid, words)
            R.check(st == 'ok' and ok is True, 'generated-mnemonic-invalid-other-word-count', f'mnemonic_new({wc}) returned {len(words)} words which mnemonic_is_valid calls invalid', {'word_count': wc})
        steered_mnemonics(R, keys, rng, 1 if quick else 6)
    finally:
        C.uninstall()
    R.floor('pairs_local>peer', 5)
    R.floor('pairs_local<peer', 5)
    R.floor('pairs_equal', 2)
    R.floor('post_encrypt', 100)
    R.floor('signature_bitflips', 512)
    R.floor('encoded_signatures', 30)
    R.floor('mnemonics', 5)
    R.floor('derivations', 2)
    R.floor('second_identity_pairs', 5)
    R.floor('mnemonics_with_password', 3)
    R.floor('steered_mnemonics', 3)


def steered_mnemonics(R, keys, rng, per_feature):
    """The generator's output space is every 24-word list that passes the basic-seed test; what its random source happens to give in a dozen calls says nothing
    about the rare members.  Here the entropy source of the generator is replaced (os.urandom as seen by the keys module, restored afterwards) by a stream that makes
    the real generator emit word lists chosen beforehand by an independent search: basic seeds whose digests have a particular content - first byte of the
    'TON fast seed version' digest equal to 1 (tonlib's password-seed marker) or 0, entropy beginning with a zero byte or ending in 0xFF.  Every list the generator
    returns - steered as intended or not - must be valid."""
    import hashlib
    import hmac
    import os as real_os

    def entropy(words):
        return hmac.new(' '.join(words).encode(), b'', hashlib.sha512).digest()

    def basic(e):
        return hashlib.pbkdf2_hmac('sha512', e, b'TON seed version', 100000 // 256)[0] == 0

    features = {'fast-seed-digest-01': lambda e: hashlib.pbkdf2_hmac('sha512', e, b'TON fast seed version', 1)[0] == 1,
                'fast-seed-digest-00': lambda e: hashlib.pbkdf2_hmac('sha512', e, b'TON fast seed version', 1)[0] == 0,
                'entropy-begins-00': lambda e: e[0] == 0, 'entropy-ends-ff': lambda e: e[-1] == 0xFF}
    wl = list(keys.words)
    for fname, feat in features.items():
        found = 0
        tries = 0
        while found < per_feature and tries < 400000:
            tries += 1
            target = [wl[rng.randrange(len(wl))] for _ in range(24)]
            e = entropy(target)
            if not feat(e) or not basic(e):
                continue
            found += 1
            stream = [wl.index(w) for w in target]
            served = [0]

            class _OS:
                def __getattr__(self, k):
                    return getattr(real_os, k)

                def urandom(self, n):
                    if served[0] < len(stream) and n >= 2:
                        i = stream[served[0]]
                        served[0] += 1
                        return i.to_bytes(2, 'big') + bytes(n - 2)
                    return real_os.urandom(n)
            old = getattr(keys, 'os', real_os)      # (a module that does not go through `os` at all is simply not steered)
            keys.os = _OS()
            try:
                st, words = mon.call(keys.mnemonic_new)
            finally:
                keys.os = old
            W = {'feature': fname, 'target': target}
            if st == 'exc':
                R.violation('mnemonic-new-raises', f'mnemonic_new raised {words!r} under a steered entropy source', W)
                continue
            R.count('steered_as_intended' if words == target else 'steered_but_other_output')
            R.cover('steered_features', fname)
            R.counters['oracle_evaluations'] += 1
            R.check(keys.mnemonic_is_valid(words) is True, 'generated-mnemonic-invalid', f'mnemonic_is_valid is false for a mnemonic the generator produced ({fname})', dict(W, words=words))
            k1, k2 = keys.mnemonic_to_wallet_key(words), keys.mnemonic_to_wallet_key(list(words))
            R.check(k1 == k2 and k1[1][32:] == k1[0], 'derivation-not-deterministic', 'two derivations from the same generated mnemonic differ', dict(W, words=words))
            R.count('steered_mnemonics')
            R.case(mon.fp('steered', tuple(words)))
        R.extra.setdefault('steered_search_tries', {})[fname] = tries
    # a long run of bad luck: the entropy source yields 1500 (thorough: 4000) word lists in a row that are not basic seeds before one that is (each draw is rejected
    # with probability 255/256, so runs of any length occur); the generator must simply keep drawing
    for run_len in ([1500] if per_feature == 1 else [1500, 4000]):
        rejected = []
        while len(rejected) < run_len:
            cand = [wl[rng.randrange(len(wl))] for _ in range(24)]
            if not basic(entropy(cand)):
                rejected.append(cand)
        while True:
            target = [wl[rng.randrange(len(wl))] for _ in range(24)]
            if basic(entropy(target)):
                break
        stream = [wl.index(w) for lst in rejected + [target] for w in lst]
        served = [0]

        class _OS2:
            def __getattr__(self, k):
                return getattr(real_os, k)

            def urandom(self, n):
                if served[0] < len(stream) and n >= 2:
                    i = stream[served[0]]
                    served[0] += 1
                    return i.to_bytes(2, 'big') + bytes(n - 2)
                return real_os.urandom(n)
        old = getattr(keys, 'os', real_os)
        keys.os = _OS2()
        try:
            st, words = mon.call(keys.mnemonic_new)
        finally:
            keys.os = old
        W = {'rejected_draws_before_success': run_len}
        R.counters['oracle_evaluations'] += 1
        if st == 'exc':
            R.exc(words)
            R.violation(f'mnemonic-new-raises-after-many-rejected-draws-{type(words).__name__}', f'mnemonic_new raised {words!r} when its entropy source gave {run_len} rejected word lists in a row', W)
        else:
            R.count('steered_as_intended' if words == target else 'steered_but_other_output')
            R.check(keys.mnemonic_is_valid(words) is True, 'generated-mnemonic-invalid', 'mnemonic_is_valid is false for a mnemonic the generator produced after a long run of rejected draws', dict(W, words=words))
        R.count('long_rejection_runs')
        R.case(mon.fp('badluck', run_len))


def replay(R, w, rec):
    from pytoniq_core.crypto.ciphers import Client, Server, AdnlChannel
    R.case(None)
    if 'seed_a' in w:
        ca, cb = Client(w['seed_a']), Client(w['seed_b'])
        lid, pid = w['local_id'], w['peer_id']
        A = AdnlChannel(ca, Server('h', 1, cb.ed25519_public.encode()), lid, pid)
        B = AdnlChannel(cb, Server('h', 1, ca.ed25519_public.encode()), pid, lid)
        data = w.get('data') or b'replay-plaintext-0123456789abcdef'
        ok = True
        for X, Y in ((A, B), (B, A)):
            pkt = X.encrypt(data)
            ok = ok and pkt[:32] == Y.server_aes_key_id and Y.decrypt(pkt[64:], pkt[32:64]) == data and pkt[32:64] == hashlib.sha256(data).digest()
        R.check(ok, rec.get('key', 'replay'), 'replayed channel pair is still asymmetric', w)
    else:
        R.inconc('replay-not-supported-for-this-witness')

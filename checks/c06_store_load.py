"""C06 - typed Builder stores and Slice loads are mutually inverse and bit-exact (reference bit writer R3)."""
from lib import bridge, bsmodel as M, gen, mon, refcell as rc

SHARDS = 16


def classify(f):
    """mechanism key fragment for a field"""
    k = f.kind
    if k in ('var_int', 'var_uint', 'coins'):
        v = f.value
        n = M.signed_bytelen(v) if k == 'var_int' else (v.bit_length() + 7) // 8
        top = ''
        if k == 'var_int' and v:
            top = '-topbit' if (abs(v).bit_length() % 8 == 0 and v > 0) or (v < 0 and (-v - 1).bit_length() % 8 == 0 and v != -1 and (-v-1) > 0) else ''
        return f'{k}{top}'
    if k == 'address':
        v = f.value
        if v is None:
            return 'addr-none'
        if v[0] == 'ext':
            return 'addr-ext-len0' if v[2] == 0 else 'addr-ext'
        return 'addr-std-anycast' if v[3] else 'addr-std'
    if k in ('uint', 'int') and f.w == 0:
        return k + '-width0'
    return k


def run_sequence(R, B, fields, W):
    """store all fields, compare bits with the reference, load back in order with preload==load and position checks"""
    b = B.Builder()
    exp_bits, exp_refs = '', []
    for f in fields:
        key = classify(f)
        if isinstance(f, M.Snake):
            fb, cont = f.layout(len(exp_bits))
        else:
            fb, cont = f.bits(), None
        st, e = mon.call(f.store, b)
        R.count(f'store:{f.kind}')
        if st == 'exc':
            R.exc(e)
            R.violation(f'store-raises-{key}', f'storing a fitting {f.kind} raised {e!r}', dict(W, field=f.desc(), at_bits=len(exp_bits)))
            return
        exp_bits += fb
        if cont is not None:
            exp_refs.append(cont.hash)
        exp_refs += [c.hash for c in f.ref_cells()]
        got = b.bits.to01()
        if not R.check(got == exp_bits, f'bits-{key}', f'bits written for {f.kind} differ from the TL-B encoding: got ...{got[len(exp_bits) - len(fb):][:80]} want {fb[:80]}',
                       dict(W, field=f.desc())):
            return
        if not R.check([x.hash for x in b.refs] == exp_refs, f'refs-{key}', f'references after storing {f.kind} differ from expected', dict(W, field=f.desc())):
            return
    st, cell = mon.call(b.end_cell)
    if st == 'exc':
        R.exc(cell)
        R.violation(f'end_cell-raises-{len(exp_bits)}bits-{len(exp_refs)}refs' if len(exp_bits) in (0, 1023) else 'end_cell-raises',
                    f'end_cell() raised {cell!r} after a valid sequence of stores totalling {len(exp_bits)} bits / {len(exp_refs)} refs', W)
        return
    R.check(cell.bits.to01() == exp_bits and [x.hash for x in cell.refs] == exp_refs, 'end_cell-content', 'end_cell() content differs from what was stored', W)
    if len(exp_bits) == 1023:
        R.count('sequences_exactly_1023_bits')
    if len(exp_refs) == 4:
        R.count('sequences_exactly_4_refs')
    s = cell.begin_parse()
    rem_bits, rem_refs = len(exp_bits), len(exp_refs)
    for f in fields:
        key = classify(f)
        fb_len, fr = (rem_bits, rem_refs) if isinstance(f, M.Snake) else (len(f.bits()), f.nrefs)
        pre = f.preload(s.copy()) if False else None
        stp, pv = ('skip', None)
        if f.preload.__func__ is not M.Field.preload:
            stp, pv = mon.call(f.preload, s)
            R.count(f'preload:{f.kind}')
            R.check(s.remaining_bits == rem_bits and s.remaining_refs == rem_refs, f'preload-consumed-{key}', f'preload of {f.kind} consumed input', dict(W, field=f.desc()))
        st, v = mon.call(f.load, s)
        R.count(f'load:{f.kind}')
        if st == 'exc':
            R.exc(v)
            R.violation(f'load-raises-{key}', f'loading back a stored {f.kind} raised {v!r}', dict(W, field=f.desc()))
            return
        if not R.check(f.eq(v), f'value-{key}', f'{f.kind} loaded back as {mon.srepr(v)} (type {type(v).__name__})', dict(W, field=f.desc())):
            return
        if stp == 'exc':
            R.exc(pv)
            R.violation(f'preload-raises-{key}', f'preload of {f.kind} raised {pv!r} where load succeeded', dict(W, field=f.desc()))
        elif stp == 'ok':
            R.check(f.eq(pv), f'preload-differs-{key}', f'preload of {f.kind} returned {mon.srepr(pv)}, load returned {mon.srepr(v)}', dict(W, field=f.desc()))
        rem_bits -= fb_len
        rem_refs -= fr
        if not R.check(s.remaining_bits == rem_bits and s.remaining_refs == rem_refs, f'position-{key}',
                       f'after loading {f.kind}: {s.remaining_bits} bits/{s.remaining_refs} refs remain, expected {rem_bits}/{rem_refs}', dict(W, field=f.desc())):
            return
    R.check(s.remaining_bits == 0 and s.remaining_refs == 0, 'left-unread', 'something left unread after loading every field', W)


def api_variants(R, B, rng):
    """the alternative spellings of the same stores / loads: string with the default length, every argument form of store_bit, prefixed snake strings,
    ExternalAddress built from hex text / bytes / int, Address built from an Address, Builder.to_cell / to_slice, zero-width peeks.  Expected bits by hand from the TL-B rules."""
    from pytoniq_core.boc.address import Address, ExternalAddress
    from pytoniq_core.boc.tvm_bitarray import TvmBitarray

    def bits_of_bytes(b):
        return ''.join(f'{x:08b}' for x in b)

    def case(name, build, want_bits, reads, W=None):
        """build() -> builder; its bits must equal want_bits; reads(slice) -> list of (what, got, want)"""
        W = dict(W or {}, variant=name)
        st, b = mon.call(build)
        R.count('api_variant_cases')
        R.cover('api_variants', name)
        if st == 'exc':
            R.violation(f'api-variant-store-raises-{name}', f'{name}: store raised {b!r}', W)
            return
        got = b.bits.to01()
        if not R.check(got == want_bits, f'api-variant-bits-{name}', f'{name}: wrote {got[:80]} expected {want_bits[:80]}', W):
            return
        st, res = mon.call(reads, b.end_cell().begin_parse())
        if st == 'exc':
            R.violation(f'api-variant-load-raises-{name}', f'{name}: load raised {res!r}', W)
            return
        for what, g, w in res:
            R.check(g == w and type(g) is type(w), f'api-variant-value-{name}', f'{name}: {what} gave {mon.srepr(g, 60)} ({type(g).__name__}), expected {mon.srepr(w, 60)}', W)
    # texts that are not in a Unicode normal form (combining marks, compatibility characters, conjoining jamo), have lone surrogate-free astral characters, control
    # characters and a NUL: a string field holds exactly the code points given, in UTF-8
    for text in ('', 'a', 'héllo wörld', 'ascii only', '€' * 40, 'x' * 127, 'cafe\u0301', '\u212b\u2126', 'n\u0303o', '\u1100\u1161\u11a8', '\ufb01n', '\u00e9 e\u0301', 'a\x00b\x7f\x01',
                 '\U0001f600\U0001f1e6\U0001f1fa', '\u200b\u200d\ufeff', '\u0041\u030a\u0327'):
        enc = text.encode()
        pre = gen.rand_bits(rng, rng.choice([0, 3, 8]) if len(enc) <= 126 else 0)
        # a string as the last field, read with the default length (= everything that is left)
        case('string-default-length', lambda: B.Builder().store_bits(pre).store_string(text), pre + bits_of_bytes(enc),
             lambda s: (s.skip_bits(len(pre)), [('preload_string()', s.preload_string(), text), ('remaining after preload', s.remaining_bits, 8 * len(enc)),
                                                ('load_string()', s.load_string(), text), ('remaining', s.remaining_bits, 0)])[1], {'text': text[:20], 'prefix_bits': len(pre)})
        case('string-explicit-length', lambda: B.Builder().store_string(text).store_uint(5, 3), bits_of_bytes(enc) + '101',
             lambda s: [('preload_string(n)', s.preload_string(len(enc)) if enc else '', text), ('load_string(n)', s.load_string(len(enc)) if enc else '', text),
                        ('then uint', s.load_uint(3), 5)], {'text': text[:20]})
        for prefix in (False, True):
            data = (b'\x00' if prefix else b'') + enc
            case(f'snake-string-prefix{int(prefix)}', lambda: B.Builder().store_snake_string(text, prefix) if prefix else B.Builder().store_snake_string(text), bits_of_bytes(data[:127]),
                 lambda s: [('load_snake_bytes', s.copy().load_snake_bytes(), data), ('load_snake_string', s.load_snake_string(), data.decode())], {'text': text[:20]})
    # snake chains up to the deepest legal one (root + 1023 cells of 127 bytes = 130 048 bytes), and bytes-like arguments whose items are wider than a byte
    import array as _array
    for nbytes in (127 * 500, 127 * 1000 + 5, 130048):
        blob = bytes((i * 7 + 3) & 0xFF for i in range(nbytes))
        case(f'snake-bytes-{nbytes}', lambda blob=blob: B.Builder().store_snake_bytes(blob), bits_of_bytes(blob[:127]),
             lambda s, blob=blob: [('load_snake_bytes', s.load_snake_bytes(), blob)], {'bytes': nbytes})
    for code in ('H', 'I', 'Q'):
        blob = bytes((i * 11 + 1) & 0xFF for i in range(160))
        arr = _array.array(code)
        arr.frombytes(blob)
        case(f'snake-bytes-array-{code}', lambda arr=arr: B.Builder().store_snake_bytes(arr), bits_of_bytes(blob[:127]),
             lambda s, blob=blob: [('load_snake_bytes', s.load_snake_bytes(), blob)], {'form': f'array {code}'})
        case(f'snake-bytes-memoryview-cast-{code}', lambda blob=blob, code=code: B.Builder().store_snake_bytes(memoryview(blob).cast(code)), bits_of_bytes(blob[:127]),
             lambda s, blob=blob: [('load_snake_bytes', s.load_snake_bytes(), blob)], {'form': f'memoryview cast {code}'})
    long_text = 'ж' * 400          # 800 bytes + prefix: crosses several cells
    case('snake-string-prefix1-long', lambda: B.Builder().store_snake_string(long_text, True), bits_of_bytes((b'\x00' + long_text.encode())[:127]),
         lambda s: [('load_snake_string', s.load_snake_string(), '\x00' + long_text)], {})
    for arg, bit in ((1, '1'), (0, '0'), (True, '1'), (False, '0'), ('1', '1'), ('0', '0')):
        case(f'store_bit-{type(arg).__name__}', lambda: B.Builder().store_bit(arg).store_bit_int(1).store_bool(False), bit + '10',
             lambda s: [('load_bit', s.load_bit(), int(bit)), ('load_bool', s.load_bool(), True), ('preload_bit', s.preload_bit(), 0)], {'arg': repr(arg)})
    for src in ('1', '0', '10', '01'):
        t = TvmBitarray(8)
        t.extend(src)
        case('store_bit-TvmBitarray', lambda: B.Builder().store_bit(t), src[0], lambda s: [('load_bit', s.load_bit(), int(src[0]))], {'arg': src})
    # zero-width peeks and reads in the middle of data
    case('zero-width-peeks', lambda: B.Builder().store_uint(0xAB, 8), '10101011',
         lambda s: [('preload_uint(0)', s.preload_uint(0), 0), ('preload_int(0)', s.preload_int(0), 0), ('load_uint(0)', s.load_uint(0), 0), ('load_int(0)', s.load_int(0), 0),
                    ('remaining', s.remaining_bits, 8), ('preload_int(8)', s.preload_int(8), 0xAB - 256), ('load_uint(8)', s.load_uint(8), 0xAB)])
    # external addresses from every constructor form
    for val, ln in ((0xff0a, 16), (1, 1), (0, 5), (0x00ab, 16), ((1 << 300) | 1, 301)):
        want = '01' + f'{ln:09b}' + (f'{val:0{ln}b}' if ln else '')
        forms = [('int', lambda: ExternalAddress(val, ln))]
        if ln % 8 == 0 and ln:
            forms += [('hex-str', lambda: ExternalAddress(val.to_bytes(ln // 8, 'big').hex(), ln)), ('bytes', lambda: ExternalAddress(val.to_bytes(ln // 8, 'big'), ln))]
        for fname, mk in forms:
            case(f'external-address-from-{fname}', lambda: B.Builder().store_address(mk()).store_bit(1), want + '1',
                 lambda s: [('preload_address', (lambda a: (a.external_address, a.len))(s.preload_address()), (val, ln)),
                            ('load_address', (lambda a: (a.external_address, a.len))(s.load_address()), (val, ln)), ('then bit', s.load_bit(), 1)], {'value': str(val), 'len': ln})
    # a byte string / hex text without an explicit length has the length of its bytes: leading zero bits belong to the value (b'\x00\x01' is not b'\x01')
    for raw in (b'\x00\xff', b'\x7f', b'\x00', b'\x00\x00\x01', b'\xff', b'\x80\x00', bytes(range(32)), bytes(8), rng.randbytes(5), b'\x01' + bytes(20)):
        ln = 8 * len(raw)
        val = int.from_bytes(raw, 'big')
        want = '01' + f'{ln:09b}' + bits_of_bytes(raw)
        for fname, mk in (('bytes-own-length', lambda: ExternalAddress(raw)), ('hex-str-own-length', lambda: ExternalAddress(raw.hex()))):
            case(f'external-address-from-{fname}', lambda: B.Builder().store_address(mk()).store_bit(1), want + '1',
                 lambda s: [('preload_address', (lambda a: (a.external_address, a.len))(s.preload_address()), (val, ln)),
                            ('load_address', (lambda a: (a.external_address, a.len))(s.load_address()), (val, ln)), ('then bit', s.load_bit(), 1)], {'bytes': raw.hex()})
    # the empty external address (the signature admits None, to_cell writes addr_none for it)
    case('external-address-from-None', lambda: B.Builder().store_address(ExternalAddress(None)).store_bit(1), '00' + '1',
         lambda s: [('preload_address', s.preload_address(), None), ('load_address', s.load_address(), None), ('then bit', s.load_bit(), 1)], {})
    # a copy of an anycast address is that address: the rewrite prefix goes with it
    for depth, pfx in ((1, 1), (5, 0b10110), (30, (1 << 30) - 2)):
        hp = rng.randbytes(32)
        a = Address((0, hp))
        a.set_anycast(depth, pfx)
        want = '101' + f'{depth:05b}' + f'{pfx:0{depth}b}' + '00000000' + bits_of_bytes(hp)
        for fname, mk in (('Address', lambda: a), ('Address-copy', lambda: Address(a)), ('Address-copy-of-loaded', lambda: Address(B.Builder().store_address(a).end_cell().begin_parse().load_address()))):
            case(f'store_address-anycast-{fname}', lambda: B.Builder().store_address(mk()), want,
                 lambda s: [('load_address', (lambda x: (x.wc, x.hash_part, x.anycast.depth, x.anycast.prefix if hasattr(x.anycast, 'prefix') else x.anycast.rewrite_pfx))(s.load_address()), (0, hp, depth, pfx))],
                 {'depth': depth})
    # an address that fills the cell exactly: 267 bits (plain) or 272 + depth bits (anycast, every depth) stored with exactly that much room left
    for depth in [0] + list(range(1, 31)):
        hp = rng.randbytes(32)
        a = Address((rng.choice([0, -1, 127, -128]), hp))
        pfx = rng.getrandbits(depth) | (1 if depth else 0)
        if depth:
            a.set_anycast(depth, pfx)
        abits = ('101' + f'{depth:05b}' + f'{pfx:0{depth}b}' if depth else '100') + f'{a.wc & 0xFF:08b}' + bits_of_bytes(hp)
        fill = gen.rand_bits(rng, 1023 - len(abits))
        case('store_address-exact-fit', lambda: B.Builder().store_bits(fill).store_address(a), fill + abits,
             lambda s: [('skip', s.skip_bits(len(fill)) is not None, True), ('preload_address', (lambda x: (x.wc, x.hash_part, x.anycast is not None))(s.preload_address()), (a.wc, hp, bool(depth))),
                        ('load_address', (lambda x: (x.wc, x.hash_part, x.anycast is not None))(s.load_address()), (a.wc, hp, bool(depth))), ('nothing left', s.remaining_bits, 0)],
             {'anycast_depth': depth})
    # a bit read from a slice (load_bits(1) / preload_bits(1) hand out a bit array) stored with store_bit is that bit
    for bit in '01':
        for how in ('load_bits', 'preload_bits'):
            src = B.Builder().store_bits(bit + '1011').end_cell().begin_parse()
            got_bit = getattr(src, how)(1)
            case(f'store_bit-of-{how}', lambda: B.Builder().store_bit_int(1).store_bit(got_bit).store_bit_int(0), '1' + bit + '0',
                 lambda s: [('load_bit', s.load_bit(), 1), ('the bit', s.load_bit(), int(bit)), ('load_bit', s.load_bit(), 0)], {'bit': bit, 'how': how})
    # Address from an Address, from its raw and friendly text, stored through store_address(str)
    for wc in (0, -1, 127, -128):
        hp = rng.randbytes(32)
        a = Address((wc, hp))
        want = '100' + f'{wc & 0xFF:08b}' + bits_of_bytes(hp)
        for fname, arg in (('Address-copy', Address(a)), ('raw-str', a.to_str(False)), ('friendly-str', a.to_str(True)), ('Address', a)):
            case(f'store_address-{fname}', lambda: B.Builder().store_address(arg), want,
                 lambda s: [('load_address', (lambda x: (x.wc, x.hash_part))(s.load_address()), (wc, hp))], {'wc': wc})
        R.check(a.to_cell().bits.to01() == want and a.to_tl_account_id() == {'workchain': wc, 'id': hp.hex()}, 'api-variant-value-Address.to_cell', 'Address.to_cell / to_tl_account_id differ', {'wc': wc})
    # byte strings of every kind the store accepts
    for n in (0, 1, 17, 127):
        d = rng.randbytes(n)
        for fname, x in (('bytes', d), ('bytearray', bytearray(d)), ('memoryview', memoryview(d)), ('memoryview-slice', memoryview(bytearray(b'..' + d + b'.'))[2:2 + n])):
            case(f'store_bytes-{fname}', lambda: B.Builder().store_bit(1).store_bytes(x).store_bit(0), '1' + bits_of_bytes(d) + '0',
                 lambda s: [('bit', s.load_bit(), 1), ('preload_bytes', s.preload_bytes(n), d), ('load_bytes', s.load_bytes(n), d), ('bit', s.load_bit(), 0)], {'n': n})
    # Builder.to_cell / to_slice are snapshots with the builder's content
    b = B.Builder().store_uint(0x5A, 8).store_ref(B.Builder().store_uint(3, 2).end_cell())
    c, sl = b.to_cell(), b.to_slice()
    R.check(c.hash == b.end_cell().hash and sl.bits.to01() == '01011010' and sl.remaining_refs == 1 and sl.load_ref().hash == c.refs[0].hash, 'api-variant-value-to_cell-to_slice',
            'Builder.to_cell / to_slice do not carry the builder content', {})


def gen_sequence(rng, leafs, want_full):
    fields, bits, refs = [], 0, 0
    target_n = rng.choice([1, 2, 3, 5, 8, 20])
    tries = 0
    while len(fields) < target_n and tries < 60:
        tries += 1
        f = M.gen_field(rng, leafs)
        if f.kind == 'string' and f.value == '' :
            continue
        fb, fr = M.field_size(f)
        if bits + fb > 1023 or refs + fr > 4:
            continue
        fields.append(f)
        bits += fb
        refs += fr
    if want_full and bits < 1023:
        # pad to exactly 1023 bits with a uint / bits field
        rest = 1023 - bits
        if rest <= 256 and rng.random() < 0.5:
            fields.append(M.UInt(w=rest, value=gen.some_int(rng, rest, False)))
        else:
            fields.append(M.Bits(value=gen.rand_bits(rng, rest), how=0))
        bits = 1023
    while want_full and refs < 4:
        fields.append(M.Ref(cell=rng.choice(leafs)))
        refs += 1
    if not want_full and rng.random() < 0.25 and refs <= 3:
        n = rng.choice([0, 1, 5, 126, 127, 128, 300, 1000, 5000])
        data = rng.randbytes(n) if rng.random() < 0.5 else ('snake ' * (n // 6 + 1))[:n].encode()
        f = M.Snake(value=data, how=0 if rng.random() < 0.6 else 1)
        if f.how == 1:
            f.value = data.decode('latin1').encode()  # any str: round-trips through utf-8
        fields.append(f)
    return fields


def run(R):
    B = bridge.lib()
    rng = R.rng
    quick = R.tier == 'quick'
    R.rule = ('random typed field sequences that fit one cell (packed to exactly 1023 bits / 4 refs in a third of the cases) over '
              'uint/int (all widths), var ints (length widths 1..5, values at every byte-length boundary incl. top bit set), coins, bit, '
              'bool, bits, bytes, strings, snake bytes (0..5000) stored at non-zero fill levels, maybe-ref, ref, dict, addresses '
              '(none, extern length 0..511, std for all workchains with/without anycast); exhaustive single-field sweep over all widths; '
              'distinct = distinct (field kinds, values) sequence; non-trivial = all')
    R.assumptions = ['strings are compared through load_string(byte_length) with the stored byte length (load_string(0) means "all remaining")']
    leafs = [bridge.to_lib(rc.RC(gen.rand_bits(rng, 3 + i))) for i in range(3)] + [bridge.to_lib(gen.chain(2))]
    # exhaustive single-field sweep over widths
    widths = [w for w in range(1, 258) if w % R.nshards == R.shard]
    for w in widths:
        if w <= 256:
            for v in gen.int_boundaries(w, False) + [rng.getrandbits(w)]:
                run_sequence(R, B, [M.Bits(value=gen.rand_bits(rng, w % 7), how=0), M.UInt(w=w, value=v)], {'sweep': 'uint', 'w': w, 'v': str(v)})
                R.case(mon.fp('u', w, v))
            R.cover('uint_widths', w)
        for v in gen.int_boundaries(w, True) + [gen.some_int(rng, w, True)]:
            run_sequence(R, B, [M.Int(w=w, value=v), M.Bit(value=1, how=0)], {'sweep': 'int', 'w': w, 'v': str(v)})
            R.case(mon.fp('i', w, v))
        R.cover('int_widths', w)
    # var ints: every length-field width x every byte length x boundary values
    for lb in range(1, 6):
        for n in range(0, 1 << lb):
            if (lb * 32 + n) % R.nshards != R.shard:
                continue
            vals_u = [0] if n == 0 else [(1 << (8 * n)) - 1, 1 << (8 * n - 8), 1 << (8 * n - 1), (1 << (8 * n - 1)) - 1]
            vals_s = [0] if n == 0 else [(1 << (8 * n - 1)) - 1, -(1 << (8 * n - 1))] + \
                ([1 << (8 * n - 9), (1 << (8 * n - 8)) - 1, (1 << (8 * n - 8)), -(1 << (8 * n - 9)) - 1, -(1 << (8 * n - 8))] if n > 1 else [1, 64, 127, -1, -128])
            for v in vals_u:
                if M.var_uint_bits(v, lb) and len(M.var_uint_bits(v, lb)) <= 1023:
                    run_sequence(R, B, [M.VarUInt(lb=lb, value=v)], {'sweep': 'var_uint', 'lb': lb, 'v': str(v)})
                    R.case(mon.fp('vu', lb, v))
            for v in vals_s:
                if M.signed_bytelen(v) < (1 << lb) and len(M.var_int_bits(v, lb)) <= 1023:
                    run_sequence(R, B, [M.VarInt(lb=lb, value=v)], {'sweep': 'var_int', 'lb': lb, 'v': str(v)})
                    R.cover('var_int_classes', (M.signed_bytelen(v), v > 0, classify(M.VarInt(lb=lb, value=v)).endswith('topbit')))
                    R.case(mon.fp('vs', lb, v))
    # addresses: all 256 workchains, ext lengths
    for wc in range(-128, 128):
        if (wc + 128) % R.nshards != R.shard:
            continue
        any_ = None if wc % 3 else (1 + (wc % 30), rng.getrandbits(1 + (wc % 30)))
        run_sequence(R, B, [M.Addr(value=('std', wc, rng.randbytes(32), any_), how=wc % 2), M.Addr(value=None, how=0)], {'sweep': 'addr', 'wc': wc})
        R.cover('workchains', wc)
        R.case(mon.fp('a', wc))
    # external addresses of every length 0..511 (all-ones, all-zero and a random value), anycast prefixes of every depth 1..30
    for ln in range(512):
        if ln % R.nshards != R.shard:
            continue
        vals = [(1 << ln) - 1 if ln else 0, 0] + ([rng.getrandbits(ln)] if ln else [])
        for v in vals:
            run_sequence(R, B, [M.Bit(value=1, how=0), M.Addr(value=('ext', v, ln), how=0), M.UInt(w=3, value=5)], {'sweep': 'ext', 'len': ln})
        R.cover('ext_lengths', ln)
        R.case(mon.fp('e', ln))
    for depth in range(1, 31):
        for pfx in (0, (1 << depth) - 1, rng.getrandbits(depth)):
            run_sequence(R, B, [M.Addr(value=('std', rng.choice([0, -1, 100]), rng.randbytes(32), (depth, pfx)), how=depth % 2), M.Bit(value=0, how=0)], {'sweep': 'anycast', 'depth': depth})
        R.cover('anycast_depths', depth)
        R.case(mon.fp('any', depth))
    # snake bytes at every fill level class
    for fill in ([0, 1, 7, 8, 500, 1015, 1016, 1017, 1023] if quick else range(0, 1024, 1)):
        if fill % R.nshards != R.shard and not quick:
            continue
        for n in (0, 1, (1023 - fill) // 8, (1023 - fill) // 8 + 1, 127 + (1023 - fill) // 8 + 1, 700):
            run_sequence(R, B, [M.Bits(value=gen.rand_bits(rng, fill), how=0), M.Snake(value=rng.randbytes(n), how=0)], {'sweep': 'snake', 'fill': fill, 'n': n})
            R.case(mon.fp('s', fill, n))
    if R.shard == 0:
        api_variants(R, B, rng)
    # random sequences
    n = (4000 if quick else 1600000) // R.nshards
    for i in range(n):
        fields = gen_sequence(rng, leafs, want_full=i % 3 == 0)
        W = {'fields': [f.desc() for f in fields][:12]}
        run_sequence(R, B, fields, W)
        R.case(mon.fp(repr(W)), sample=W if i < 2 else None)
        for f in fields:
            R.cover('kinds', classify(f))
    R.floor('sequences_exactly_1023_bits', 20)
    R.floor('sequences_exactly_4_refs', 20)
    R.floor('kinds', 18, 'set')
    if R.shard == 0:
        R.floor('api_variants', 12, 'set')
    if R.nshards == 1:
        R.floor('uint_widths', 256, 'set')
        R.floor('int_widths', 257, 'set')
        R.floor('workchains', 256, 'set')
        R.floor('ext_lengths', 512, 'set')
    R.floor('anycast_depths', 30, 'set')


def replay(R, w, rec):
    B = bridge.lib()
    f = w.get('field') or {}
    kinds = {'uint': M.UInt, 'int': M.Int, 'var_uint': M.VarUInt, 'var_int': M.VarInt, 'coins': M.Coins, 'address': M.Addr}
    if f.get('kind') in kinds:
        kw = {k: v for k, v in f.items() if k != 'kind'}
        if f['kind'] == 'address' and isinstance(kw.get('value'), list):
            v = kw['value']
            kw['value'] = tuple(tuple(x) if isinstance(x, list) else x for x in v)
        run_sequence(R, B, [kinds[f['kind']](**kw)], w)
    R.case(mon.fp(1)); R.case(mon.fp(2))

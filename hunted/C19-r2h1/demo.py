# Property C19, words violated:
#   "Serialising, parsing and hashing a DAG of n distinct cells with e references performs work bounded by a
#    low-degree polynomial in n+e - shared sub-DAGs are not re-traversed once per path - and every parser (bag of
#    cells, dictionary, TL) does work bounded by the length of its input ... A few-hundred-byte input therefore
#    cannot make the library run for more than a fraction of a second."
#
# The augmented-dictionary parser (Slice.load_hashmap_aug / load_hashmap_aug_e -> hashmap/parse.py parse_aug,
# deserialize_hashmap_aug_node) walks a shared subtree once per PATH.  A HashmapAug whose forks all point twice at the
# same child and that ends in a pruned branch (the ordinary shape of a Merkle proof of a dictionary, e.g. ShardAccounts
# in an account proof) holds NO entry at all, is k+1 cells / ~100+6k bytes big and costs 2^k node visits.
# The plain parser (load_hashmap) got a memo for exactly this shape (commit 1dc902d); the augmented twin did not.
import sys
import time

from bitarray import bitarray
from pytoniq_core.boc import Builder, Cell
from pytoniq_core.tlb.block import ShardAccounts

# a pruned branch of level 1 (type 1, mask 1, some hash, depth 0)
pb = bitarray(endian='big')
pb.frombytes(b'\x01\x01' + b'\x11' * 32 + b'\x00\x00')
PRUNED = Cell(pb, [], 1)


def aug_dict(k: int) -> Cell:
    """HashmapAug 256 X DepthBalanceInfo: k forks, each with an empty label ('00'), an all-zero extra
    (split_depth:0, grams:0, no extra currencies = 10 zero bits) and BOTH references to the same child"""
    c = PRUNED
    for _ in range(k):
        c = Builder().store_bits('00').store_bits('0' * 10).store_ref(c).store_ref(c).end_cell()
    return c


failed = False

for k in (12, 14, 16, 17):
    boc = aug_dict(k).to_boc()
    root = Cell.one_from_boc(boc)            # what an application receives: a small bag of cells
    n_cells, n_refs = k + 1, 2 * k
    calls = [0]

    def extra(cs):                            # y_deserializer: counts how often the parser visits a fork
        calls[0] += 1
        return cs.load_uint(10)

    t = time.time()
    entries, extras = root.begin_parse().load_hashmap_aug(256, lambda cs: cs, extra)
    dt = time.time() - t

    t = time.time()
    plain = root.begin_parse().load_hashmap(256)   # same cells through the plain dictionary parser
    dt_plain = time.time() - t

    bound = (n_cells + n_refs) ** 2           # a generous "low-degree polynomial in n+e"
    print(f'k={k:2}: boc of {len(boc)} bytes, {n_cells} cells, {n_refs} refs -> load_hashmap_aug returned '
          f'{len(entries)} entries after {calls[0]} fork visits in {dt:.2f} s '
          f'(quadratic bound (n+e)^2 = {bound}; load_hashmap on the same cells: {len(plain)} entries in {dt_plain:.4f} s)')
    if calls[0] > bound:
        failed = True

# the same through the typed parser an application would use on a state proof
k = 17
root = Builder().store_bit(1).store_ref(aug_dict(k)).store_bits('0' * 10).end_cell()   # HashmapAugE: ahme_root$1 root:^ extra
boc = root.to_boc()
t = time.time()
res = ShardAccounts.deserialize(Cell.one_from_boc(boc).begin_parse())
dt = time.time() - t
print(f'ShardAccounts.deserialize of a {len(boc)}-byte bag of {k + 2} cells: {len(res[0])} accounts, {dt:.2f} s')
print('expected: no entries, about k fork visits, well under 0.5 s (time must not double per extra cell)')
if dt > 0.5:
    failed = True

if failed:
    print('FAIL: the augmented dictionary parser re-walks a shared subtree once per path (work 2^k for k+1 cells); '
          'k = 40 (a 300-byte bag) would not finish in a lifetime')
    sys.exit(1)
print('OK')

"""Account / ShardAccount / Transaction (via its in_msg) whose MsgAddressInt uses the constructor addr_var$11 cannot be parsed.

block.tlb:
  addr_std$10 anycast:(Maybe Anycast) workchain_id:int8 address:bits256 = MsgAddressInt;
  addr_var$11 anycast:(Maybe Anycast) addr_len:(## 9) workchain_id:int32 address:(bits addr_len) = MsgAddressInt;
  account$1 addr:MsgAddressInt storage_stat:StorageInfo storage:AccountStorage = Account;
"""
from pytoniq_core.boc import Builder
from pytoniq_core.tlb.account import Account, ShardAccount

H = bytes(range(32))


def varu(b, v, len_bits):
    n = (v.bit_length() + 7) // 8
    b.store_uint(n, len_bits)
    if n:
        b.store_uint(v, n * 8)
    return b


def account(var: bool):
    b = Builder().store_uint(1, 1)                                   # account$1
    if var:   # addr_var$11 anycast:nothing addr_len=256 workchain_id:int32 address:(bits 256)
        b.store_uint(0b11, 2).store_uint(0, 1).store_uint(256, 9).store_int(1000, 32).store_bytes(H)
    else:     # addr_std$10 anycast:nothing workchain_id:int8 address:bits256
        b.store_uint(0b10, 2).store_uint(0, 1).store_int(100, 8).store_bytes(H)
    varu(b, 11, 3); varu(b, 2222, 3); varu(b, 3, 3)                  # StorageUsed cells bits public_cells
    b.store_uint(2 ** 32 - 1, 32).store_uint(0, 1)                   # last_paid, due_payment:nothing
    b.store_uint(2 ** 64 - 1, 64)                                    # last_trans_lt
    varu(b, 10 ** 18, 4).store_uint(0, 1)                            # balance: grams + empty extra currencies
    b.store_uint(0b00, 2)                                            # account_uninit$00
    return b.end_cell()


def check(a, s):
    assert (s.remaining_bits, s.remaining_refs) == (0, 0)
    assert a.addr is not None
    assert (a.storage_stat.used.cells, a.storage_stat.used.bits, a.storage_stat.used.public_cells) == (11, 2222, 3)
    assert (a.storage_stat.last_paid, a.storage_stat.due_payment) == (2 ** 32 - 1, None)
    assert (a.storage.last_trans_lt, a.storage.balance.grams, a.storage.state.type_) == (2 ** 64 - 1, 10 ** 18, 'account_uninit')


s = account(False).begin_parse()        # control: the addr_std alternative parses
check(Account.deserialize(s), s)

s = account(True).begin_parse()
try:
    a = Account.deserialize(s)
except Exception as e:
    raise AssertionError(f'Account with addr:addr_var$11 (valid per block.tlb) is not parsed: {type(e).__name__}: {e}')
check(a, s)

sa = Builder().store_ref(account(True)).store_bytes(H).store_uint(5, 64).end_cell().begin_parse()
x = ShardAccount.deserialize(sa)
check(x.account, sa)
assert (x.last_trans_hash, x.last_trans_lt) == (H, 5)
print('ok')

"""C05 finding 1: a cell that references ITSELF is not rejected by the BoC parser.

Boc.deserialize() only tests `r < ci` ("Topological order is broken"), so r == ci passes and the cell is built with
a ref that is None.  With the default class (Cell) an error surfaces only by accident, inside Cell's hash computation
(AttributeError on None); with the other classes the parser is documented to produce (NullCell docstring: "needed to
deserialize boc and convert it into Cell, Builder or Slice"), Boc(data).deserialize(Slice) / deserialize(NullCell)
RETURN cells, even when the bag is CRC-protected.
"""
import struct
from pytoniq_core import Slice
from pytoniq_core.boc.deserialize import Boc, NullCell
from pytoniq_core.crypto.crc import crc32c


def bag(cells, crc):
    """generic bag, size=1, off=1, one root (cell 0); cells = [(d1, d2, data, [ref indexes])]"""
    payload = b''.join(bytes([d1, d2]) + data + bytes(refs) for d1, d2, data, refs in cells)
    out = bytes.fromhex('b5ee9c72') + bytes([(0x40 if crc else 0) | 1, 1, len(cells), 1, 0, len(payload), 0]) + payload
    return out + crc32c(out) if crc else out


cases = {
    'single cell, ref 0 -> itself': [(1, 0, b'', [0])],
    'second ref of root -> root': [(2, 0, b'', [1, 0]), (0, 0, b'', [])],
    'inner cell -> itself': [(1, 0, b'', [1]), (1, 2, b'\xaa', [1])],
}
# control: the same shapes with a backward reference are rejected, and the valid shape parses
try:
    Boc(bag([(0, 0, b'', []), (1, 0, b'', [0])], False)).deserialize(Slice)
    raise SystemExit('control failed: backward reference accepted')
except Exception as e:
    assert 'Topological' in str(e), e
assert len(Boc(bag([(1, 0, b'', [1]), (0, 0, b'', [])], True)).deserialize(Slice)) == 1

accepted = []
for name, cells in cases.items():
    for crc in (False, True):
        data = bag(cells, crc)
        for cls in (Slice, NullCell):
            try:
                roots = Boc(data).deserialize(cls)
            except Exception:
                continue  # what the property requires
            accepted.append('%s (crc=%s, cls=%s): returned %r with refs %r' % (name, crc, cls.__name__, roots, roots[0].refs))

assert not accepted, 'self-referencing bags were parsed instead of rejected:\n  ' + '\n  '.join(accepted)
print('ok')

"""Address.is_b64 (public parser used by the constructor) only ever SETS the flags, never clears them, and it
stores workchain/account/flags BEFORE it verifies the checksum.  On an Address object that is parsed into a
second time: (1) the flags of the parsed text are not the flags of the object, (2) a rejected (corrupted) text
still overwrites the object."""
from pytoniq_core import Address
from pytoniq_core.boc.address import AddressError

acc = bytes(range(32))
a = Address((0, acc))

# (1) flags: parse a bounceable test-only text, then parse the non-bounceable non-test text of the same address
obj = Address(a.to_str(is_bounceable=True, is_test_only=True))
assert (obj.is_bounceable, obj.is_test_only) == (True, True)
text = a.to_str(is_bounceable=False, is_test_only=False)
assert obj.is_b64(text) is True
fresh = Address(text)
assert (fresh.is_bounceable, fresh.is_test_only) == (False, False)
problems = []
if (obj.is_bounceable, obj.is_test_only) != (False, False):
    problems.append('parsing %r gave flags bounceable=%r test_only=%r (text says False/False)'
                    % (text, obj.is_bounceable, obj.is_test_only))

# (2) a corrupted text is rejected, but the object has already been overwritten with its contents
obj = Address(a.to_str())
other = Address((5, b'\x07' * 32)).to_str(is_bounceable=False, is_test_only=True)
corrupted = other[:10] + ('A' if other[10] != 'A' else 'B') + other[11:]
try:
    obj.is_b64(corrupted)
    problems.append('corrupted text accepted')
except AddressError:
    pass
if not (obj == a and obj.is_bounceable and not obj.is_test_only):
    problems.append('after the REJECTED parse the object is wc=%r account=%s... bounceable=%r test_only=%r'
                    % (obj.wc, obj.hash_part.hex()[:8], obj.is_bounceable, obj.is_test_only))

assert not problems, '; '.join(problems)
print('ok')

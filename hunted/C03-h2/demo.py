"""C03 finding 2: the Builder entry point cannot parse a bag of cells whose root is an exotic cell.

Cell.one_from_boc and Slice.one_from_boc parse a serialised library reference / Merkle proof / Merkle update /
pruned branch root and give back the identical root; Builder.one_from_boc raises CellError for the same bytes,
although a Builder carries a cell type (Builder(type_=...)) and end_cell() produces exotic cells.
"""
import base64
import sys

from bitarray import bitarray
from pytoniq_core.boc import Cell, Slice, Builder
from pytoniq_core.boc.tvm_bitarray import TvmBitarray


def cell(bits, refs=(), type_=-1):
    return Cell(TvmBitarray(1023, bits), list(refs), type_)


def bits_of(b):
    x = bitarray()
    x.frombytes(b)
    return x.to01()


inner = cell('1011', [cell('1'), cell('0', [cell('111')])])
library_ref = cell(bits_of(b'\x02' + b'\x11' * 32), [], 2)
merkle_proof = cell(bits_of(b'\x03' + inner.get_hash(0) + inner.get_depth(0).to_bytes(2, 'big')), [inner], 3)
# the Builder type itself can express these cells:
rebuilt = Builder(type_=3).store_bits(merkle_proof.bits).store_ref(inner).end_cell()
assert rebuilt.hash == merkle_proof.hash and rebuilt.type_ == 3

OPTS = [dict(has_idx=i, hash_crc32=c, has_cache_bits=k)
        for i in (False, True) for c in (False, True) for k in (False, True) if i or not k]

failures = []
for name, root in (('library reference', library_ref), ('merkle proof', merkle_proof)):
    for o in OPTS:
        raw = root.to_boc(**o)
        for form in (raw, raw.hex(), base64.b64encode(raw).decode()):
            # control: the other two entry points agree with the original
            assert Cell.one_from_boc(form).hash == root.hash
            s = Slice.one_from_boc(form)
            assert s.to_cell().hash == root.hash and s.type_ == root.type_
            try:
                b = Builder.one_from_boc(form)
                got = b.end_cell()
                if got.hash != root.hash or got.type_ != root.type_ or got.bits.to01() != root.bits.to01():
                    failures.append((name, o, 'different root'))
            except Exception as e:
                failures.append((name, o, '%s: %s' % (type(e).__name__, e)))

for f in failures[:4]:
    print(f)
print('%d failing (root, options, encoding) triples' % len(failures))
assert not failures, 'Builder.one_from_boc does not round-trip a bag whose root is an exotic cell: ' + str(failures[0])
sys.exit(0)

"""A friendly address with ONE character replaced by another base64 character is accepted
when the replacement is the other alphabet's spelling of the same sextet ('-' <-> '+', '_' <-> '/')."""
import itertools
from pytoniq_core import Address

STD = 'ABCDEFGHIJKLMNOPQRSTUVWXYZabcdefghijklmnopqrstuvwxyz0123456789+/'
URL = STD[:-2] + '-_'
BASE64_CHARS = sorted(set(STD) | set(URL))   # every character that is a base64 digit in RFC 4648 (sections 4 and 5)

accounts = [b'\xff' * 32, b'\xfb\xef\xbe' * 10 + b'\xfb\xef', bytes(range(224, 256))]
accepted = []
total = 0
for wc in (-1, 0):
    for acc in accounts:
        a = Address((wc, acc))
        for bounce, test, url in itertools.product((True, False), repeat=3):
            s = a.to_str(is_user_friendly=True, is_url_safe=url, is_bounceable=bounce, is_test_only=test)
            assert len(s) == 48
            for i in range(48):
                for c in BASE64_CHARS:
                    if c == s[i]:
                        continue
                    m = s[:i] + c + s[i + 1:]
                    if not (set(m) & set('-_') and set(m) & set('+/')):
                        # (corner case left out on purpose: if the ONLY special character of a text is swapped for
                        # its twin, the result is the genuine other-alphabet rendering of the same address)
                        if c in '-_+/' and s[i] in '-_+/':
                            continue
                    total += 1
                    try:
                        Address(m)
                    except Exception:
                        continue
                    accepted.append((s, m, i))

for s, m, i in accepted[:3]:
    print('original :', s)
    print('corrupted:', m, '(position %d: %r -> %r) was ACCEPTED' % (i, s[i], m[i]))
assert not accepted, '%d of %d single-character substitutions by another base64 character were accepted' % (len(accepted), total)
print('ok')

# Property C08, words violated:
#   "hashing or serialising an object any number of times gives identical results and leaves its inputs untouched
#    - including cells constructed directly from a plain bit array"
#   (the property text singles out "a cell built from a plain bitarray with a non-byte-aligned length")
#
# bitarray.frozenbitarray is the immutable flavour of a plain bitarray (isinstance(frozenbitarray(), bitarray) is
# True, so it is admitted by the annotation BitarrayLike = Union[TvmBitarray, bitarray]); it is the natural thing to
# hand to an "immutable" Cell.  Cell(frozenbitarray(...), []) works when the length is a multiple of 8 and raises
# TypeError("frozenbitarray is immutable") for every other length: the constructor's snapshot is again a
# frozenbitarray, and get_data_bytes() tries to pad its copy of it IN PLACE (append(1) + fill()).
import sys

from bitarray import bitarray, frozenbitarray

from pytoniq_core import Builder, Cell

failures = []
for endian in ('big', 'little'):
    for text in ('', '10101010', '1', '10101', '1' * 9, '01' * 511 + '1'):
        expected = Builder().store_bits(text).end_cell()          # the same bit string through a builder
        plain = Cell(bitarray(text, endian=endian), [])           # plain mutable bitarray: fine
        assert plain.hash == expected.hash
        label = f'Cell(frozenbitarray({len(text)} bits, endian={endian!r}), [])'
        try:
            cell = Cell(frozenbitarray(text, endian=endian), [])
        except Exception as e:
            print(f'{label}: expected hash {expected.hash.hex()[:16]}..., got {type(e).__name__}: {e}')
            failures.append(label)
            continue
        same = (cell.hash == expected.hash and cell.to_boc() == expected.to_boc()
                and cell.begin_parse().load_bits(len(text)).to01() == text
                and cell.to_builder().end_cell().hash == expected.hash and cell.copy().hash == expected.hash)
        print(f'{label}: {"ok" if same else "WRONG VALUE"}')
        if not same:
            failures.append(label)

if failures:
    print(f'FAIL: {len(failures)} constructions refused / mangled (all those whose length is not a multiple of 8)')
    sys.exit(1)
print('OK')

# Property C15, words violated:
#   "For every message (internal, external-in, external-out; ANY ADDRESSES ...), SERIALISING NEVER FAILS ..."
#
# block.tlb:  addr_none$00 = MsgAddressExt;   addr_extern$01 len:(## 9) external_address:(bits len) = MsgAddressExt;
# ExternalAddress is the library's MsgAddressExt value. Its signature admits None
# (address: typing.Union[int, str, bytes, None], length: int = None), ExternalAddress.to_cell() has a branch that
# writes addr_none$00 for it and __repr__ has a branch for it - but the constructor itself raises AttributeError,
# so the addr_none form of MsgAddressExt can not be built and an external message with such a source is refused.
import sys
from pytoniq_core import Address, Cell, MessageAny, ExternalMsgInfo, ExternalAddress

dest = Address((0, b'\x11' * 32))
try:
    src = ExternalAddress(None)
    cell = MessageAny(ExternalMsgInfo(src, dest, 0), None, Cell.empty()).serialize()
except Exception as e:
    print('expected: ExternalAddress(None) is addr_none$00 and the message serialises')
    print(f'happened: {type(e).__name__}: {e}')
    sys.exit(1)

reference = MessageAny(ExternalMsgInfo(None, dest, 0), None, Cell.empty()).serialize()  # plain None works
bits = cell.bits.to01()
print('src field on the wire:', bits[2:4], '(expected 00)')
ok = bits[2:4] == '00' and cell.hash == reference.hash and MessageAny.deserialize(cell.begin_parse()).info.src is None
try:
    repr(src)
except Exception as e:
    print(f'repr(ExternalAddress(None)) raised {type(e).__name__}: {e}')
    ok = False
print('ok' if ok else 'WRONG')
sys.exit(0 if ok else 1)

"""MessageAny.serialize inlines a small body even when the body is an exotic (special) cell: the inline copy is
ordinary data, so the message that comes back has a different body; parse -> serialize changes a valid message."""
from pytoniq_core.boc import Builder, Cell, Address
from pytoniq_core.tlb.block import CurrencyCollection
from pytoniq_core.tlb.transaction import MessageAny, InternalMsgInfo

# a library-reference cell (exotic type 2: tag byte 0x02 + 256-bit hash), e.g. a body kept in a public library
lib_bits = Builder().store_uint(2, 8).store_bytes(b'\x33' * 32).end_cell().bits
body = Cell(lib_bits, [], 2)
assert body.is_exotic

info = InternalMsgInfo(True, False, False, None, Address((0, b'\x22' * 32)), CurrencyCollection(5), 0, 0, 0, 0)

# 1. a valid encoding of the message: body:(Either X ^X) taken as ^X, the only way an exotic cell can be carried
valid = Builder().store_cell(info.serialize()).store_bit(0).store_bit(1).store_ref(body).end_cell()
parsed = MessageAny.deserialize(valid.begin_parse())
assert parsed.body.hash == body.hash and parsed.body.type_ == 2          # the parser is right
again = parsed.serialize()
reparsed = MessageAny.deserialize(again.begin_parse())
assert reparsed.body.hash == body.hash and reparsed.body.type_ == body.type_, \
    ('parse -> serialize -> parse changed the body: '
     f'type {body.type_} -> {reparsed.body.type_}, hash {body.hash.hex()[:16]} -> {reparsed.body.hash.hex()[:16]} '
     f'(body was inlined: refs in message cell = {len(again.refs)})')

# 2. the same from the constructor
m = MessageAny(info, None, body)
back = MessageAny.deserialize(m.serialize().begin_parse())
assert back.body.hash == body.hash
print('ok')

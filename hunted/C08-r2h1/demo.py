# Property C08, words violated:
#   "After a cell is created its hash, data bits, references and serialisation never change ..."
#   "hashing or serialising an object any number of times gives identical results"
#   "whatever sequence of operations is later applied to ... copies derived from it"
#
# Cell.calculate_hashes() is a public method of Cell (it is what the constructor calls).  Calling it a second time
# APPENDS a second set of entries to the cell's private _hashes / _depths lists instead of recomputing them, and
# get_representation() / calculate_representation_hash() decide what to hash from len(self._hashes).  After the
# second call the representation of every cell that has a single hash (all ordinary level-0 cells, pruned branches,
# level-0 Merkle proofs) is built from a hash in place of the data, so the cell's representation and its
# representation hash change although the cell did not.
import copy
import sys

from pytoniq_core import Builder, Cell

failures = []


def check(label, cell):
    h0 = cell.hash
    rep0 = cell.get_representation()
    rh0 = cell.calculate_representation_hash()
    assert rh0 == h0, 'sanity: representation hash equals the cell hash on a fresh cell'
    cell.calculate_hashes()                      # hash it "any number of times"
    rep1 = cell.get_representation()
    rh1 = cell.calculate_representation_hash()
    print(f'{label}:')
    print(f'  expected calculate_representation_hash() = {h0.hex()}')
    print(f'  got                                       = {rh1.hex()}')
    print(f'  get_representation() unchanged: {rep1 == rep0};  len(_hashes) = {len(cell._hashes)} (was 1)')
    if rh1 != h0 or rep1 != rep0:
        failures.append(label)


leaf = Builder().store_uint(0xABC, 12).end_cell()
check('ordinary cell without refs', leaf)

parent = Builder().store_uint(5, 11).store_ref(Builder().store_uint(1, 8).end_cell()).end_cell()
check('ordinary cell with a ref', parent)

check('cell parsed from a bag of cells', Cell.one_from_boc(parent.to_boc()))

# the same through a copy derived from the cell: copy.copy shares the private lists, so hashing the COPY again
# changes what the ORIGINAL reports
orig = Builder().store_uint(77, 32).end_cell()
h0 = orig.hash
dup = copy.copy(orig)
dup.calculate_hashes()
rh = orig.calculate_representation_hash()
print('original after calculate_hashes() on its copy.copy():')
print(f'  expected {h0.hex()}\n  got      {rh.hex()}')
if rh != h0:
    failures.append('original changed through its shallow copy')

if failures:
    print('FAIL:', failures)
    sys.exit(1)
print('OK')

"""A tree of depth 1023 - which the library builds, hashes, serialises and parses without complaint - has no Merkle
proof unless the pruning happens to shorten its deepest path: the Merkle proof cell on top would have depth 1024 and
Cell() refuses it ('depth is more than max depth'; TON's limit is depth <= 1024, the library's is depth <= 1023).

Run:  PYTHONPATH=<tree> python demo.py     (exit 0 = property holds, non-zero = violation)
"""
from pytoniq_core.boc import Cell, Builder
from pytoniq_core.proof.check_proof import check_proof, check_block_header_proof


def chain(depth, top_side=None):
    """a spine of `depth` cells above a leaf, each spine cell also holding a small side leaf"""
    c = Builder().store_uint(0, 8).end_cell()
    for i in range(depth):
        side = Builder().store_uint(i, 16).end_cell()
        if top_side is not None and i == depth - 1:
            side = top_side(side)
        c = Builder().store_uint(i % 251, 8).store_ref(c).store_ref(side).end_cell()
    return c


def pruned(cell):
    return (Builder(type_=1).store_uint(1, 8).store_uint(1, 8).store_bytes(cell.get_hash(0))
            .store_uint(cell.get_depth(0), 16).end_cell())


def proof_of(depth):
    tree = chain(depth)
    body = chain(depth, top_side=pruned)        # pruning choice: only the side leaf of the root cell is pruned
    assert body.get_hash(0) == tree.hash
    cell = (Builder(type_=3).store_uint(3, 8).store_bytes(tree.hash).store_uint(tree.get_depth(0), 16)
            .store_ref(body).end_cell())
    cell = Cell.one_from_boc(cell.to_boc())
    check_proof(cell, tree.hash)
    check_block_header_proof(cell[0], tree.hash)
    return tree


for d in (1, 500, 1022):                        # fine for smaller trees
    assert proof_of(d).get_depth(0) == d

tree = chain(1023)                              # a legitimate tree for the library ...
assert tree.get_depth(0) == 1023
assert Cell.one_from_boc(tree.to_boc()).hash == tree.hash
try:
    proof_of(1023)                              # ... but its Merkle proof is refused
except Exception as e:
    raise AssertionError(f'VIOLATION: the Merkle proof of a depth-1023 tree is not accepted: {type(e).__name__}: {e}')
print('ok: proof of the depth-1023 tree accepted')

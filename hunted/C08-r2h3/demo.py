# Property C08, words violated:
#   "Results of library calls do not depend on which calls were made before (no state is carried between calls),
#    and ... serialising an object any number of times gives identical results and leaves its inputs untouched"
#   title: "derived objects are isolated snapshots"          (anchored file: pytoniq_core/tlb/vm_stack.py)
#
# VmTuple.__add__ (the `a + b` operator of the TVM tuple value) does `self.list += other.list` and returns nothing:
# the expression a + b evaluates to None and, as a side effect, rewrites its LEFT OPERAND in place.  The cell that
# VmTuple.serialize(a) / VmStack.serialize([a]) produces therefore depends on whether `a + b` was evaluated before.
import sys

from pytoniq_core.tlb.vm_stack import VmStack, VmTuple

a = VmTuple([1, 2])
b = VmTuple([3])

before_tuple = VmTuple.serialize(a).hash
before_stack = VmStack.serialize([a]).hash

total = a + b            # expected: a new VmTuple [1, 2, 3]; a and b unchanged

after_tuple = VmTuple.serialize(a).hash
after_stack = VmStack.serialize([a]).hash

failures = []
print(f'a + b       : expected <VmTuple [1, 2, 3] >, got {total!r}')
if not (isinstance(total, VmTuple) and total.list == [1, 2, 3]):
    failures.append('a + b is not the concatenated tuple')
print(f'a afterwards: expected [1, 2], got {a.list}')
if a.list != [1, 2]:
    failures.append('left operand modified by +')
print(f'b afterwards: expected [3], got {b.list}')
if b.list != [3]:
    failures.append('right operand modified by +')
print(f'VmTuple.serialize(a) same cell before and after a + b: {before_tuple == after_tuple}')
print(f'VmStack.serialize([a]) same cell before and after a + b: {before_stack == after_stack}')
if before_tuple != after_tuple or before_stack != after_stack:
    failures.append('serialisation of a depends on an earlier a + b')
try:
    VmStack.serialize([VmTuple([1]) + VmTuple([2])])
    out = VmStack.deserialize(VmStack.serialize([VmTuple([1]) + VmTuple([2])]).begin_parse())
    print(f'stack holding (1,) + (2,) round trips to: {out}')
    if not (len(out) == 1 and isinstance(out[0], VmTuple) and out[0].list == [1, 2]):
        failures.append('sum of tuples serialised as something else')   # None -> vm_stk_null
except Exception as e:
    print(f'serialising a sum of tuples: {type(e).__name__}: {e}')
    failures.append('sum of tuples cannot be serialised')

if failures:
    print('FAIL:', failures)
    sys.exit(1)
print('OK')

"""VmStackList.serialize (public, exported from pytoniq_core.tlb) empties the list it is given.

Property: "hashing or serialising an object any number of times gives identical results
and leaves its inputs untouched".
"""
from pytoniq_core.boc import begin_cell
from pytoniq_core.tlb import VmStack, VmStackList

payload = begin_cell().store_uint(0xCAFE, 16).end_cell()
stack = [1, -2, 2 ** 100, None, payload]
before = list(stack)

first = VmStackList.serialize(stack)
after_first = list(stack)
second = VmStackList.serialize(stack)

problems = []
if after_first != before:
    problems.append(f'input list changed by serialisation: {before!r} -> {after_first!r}')
if first.hash != second.hash:
    problems.append(f'serialising the same list twice gave different cells: '
                    f'{first.hash.hex()[:16]}.. (depth {first.get_depth()}) then {second.hash.hex()[:16]}.. (depth {second.get_depth()})')

# the same value reached through VmStack.serialize must not depend on an earlier VmStackList.serialize call either
stack2 = list(before)
a = VmStack.serialize(stack2)
VmStackList.serialize(stack2)
b = VmStack.serialize(stack2)
if a.hash != b.hash:
    problems.append('VmStack.serialize(stack) gives a different cell after VmStackList.serialize(stack) was called on the same list')

assert not problems, 'VmStackList.serialize is destructive: ' + '; '.join(problems)
print('ok')

"""Builder.store_bit silently stores NOTHING for argument forms it does not recognise.

store_bit has an if/elif chain over (int, bool) / str / TvmBitarray with no else branch: any other argument - in
particular a plain bitarray, which is the other half of the library's own BitarrayLike = Union[TvmBitarray, bitarray]
and what Cell.bits / slicing a Cell's bits gives for cells built from a bitarray - falls through and the call returns
the builder as if the bit had been stored.  A one-bit store into an empty builder fits; it must either be carried out
or raise, never be dropped.
"""
import sys

from bitarray import bitarray, frozenbitarray
from pytoniq_core import Builder, Cell
from pytoniq_core.boc.tvm_bitarray import TvmBitarray

failures = []


def probe(label, arg):
    b = Builder()
    try:
        r = b.store_bit(arg)
    except Exception:
        return  # an explicit error is acceptable for a form the library does not want to support
    if b.used_bits != 1:
        failures.append(f'store_bit({label}) returned {r!r} without error but stored {b.used_bits} bits')


# the forms that work, for reference
for ok in (1, True, '1'):
    assert Builder().store_bit(ok).bits.to01() == '1'
one = Builder().store_bit(1).to_slice().load_bits(1)          # TvmBitarray
assert isinstance(one, TvmBitarray) and Builder().store_bit(one).bits.to01() == '1'

probe("bitarray('1')", bitarray('1'))
probe("frozenbitarray('1')", frozenbitarray('1'))
probe("Cell(bitarray('1'), []).bits[:1]", Cell(bitarray('1'), []).bits[:1])
probe('empty TvmBitarray', TvmBitarray(1023))
probe('1.0', 1.0)
probe("b'1'", b'1')
probe('None', None)

# the lost bit shifts everything that follows: a cell that should be 1 + 8 bits long
c = Builder().store_bit(bitarray('1')).store_uint(0xAB, 8).end_cell()
if len(c.bits) != 9:
    failures.append(f'store_bit(bitarray("1")).store_uint(0xAB, 8) gives a {len(c.bits)}-bit cell {c!r}')

if failures:
    print('store_bit neither stores nor refuses:')
    for f in failures:
        print('  -', f)
    sys.exit(1)
print('ok')

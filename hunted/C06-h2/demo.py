"""store_snake_bytes measures and cuts its argument in ITEMS, not bytes.

For a bytes-like object whose items are wider than one byte (array.array('I'), memoryview.cast('I'), a 2-d
memoryview) len(value) and value[:i] count items, so the "does it fit in this cell?" test and the cut are wrong:
a 160-byte snake string that store_bytes / store_snake_bytes(bytes(...)) handle fine is rejected with
'bitstring overflow' instead of being chained into a second cell.
"""
import array
from pytoniq_core.boc.builder import Builder

payload = bytes(range(160))                              # 160 bytes: needs two cells (127 + 33)
forms = {
    'bytes': payload,
    'bytearray': bytearray(payload),
    "array('B')": array.array('B', payload),
    "memoryview.cast('B')": memoryview(payload).cast('B'),
    "array('I')": array.array('I', payload),             # 40 items of 4 bytes
    "memoryview.cast('I')": memoryview(payload).cast('I'),
    '2-d memoryview': memoryview(payload).cast('B', (2, 80)),
}

# store_bytes takes every one of these forms (byte-exact) when the data fits in one cell
for name, v in forms.items():
    small = v[:1] if name != '2-d memoryview' else memoryview(payload[:2]).cast('B', (2, 1))
    assert Builder().store_bytes(small).bits.tobytes() == memoryview(small).tobytes(), name

failures = []
for name, v in forms.items():
    try:
        cell = Builder().store_snake_bytes(v).end_cell()
        back = cell.begin_parse().load_snake_bytes()
        if back != payload:
            failures.append(f'{name}: loaded back {back[:8]!r}... ({len(back)} bytes)')
    except Exception as e:
        failures.append(f'{name}: {type(e).__name__}: {e}')

assert not failures, 'a 160-byte snake string was not stored/loaded for these bytes-like forms: ' + '; '.join(failures)
print('ok')

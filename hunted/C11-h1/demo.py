"""A forged shard state (and so a forged account state) is accepted by check_account_proof, and the forged block
proof by check_proof: the 'new state' hash is read from the level-0 hash slot of the pruned branch under the block's
Merkle update cell, a slot that the verified level-0 hash of the block does not commit to, and the library never checks
a Merkle update cell's own hash fields against its children.

Run:  PYTHONPATH=<tree> python demo.py     (exit 0 = property holds, non-zero = violation)
"""
import hashlib

from pytoniq_core.boc import Cell, Builder
from pytoniq_core.boc.address import Address
from pytoniq_core.proof.check_proof import check_proof, check_block_header_proof, check_account_proof
from pytoniq_core.tl.block import BlockIdExt


# ---------------------------------------------------------------- helpers: pruning, proofs, a small shard state
def popcount(x):
    return bin(x).count('1')


def pruned_of(cell, lvl=1, override=None):
    """pruned branch standing for `cell` below `lvl` Merkle cells; override={hash slot: bytes} substitutes a hash"""
    mask = cell.level_mask.mask | (1 << (lvl - 1))
    hs, ds = [], []
    for i in range(popcount(mask)):
        l = 0
        while popcount(mask & ((1 << l) - 1)) != i:
            l += 1
        hs.append(cell.get_hash(l))
        ds.append(cell.get_depth(l))
    for k, v in (override or {}).items():
        hs[k] = v
    b = Builder(type_=1).store_uint(1, 8).store_uint(mask, 8)
    for h in hs:
        b.store_bytes(h)
    for d in ds:
        b.store_uint(d, 16)
    return b.end_cell()


def prune_tree(cell, prune, path=(), lvl=1):
    if path in prune:
        return pruned_of(cell, lvl)
    child_lvl = lvl + 1 if cell.type_ in (3, 4) else lvl
    return Cell(cell.bits.copy(), [prune_tree(r, prune, path + (i,), child_lvl) for i, r in enumerate(cell.refs)],
                cell.type_)


def wrap_proof(body, h, d):
    return Builder(type_=3).store_uint(3, 8).store_bytes(h).store_uint(d, 16).store_ref(body).end_cell()


def merkle_proof(root, prune=()):
    return wrap_proof(prune_tree(root, set(prune)), root.get_hash(0), root.get_depth(0))


def merkle_update(old, new):
    return (Builder(type_=4).store_uint(4, 8).store_bytes(old.get_hash(0)).store_bytes(new.get_hash(0))
            .store_uint(old.get_depth(0), 16).store_uint(new.get_depth(0), 16)
            .store_ref(pruned_of(old)).store_ref(pruned_of(new)).end_cell())


def cc(b, grams):  # CurrencyCollection without extra currencies
    return b.store_coins(grams).store_bit(0)


def label(b, bits, m):
    if not bits:
        return b.store_bits('00')
    return b.store_bits('10').store_uint(len(bits), m.bit_length()).store_bits(bits)


def build_aug(items, n):
    """HashmapAug n ShardAccount DepthBalanceInfo from [(key bits, value writer)]"""
    items = sorted(items, key=lambda x: x[0])
    first, last = items[0][0], items[-1][0]
    p = 0
    while p < len(first) and first[p] == last[p]:
        p += 1
    b = label(Builder(), first[:p], n)
    m = n - p
    if m == 0:
        cc(b.store_uint(0, 5), 1)
        items[0][1](b)
        return b.end_cell()
    for side in '01':
        b.store_ref(build_aug([(k[p + 1:], v) for k, v in items if k[p] == side], m - 1))
    cc(b.store_uint(0, 5), len(items))
    return b.end_cell()


def account_cell(addr_hash, balance):
    b = Builder().store_bit(1).store_address(Address((0, addr_hash)))
    b.store_uint(1, 3).store_uint(1, 8).store_uint(1, 3).store_uint(99, 8).store_uint(0, 3)  # StorageUsed
    b.store_uint(1700000000, 32).store_bit(0).store_uint(77, 64)
    return cc(b, balance).store_bits('00').end_cell()  # account_uninit


def shard_state(accounts, seq_no):
    def writer(acc):
        return lambda b: b.store_ref(acc).store_bytes(hashlib.sha256(acc.hash).digest()).store_uint(77, 64)
    items = [(format(int.from_bytes(k, 'big'), '0256b'), writer(v)) for k, v in accounts.items()]
    acc = cc(Builder().store_bit(1).store_ref(build_aug(items, 256)).store_uint(0, 5), len(items)).end_cell()
    misc = cc(cc(Builder().store_uint(0, 64).store_uint(0, 64), 1000), 1).store_bit(0).store_bit(0).end_cell()
    b = Builder().store_bytes(b'\x90#\xaf\xe2').store_int(-239, 32)
    b.store_bits('00').store_uint(0, 6).store_int(0, 32).store_uint(0, 64)
    b.store_uint(seq_no, 32).store_uint(0, 32).store_uint(1700000000, 32).store_uint(12345, 64).store_uint(90, 32)
    b.store_ref(Builder().store_uint(seq_no, 32).end_cell()).store_bit(0).store_ref(acc).store_ref(misc).store_bit(0)
    return b.end_cell()


def block(old_state, new_state):
    info = Builder().store_uint(0x9bc7a987, 32).store_uint(100, 32).end_cell()
    vf = Builder().store_uint(0xb8e48dfb, 32).end_cell()
    extra = Builder().store_uint(0x4a33f6fd, 32).end_cell()
    return (Builder().store_bytes(b'\x11\xefU\xaa').store_int(-239, 32)
            .store_ref(info).store_ref(vf).store_ref(merkle_update(old_state, new_state)).store_ref(extra).end_cell())


def boc2(c1, c2):
    """bag of cells with the two roots c1, c2"""
    seen, post = set(), []

    def dfs(c):
        if c.hash in seen:
            return
        seen.add(c.hash)
        for r in c.refs:
            dfs(r)
        post.append(c)
    dfs(c1)
    dfs(c2)
    cells = post[::-1]
    index = {c.hash: i for i, c in enumerate(cells)}
    payload = b''.join(c._descriptors + c._data_bytes + bytes(index[r.hash] for r in c.refs) for c in cells)
    assert len(cells) < 256 and len(payload) < 65536
    return (b'\xb5\xee\x9cr' + bytes([1, 2, len(cells), 2, 0]) + len(payload).to_bytes(2, 'big')
            + bytes([index[c1.hash], index[c2.hash]]) + payload)


# ---------------------------------------------------------------- the scenario
keys = [hashlib.sha256(bytes([i])).digest() for i in range(5)]
accounts = {k: account_cell(k, 10 + i) for i, k in enumerate(keys)}
old_state = shard_state(accounts, 99)
true_state = shard_state(accounts, 100)
blk = block(old_state, true_state)                      # the real block: commits to true_state
target = keys[2]
blk_id = BlockIdExt(workchain=0, shard=-2 ** 63, seqno=100, root_hash=blk.hash, file_hash=bytes(32))

# sanity: the honest proof is accepted with the true account state and yields the true state hash
honest_blk_proof = merkle_proof(blk, {(0,), (1,), (3,)})
honest_state_proof = merkle_proof(true_state, {(0,), (2,)})
check_proof(honest_blk_proof, blk.hash)
assert check_block_header_proof(honest_blk_proof[0], blk.hash, True) == true_state.hash
check_account_proof(boc2(honest_blk_proof, honest_state_proof), blk_id, Address((0, target)), accounts[target])

# the forgery: a state in which the target account holds 10**18 instead of 12
forged_accounts = dict(accounts)
forged_accounts[target] = account_cell(target, 10 ** 18)
forged_state = shard_state(forged_accounts, 100)
assert forged_state.hash != true_state.hash

body = honest_blk_proof[0]
mu = body[2]                       # the block's Merkle update cell (unpruned in the proof)
committed = mu[1]                  # pruned branch (level mask 1) whose level-0 hash is the true state hash
assert committed.type_ == 1 and committed.get_hash(0) == true_state.hash
# pruned branch OF that pruned branch (level mask 3): slot 1 = its real hash, slot 0 = SUBSTITUTED by the forged state hash
def forge():
    fake = pruned_of(committed, 2, override={0: forged_state.hash})
    mu2 = Cell(mu.bits.copy(), [mu[0], fake], 4)        # Merkle update cell: data (with the true new_hash) unchanged
    body2 = Cell(body.bits.copy(), [body[0], body[1], mu2, body[3]], -1)
    forged_blk_proof = wrap_proof(body2, blk.hash, blk.get_depth(0))
    return forged_blk_proof, boc2(forged_blk_proof, merkle_proof(forged_state, {(0,), (2,)}))


problems = []
try:
    forged_blk_proof, forged_boc = forge()
except Exception as e:     # refusing to build the malformed Merkle update cell is a fine way of rejecting it
    print('ok: forged proof cannot even be constructed:', e)
    raise SystemExit(0)
try:
    check_proof(forged_blk_proof, blk.hash)
    problems.append('check_proof accepted a block proof with a substituted pruned hash')
except Exception:
    pass
try:
    got = check_block_header_proof(forged_blk_proof[0], blk.hash, True)
    if got != true_state.hash:
        problems.append('check_block_header_proof accepted it and returned a state hash the block does not commit to'
                        + (' (the forged one)' if got == forged_state.hash else ''))
except Exception:
    pass
try:
    check_account_proof(forged_boc, blk_id, Address((0, target)), forged_accounts[target])
    problems.append('check_account_proof accepted a forged account state (balance 10**18 instead of 12)')
except Exception:
    pass

assert not problems, 'VIOLATION: ' + '; '.join(problems)
print('ok: forged proofs rejected')

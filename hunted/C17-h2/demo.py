"""VmStackList.serialize (public serialiser of the VmStackList schema, anchored file vm_stack.py) pops every entry
off the caller's list: serialising consumes the values, serialising twice gives two different cells."""
from pytoniq_core.boc import Builder
from pytoniq_core.tlb.vm_stack import VmStackList, VmTuple

stack = [1, None, 2 ** 100, VmTuple([1, 2]), Builder().store_uint(5, 8)]
before = list(stack)

first = VmStackList.serialize(stack)
assert VmStackList.deserialize(first.begin_parse(), len(before))[:3] == before[:3]   # the cell itself is right
second = VmStackList.serialize(stack)

assert len(stack) == len(before) and all(a is b for a, b in zip(stack, before)), \
    f'VmStackList.serialize consumed the caller\'s stack: {len(before)} entries before, {len(stack)} after'
assert first.hash == second.hash, 'serialising the same stack twice gave two different cells'

# and a rejected call must leave the caller's list alone as well
bad = [1, 2, 2 ** 300]
try:
    VmStackList.serialize(bad)
except OverflowError:
    pass
assert bad == [1, 2, 2 ** 300], f'rejected call modified the caller\'s list: {bad}'
print('ok')

# Property C16 (words violated): "the library's parser returns every field with the encoded value ... and consumes
# exactly the encoded bits and references" - here for a type of pytoniq_core/tlb/config.py (one of the files the
# property is anchored in; NOTE: JettonBridgeParams is not in the statement's enumerated list, see notes.txt).
#
# block.tlb:
#   jetton_bridge_params_v1#01 bridge_address:bits256 oracles_address:bits256 oracles:(HashmapE 256 uint256)
#     state_flags:uint8 prices:^JettonBridgePrices external_chain_address:bits256 = JettonBridgeParams;
#   _ JettonBridgeParams = ConfigParam 79;  (also 81, 82) - the form the main-net token bridges use
#
# JettonBridgeParams.deserialize never reads external_chain_address (256 bits stay in the slice, the attribute is
# always None).
import sys
from pytoniq_core.boc import Builder
from pytoniq_core.tlb.config import ConfigParam79

EXT = bytes(range(32))
prices = Builder()
for v in (1, 2, 3, 4, 5, 6):
    prices.store_uint(1, 4).store_uint(v, 8)          # Coins
cell = (Builder().store_uint(0x01, 8)
        .store_bytes(b'\x11' * 32).store_bytes(b'\x22' * 32)
        .store_uint(0, 1)                              # oracles: empty
        .store_uint(7, 8)                              # state_flags
        .store_ref(prices.end_cell())
        .store_bytes(EXT)                              # external_chain_address
        .end_cell())
cs = cell.begin_parse()
res = ConfigParam79.deserialize(cs)
bad = 0
print('external_chain_address expected', EXT.hex())
print('external_chain_address got     ', res.external_chain_address.hex() if res.external_chain_address else res.external_chain_address)
if res.external_chain_address != EXT:
    bad += 1
print('bits left in the slice: expected 0, got', cs.remaining_bits)
if cs.remaining_bits:
    bad += 1
print("(note, not counted) constructor name: expected 'jetton_bridge_params_v1', got", getattr(res, 'type_', '<no attribute type_>'))
# the fields that are read are right
assert res.state_flags == 7 and res.prices.discover_gas_consumption == 6 and res.bridge_address == b'\x11' * 32
if bad:
    print(f'FAIL: {bad} of 2 checks')
    sys.exit(1)
print('all good')

"""C01 finding 2: for an ORDINARY cell that has a pruned-branch child (so its level is > 0) the explicitly recomputed
representation hash (calculate_representation_hash) disagrees with the cached one (cell.hash).  The two are computed by
separately written code paths: calculate_hashes() chains the lower-level hash in place of the data for levels > 0 (as
TON's DataCell::create does), get_representation() always uses the data."""
from pytoniq_core.boc import Cell, Builder
from pytoniq_core.boc.tvm_bitarray import TvmBitarray

# some subtree that gets pruned
sub = Builder().store_uint(7, 8).store_ref(Builder().store_uint(1, 3).end_cell()).end_cell()

# pruned branch, level mask 1:  type(8) = 1, mask(8) = 1, hash(256), depth(16)
pb_bits = TvmBitarray(1023)
pb_bits.frombytes(b'\x01\x01' + sub.hash + sub.get_depth().to_bytes(2, 'big'))
pruned = Cell(pb_bits, [], 1)
assert pruned.get_hash(0) == sub.hash and pruned.get_depth(0) == sub.get_depth()

failures = []


def check(name, cell):
    assert cell.type_ == -1 and not cell.is_exotic, 'the cell under test is an ordinary cell'
    cached, recomputed = cell.hash, cell.calculate_representation_hash()
    if cached != recomputed:
        failures.append(f'{name}: hash = {cached.hex()[:16]}.. calculate_representation_hash() = {recomputed.hex()[:16]}..')


built = Builder().store_uint(5, 8).store_ref(pruned).end_cell()                      # route: built
check('built', built)
check('parsed from a bag of cells', Cell.one_from_boc(built.to_boc()))              # route: parsed
check('copied', built.copy())                                                       # route: copied
check('converted from a slice', built.begin_parse().to_cell())                      # route: slice
check('grand-parent', Builder().store_ref(built).store_ref(sub).end_cell())         # level propagates upwards

# control: an ordinary cell without pruned descendants is fine
plain = Builder().store_uint(5, 8).store_ref(sub).end_cell()
assert plain.hash == plain.calculate_representation_hash()

assert not failures, ('explicitly recomputed representation hash differs from the cached hash of an ordinary cell:\n  '
                      + '\n  '.join(failures))
print('ok')

"""mnemonic_new(words_count=N) for N != 24 returns mnemonics that mnemonic_is_valid rejects."""
from pytoniq_core.crypto.keys import mnemonic_new, mnemonic_is_valid, mnemonic_to_wallet_key

# control: the default form is valid and derivation is deterministic
m = mnemonic_new()
assert len(m) == 24 and mnemonic_is_valid(m)
assert mnemonic_to_wallet_key(m) == mnemonic_to_wallet_key(list(m))

problems = []
for count in (12, 18, 23, 25, 32, 1, True):
    for form in ('positional', 'keyword'):
        try:
            m = mnemonic_new(count) if form == 'positional' else mnemonic_new(words_count=count)
        except (TypeError, ValueError):
            continue                                     # refusing the count would be acceptable too
        assert len(m) == int(count)                      # the generator honoured the request ...
        pub, sec = mnemonic_to_wallet_key(m)             # ... and keys can be derived from the result
        assert (pub, sec) == mnemonic_to_wallet_key(m)
        if not mnemonic_is_valid(m):                     # ... but the library itself calls it invalid
            problems.append('mnemonic_new(%r) [%s] -> %d words, mnemonic_is_valid() is False' % (count, form, len(m)))

assert not problems, 'generated mnemonics are not always valid:\n  ' + '\n  '.join(problems)
print('ok')

# Property C03: "For every cell DAG (shared sub-cells, exotic cells, ...) and every valid combination of
# serialisation options ..., parsing the serialised bytes yields a root with identical hash and identical
# structure: same data bits, cell types and references, recursively."
#
# An exotic cell's type IS its first data byte (that is all the bag-of-cells format stores: the "exotic" flag in d1
# plus the data).  Cell(bits, refs, cell_type) / Builder(type_=t).end_cell() never compare cell_type with that byte:
# they build - and to_boc() serialises - an exotic cell whose type_ says "library reference" while its data say
# "pruned branch".  The bag the library wrote cannot be parsed back by the library (nor by anything else).
import sys
from pytoniq_core.boc import Cell, Builder, Slice

OPTS = [dict(), dict(hash_crc32=True), dict(has_idx=True), dict(has_idx=True, hash_crc32=True),
        dict(has_idx=True, has_cache_bits=True), dict(has_idx=True, has_cache_bits=True, hash_crc32=True)]

bad = 0

def roundtrip(name, root):
    global bad
    for o in OPTS:
        raw = root.to_boc(**o)
        try:
            back = Cell.one_from_boc(raw)
        except Exception as e:
            print(f'{name} {o}: to_boc() output refused by from_boc: {type(e).__name__}: {e}')
            bad += 1
            continue
        if back.hash != root.hash or back.type_ != root.type_ or back.bits.to01() != root.bits.to01():
            print(f'{name} {o}: came back different: type {root.type_} -> {back.type_}')
            bad += 1

# control: a well-formed library reference cell (type 2, first byte 0x02) round-trips
good = Builder(type_=2).store_uint(2, 8).store_bytes(bytes(range(32))).end_cell()
roundtrip('well-formed library cell', good)
assert bad == 0, 'control failed'

# 1. declared library reference (type_=2), data begin with 0x01 (the pruned-branch type byte)
try:
    c1 = Builder(type_=2).store_uint(1, 8).store_bytes(bytes(range(32))).end_cell()
except Exception as e:
    print('constructor refused the mismatching cell (that would be fine):', e)
    c1 = None
if c1 is not None:
    print('constructed:', repr(c1), 'type_ =', c1.type_, 'first data byte =', c1.bits.tobytes()[0])
    roundtrip('type_=2 / byte 0x01 as root', c1)
    # same thing as a child of an ordinary cell: one bad leaf poisons the whole bag
    root = Builder().store_uint(7, 8).store_ref(good).store_ref(c1).end_cell()
    roundtrip('ordinary root -> [good library cell, mismatching cell]', root)

# 2. declared pruned branch (type_=1, mask 1, 288 bits), first byte 0x05 (no such cell type)
try:
    c2 = Cell(Builder().store_uint(5, 8).store_uint(1, 8).store_bytes(bytes(32)).store_uint(0, 16).end_cell().bits, [], 1)
except Exception as e:
    print('constructor refused the mismatching cell (that would be fine):', e)
    c2 = None
if c2 is not None:
    roundtrip('type_=1 / byte 0x05 as root', c2)

print('expected: either the constructor refuses a cell whose type byte contradicts cell_type, or every bag '
      'to_boc() writes parses back to the same root')
print('observed:', bad, 'serialisations that do not parse back')
sys.exit(1 if bad else 0)

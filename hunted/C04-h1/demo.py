"""C04 finding 1: Cell keeps the caller's refs list (no copy); to_boc() writes the descriptor byte cached at
construction time but walks the *live* list, so a cell whose list was appended to afterwards is emitted with a
ref count that contradicts the number of ref indexes written -> the bag is structurally malformed."""
from bitarray import bitarray
from pytoniq_core import Cell, Builder


class Bad(Exception):
    pass


def strict_decode(data):
    """independent strict decoder of serialized_boc#b5ee9c72 (no index / crc needed for this demo)"""
    assert data[:4] == b'\xb5\xee\x9c\x72'
    fb = data[4]
    size, off = fb & 7, data[5]
    if fb >> 3:
        raise Bad('unexpected flag bits')
    p = 6
    cells, roots, absent = (int.from_bytes(data[p + i * size:p + (i + 1) * size], 'big') for i in range(3))
    p += 3 * size
    tot = int.from_bytes(data[p:p + off], 'big')
    p += off
    root_list = [int.from_bytes(data[p + i * size:p + (i + 1) * size], 'big') for i in range(roots)]
    p += roots * size
    cd = data[p:p + tot]
    if p + tot != len(data):
        raise Bad('length mismatch')
    out, q = [], 0
    for ci in range(cells):
        if q + 2 > len(cd):
            raise Bad('cell %d: cell data exhausted' % ci)
        d1, d2 = cd[q], cd[q + 1]
        q += 2
        nrefs, nbytes = d1 & 7, (d2 >> 1) + (d2 & 1)
        if nrefs > 4:
            raise Bad('cell %d: %d refs' % (ci, nrefs))
        if q + nbytes + nrefs * size > len(cd):
            raise Bad('cell %d: body truncated' % ci)
        bits = ''.join(format(b, '08b') for b in cd[q:q + nbytes])
        if d2 & 1:
            bits = bits[:bits.rindex('1')]
        q += nbytes
        refs = []
        for _ in range(nrefs):
            r = int.from_bytes(cd[q:q + size], 'big')
            q += size
            if not ci < r < cells:
                raise Bad('cell %d: ref index %d is not a later cell (cells=%d)' % (ci, r, cells))
            refs.append(r)
        out.append((bits, refs))
    if q != len(cd):
        raise Bad('%d bytes of cell data are not covered by the %d declared cells' % (len(cd) - q, cells))
    return root_list, out


a = Builder().store_uint(0xAA, 8).end_cell()
b = Builder().store_uint(0xBB, 8).end_cell()

# a caller that builds two cells re-using one python list for the references
refs = [a]
c1 = Cell(bitarray('1'), refs)      # c1 = '1' -> [a]
refs.append(b)
c2 = Cell(bitarray('0'), refs)      # c2 = '0' -> [a, b]

assert c2.refs == [a, b]
boc2 = c2.to_boc()
strict_decode(boc2)                 # fine

boc1 = c1.to_boc()                  # c1 was created as '1' -> [a]; Cell is documented as immutable
try:
    roots, cells = strict_decode(boc1)
except Bad as e:
    raise AssertionError('Cell.to_boc() emitted a bag a strict decoder rejects: %s; bytes=%s' % (e, boc1.hex()))
# had the library kept its own copy of the list, c1 is still '1' -> [a]
assert len(cells) == 2 and cells[roots[0]] == ('1', [1]) and cells[1] == ('10101010', []), cells
print('ok')

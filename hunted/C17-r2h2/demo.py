# Property C17, words violated:
#   "serialising and parsing returns equal values in the same order, and the encoding follows the VmStack schema"
#   (the schema the library quotes in VmStackValue's docstring contains  vm_stk_nan#02ff = VmStackValue;)
#
# A stack that holds the integer NaN (what the TVM leaves after a quiet division by zero / overflow, e.g. QDIV, QADD ...)
# is a valid VmStack and is accepted by VmStack.deserialize, but the entry comes back as None - the very object that
# stands for vm_stk_null.  The two different stack values cannot be told apart any more, and feeding the parsed stack
# back into VmStack.serialize writes vm_stk_null#00 where vm_stk_nan#02ff was: parse -> serialize changes the stack.
import sys
from pytoniq_core.tlb.vm_stack import VmStack
from pytoniq_core.boc import begin_cell, Cell

# vm_stack depth = 3: [ 7 , null , NaN ]   (NaN on top), built by hand straight from the schema
nil = Cell.empty()
e0 = begin_cell().store_ref(nil).store_uint(0x01, 8).store_int(7, 64).end_cell()     # vm_stk_cons rest:^nil tos:tinyint 7
e1 = begin_cell().store_ref(e0).store_uint(0x00, 8).end_cell()                        # tos: vm_stk_null#00
stack_cell = begin_cell().store_uint(3, 24).store_ref(e1).store_uint(0x02ff, 16).end_cell()   # tos: vm_stk_nan#02ff

values = VmStack.deserialize(stack_cell.begin_parse())
print('parsed [7, null, NaN] as :', values)

ok = True
null_entry, nan_entry = values[1], values[2]
same = (null_entry is nan_entry) or (type(null_entry) is type(nan_entry) and null_entry == nan_entry)
print('expected: the null entry and the NaN entry are different values')
print(f'happened: null -> {null_entry!r}, NaN -> {nan_entry!r}  ({"indistinguishable" if same else "distinguishable"})')
ok &= not same

again = VmStack.serialize(values)
print('expected: serialising the parsed values gives the stack back, top entry 02ff')
print(f'happened: top entry after parse -> serialize is 0x{again.bits[24:].tobytes().hex()}  (cell {"equal" if again == stack_cell else "DIFFERENT"})')
ok &= again == stack_cell

sys.exit(0 if ok else 1)

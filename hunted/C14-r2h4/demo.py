# Property C14, words violated:
#   "every well-typed value (optional fields selected by flag bits, ...), the serialised bytes equal the TL
#    binary encoding ... and parsing them returns the same value and consumes exactly all bytes"
#
# TlSchemas.serialize never looks at the flag bits: a conditional field (mode.N?T / flags.N?T) is written
# whenever its key is present with a non-None value and left out whenever it is absent - whatever the
# `mode` / `flags` number says. The parser, like every other TL implementation, goes by the bits. So
#   (1) a field that is present but NOT selected by the bits is written anyway: the output is not the TL
#       encoding of the object (a lite server reads the extra bytes as garbage / rejects the query), and the
#       library's own parser does not consume it;
#   (2) a field that IS selected by the bits but missing is silently skipped: a truncated object is
#       emitted without any error.
import sys
from pytoniq_core.tl.generator import TlGenerator

s = TlGenerator.with_default_schemas().generate()
bad = 0

# liteServer.lookupBlock mode:# id:tonNode.blockId lt:mode.1?long utime:mode.2?int = liteServer.BlockHeader;
blk = {'workchain': -1, 'shard': -2 ** 63, 'seqno': 123}
cid = s.get_by_name('liteServer.lookupBlock').little_id()
by_seqno = cid + (1).to_bytes(4, 'little') + (-1).to_bytes(4, 'little', signed=True) \
    + (-2 ** 63).to_bytes(8, 'little', signed=True) + (123).to_bytes(4, 'little')       # mode = 1: no lt, no utime

print('(1) lookupBlock, mode=1 (by seqno), the unused lt / utime filled with 0 as a C++ / dataclass caller would')
value = {'mode': 1, 'id': blk, 'lt': 0, 'utime': 0}
try:
    wire = s.serialize('liteServer.lookupBlock', value)
except Exception as e:
    print('    refused:', type(e).__name__, e, ' (acceptable)')
else:
    parsed, used = s.deserialize(wire)
    print('    expected :', by_seqno.hex(), f'({len(by_seqno)} bytes)')
    print('    got      :', wire.hex(), f'({len(wire)} bytes)')
    print('    parse of that output consumes', used, 'of', len(wire), 'bytes ->', parsed)
    if wire != by_seqno or used != len(wire):
        print('    VIOLATION: fields not selected by the flag bits were written')
        bad += 1

print('(2) lookupBlock, mode=2 (by lt) but lt missing')
value = {'mode': 2, 'id': blk}
try:
    wire = s.serialize('liteServer.lookupBlock', value)
except Exception as e:
    print('    refused:', type(e).__name__, e, ' (expected)')
else:
    parsed, used = s.deserialize(wire)
    print('    expected : an error (bit 1 of mode selects lt:long, which the value does not have)')
    print('    got      :', wire.hex(), f'({len(wire)} bytes, 8 too few)')
    print('    parse of that output "consumes"', used, 'of', len(wire), 'bytes ->', parsed)
    print('    VIOLATION: a truncated object was produced silently')
    bad += 1

if bad:
    print('\nFAIL')
    sys.exit(1)
print('\nOK')

"""C04 finding 3: to_boc() computes the flag byte arithmetically (has_idx * 128 + hash_crc32 * 64 + has_cache_bits * 32)
but decides what to write by truthiness (`if has_idx:` / `if hash_crc32:`).  A truthy option value other than True / 1
therefore sets the bit of a *different* option: the header announces parts that are not there (or hides parts that are)."""
from pytoniq_core import Builder


def crc32c(data):
    crc = 0xFFFFFFFF
    for b in data:
        crc ^= b
        for _ in range(8):
            crc = (crc >> 1) ^ (0x82F63B78 if crc & 1 else 0)
    return (crc ^ 0xFFFFFFFF).to_bytes(4, 'little')


def strict_header(data):
    """independent strict check of the envelope of serialized_boc#b5ee9c72; returns the option bits"""
    assert data[:4] == b'\xb5\xee\x9c\x72'
    fb = data[4]
    has_idx, has_crc, has_cache, flags, size = fb >> 7 & 1, fb >> 6 & 1, fb >> 5 & 1, fb >> 3 & 3, fb & 7
    assert flags == 0 and 1 <= size <= 4 and not (has_cache and not has_idx), 'bad flag byte %02x' % fb
    off = data[5]
    p = 6
    cells, roots, absent = (int.from_bytes(data[p + i * size:p + (i + 1) * size], 'big') for i in range(3))
    p += 3 * size
    tot = int.from_bytes(data[p:p + off], 'big')
    p += off + roots * size
    expected = p + (cells * off if has_idx else 0) + tot + (4 if has_crc else 0)
    assert expected == len(data), ('flag byte %02x announces has_idx=%d has_crc32c=%d, i.e. a bag of %d bytes, '
                                   'but %d bytes were emitted' % (fb, has_idx, has_crc, expected, len(data)))
    if has_crc:
        assert data[-4:] == crc32c(data[:-4]), 'crc32c does not cover everything before it'
    return has_idx, has_crc, has_cache


leaf = Builder().store_uint(5, 8).end_cell()
root = Builder().store_uint(1, 3).store_ref(leaf).end_cell()

# the six valid combinations, options given as bool and as 0 / 1: fine
for idx, crc, cache in [(0, 0, 0), (0, 1, 0), (1, 0, 0), (1, 1, 0), (1, 0, 1), (1, 1, 1)]:
    assert strict_header(root.to_boc(bool(idx), bool(crc), bool(cache))) == (idx, crc, cache)
    assert strict_header(root.to_boc(has_idx=idx, hash_crc32=crc, has_cache_bits=cache)) == (idx, crc, cache)

# the same combinations with another truthy value: either a clean rejection or a well-formed bag is acceptable
for kw, want in [(dict(hash_crc32=2), (0, 1, 0)),
                 (dict(hash_crc32=3), (0, 1, 0)),
                 (dict(has_idx=True, has_cache_bits=2), (1, 0, 1)),
                 (dict(has_idx=True, hash_crc32=True, has_cache_bits=3), (1, 1, 1))]:
    try:
        boc = root.to_boc(**kw)
    except (TypeError, ValueError, OverflowError):
        continue  # rejected: nothing was emitted
    try:
        got = strict_header(boc)
    except AssertionError as e:
        raise AssertionError('to_boc(%s) emitted a malformed bag: %s' % (', '.join('%s=%r' % i for i in kw.items()), e))
    assert got == want, (kw, got, want)
print('ok')

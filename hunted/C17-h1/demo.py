"""A continuation that carries a captured stack (cdata.stack) or saved registers (cdata.save) does not round-trip:
what VmStack.deserialize returns for it is of another kind than what VmStack.serialize accepts, so the parsed
stack cannot even be serialised again."""
from pytoniq_core.boc import Builder, Cell
from pytoniq_core.boc.hashmap import HashMap
from pytoniq_core.tlb.vm_stack import VmStack, VmStackValue, VmCont, VmControlData

code = Builder().store_uint(0xABCD, 16).end_cell().begin_parse()
quit_ = VmCont('vmc_quit', exit_code=0)


def check(label, **cdata_fields):
    cdata_fields.setdefault('save', None)
    cont = VmCont('vmc_std', cdata=VmControlData('vm_ctl_data', **cdata_fields), code=code)
    stack = [1, cont, None]
    cell = VmStack.serialize(stack)                      # accepted: a legitimate stack of supported values
    assert VmStack.serialize(stack).hash == cell.hash
    parsed = VmStack.deserialize(cell.begin_parse())
    assert len(parsed) == 3 and parsed[0] == 1 and parsed[2] is None and parsed[1].type_ == 'vmc_std'
    # "serialising and parsing returns equal values": equal values serialise to the same cell
    try:
        again = VmStack.serialize(parsed)
    except Exception as e:
        raise AssertionError(f'{label}: the stack returned by VmStack.deserialize cannot be serialised again: '
                             f'{type(e).__name__}: {e}') from None
    assert again.hash == cell.hash, f'{label}: parsed stack serialises to a different cell'
    # whatever representation the parser chose for the field, it must be stable under a second round trip
    reparsed = VmStack.deserialize(again.begin_parse())
    for name in cdata_fields:
        one, two = getattr(parsed[1].cdata, name, None), getattr(reparsed[1].cdata, name, None)
        assert type(one) is type(two), f'{label}: cdata.{name} is {type(one).__name__}, then {type(two).__name__}'


# 1. captured stack (closure arguments), the most common kind of vmc_std continuation
check('continuation with captured stack', stack=VmStack.serialize([7, 2 ** 100]))
# 2. saved control registers c0 / c7
regs = HashMap(4, value_serializer=lambda src, dest: dest.store_cell(VmStackValue.serialize(src)))
regs.set_int_key(0, quit_).set_int_key(7, 5)
check('continuation with save list', save=regs.serialize())
print('ok')

# Property C03: "For every cell DAG ... parsing the serialised bytes yields a root with identical hash and identical
# structure: same data bits, cell types and references, recursively."
#
# Cell(bits, refs) does not limit the number of references (Builder.store_ref does, the public Cell constructor and
# Slice.to_cell do not).  The refs descriptor byte d1 = refs + 8*exotic + 32*level has three bits for the count, so
#   - a cell with 8 references is written with d1 = 0x08 = "exotic cell, no references": to_boc() emits a bag that
#     from_boc() refuses or reads as something else;
#   - a cell with 5, 6 or 7 references is written into a bag no other implementation accepts (a cell has at most 4).
import sys
from pytoniq_core.boc import Cell, Builder
from pytoniq_core.boc.tvm_bitarray import TvmBitarray

leaves = [Builder().store_uint(i, 8).end_cell() for i in range(8)]
bad = 0

for n in (4, 5, 8):
    try:
        c = Cell(TvmBitarray(1023, '10101'), leaves[:n])
    except Exception as e:
        print(f'{n} refs: constructor refuses: {type(e).__name__}: {e}')
        continue
    raw = c.to_boc()
    d1 = c._descriptors[0]
    try:
        back = Cell.one_from_boc(raw)
        same = back.hash == c.hash and len(back.refs) == n and back.type_ == c.type_
        print(f'{n} refs: accepted, d1 = {d1:#04x}; parsed back with {len(back.refs)} refs, type {back.type_}, same = {same}')
        if not same or n > 4:
            bad += 1           # n > 4: an invalid cell went through constructor, serialiser and parser unnoticed
    except Exception as e:
        print(f'{n} refs: accepted, d1 = {d1:#04x}; to_boc() output refused by from_boc: {type(e).__name__}: {e}')
        bad += 1

# the same cell reached without calling Cell() directly: a slice built over a list of 8 references
from pytoniq_core.boc import Slice
try:
    c = Slice(TvmBitarray(1023, '1'), leaves).to_cell()
    try:
        Cell.one_from_boc(c.to_boc())
    except Exception as e:
        print('Slice(bits, 8 refs).to_cell(): built and serialised, parse fails:', type(e).__name__, e)
        bad += 1
except Exception as e:
    print('Slice(...).to_cell() refuses:', e)

print('expected: a cell with more than 4 references is refused when it is built (then nothing unparsable can be '
      'serialised), cells with <= 4 references round-trip')
print('observed:', bad, 'cases in which an over-full cell was built and serialised')
sys.exit(1 if bad else 0)

# Property C15, words violated:
#   "... serialising never fails ... and the library's own parser returns the same [value] ...
#    The same holds for the stand-alone state-init, currency-collection, WALLET-DATA and NFT-data wrappers."
#
# The three wallet-data wrappers declare every constructor argument optional; the only one they insist on is the
# public key. WalletV3Data(public_key=pk) and WalletV4Data(public_key=pk) serialise (seqno defaults to 0, wallet_id
# to 698983191). HighloadWalletData(public_key=pk) is accepted by the constructor in the same way, but its
# last_cleaned default is None and serialize() passes that None to store_uint(…, 64): the wrapper built from its own
# declared defaults cannot be serialised.
import sys
from pytoniq_core.tlb.custom.wallet import WalletV3Data, WalletV4Data, HighloadWalletData

pk = bytes(range(32))
failures = 0
for cls in (WalletV3Data, WalletV4Data, HighloadWalletData):
    w = cls(public_key=pk)
    try:
        cell = w.serialize()
        back = cls.deserialize(cell.begin_parse())
        ok = back.public_key == pk and back.wallet_id == 698983191 and back.serialize().hash == cell.hash
        print(f'{cls.__name__:20} serialises to {len(cell.bits)} bits, round trip {"ok" if ok else "WRONG"}')
    except Exception as e:
        ok = False
        print(f'{cls.__name__:20} expected: a data cell (defaults filled in like the other wallet wrappers); '
              f'happened: {type(e).__name__}: {e}')
    failures += not ok
sys.exit(1 if failures else 0)

# BlockIdExt.from_bytes() on a bytearray (e.g. a receive buffer) / BlockIdExt(...) with bytearray hashes gives an object
# that compares equal to the real block id but cannot be hashed, so it is not usable as a dictionary key.
from pytoniq_core.tl.block import BlockIdExt

rh, fh = bytes(range(32)), bytes(range(32, 64))
blk = BlockIdExt(-1, None, 12345, rh, fh)
raw = blk.to_bytes()
assert BlockIdExt.from_bytes(raw) == blk and {blk: 'x'}[BlockIdExt.from_bytes(raw)] == 'x'     # bytes input: fine

problems = []
for label, make in (('from_bytes(bytearray)', lambda: BlockIdExt.from_bytes(bytearray(raw))),
                    ('BlockIdExt(..., bytearray, bytearray)', lambda: BlockIdExt(-1, None, 12345, bytearray(rh), bytearray(fh)))):
    b2 = make()
    assert b2 == blk and b2.to_bytes() == raw and b2.to_dict() == blk.to_dict()                 # conversion itself is lossless
    try:
        if {blk: 'x'}.get(b2) != 'x' or hash(b2) != hash(blk):
            problems.append(f'{label}: equal block id but different hash / not found in dict')
    except TypeError as e:
        problems.append(f'{label}: equal to the block id but unusable as a dictionary key: TypeError: {e}')
assert not problems, '\n'.join(problems)
print('ok')

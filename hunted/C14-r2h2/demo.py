# Property C14, words violated:
#   "For every constructor in the bundled lite-server, node and ADNL schemas whose field types the
#    library supports, and every well-typed value ..., the serialised bytes equal the TL binary encoding
#    - little-endian constructor id and integers ... - and parsing them returns the same value"
#
# ton_api.tl (node schema) declares
#       ton.blockId root_cell_hash:int256 file_hash:int256 = ton.BlockId;        id c50b6e70
# (the object validators sign for a block), tonlib_api.tl declares another constructor with the same name
#       ton.blockId workchain:int32 shard:int64 seqno:int32 = internal.BlockId;  id b9587fa2
# All bundled files are merged into one name table and the last one read wins, so the node-schema
# constructor cannot be serialised by its name: not directly, and not from the value the parser returns.
import os
import sys
from pytoniq_core.tl.generator import TlGenerator, TlSchemas

ROOT = bytes(range(32))
FILE = bytes(range(32, 64))
WIRE = bytes.fromhex('706e0bc5') + ROOT + FILE            # little-endian c50b6e70 + two int256
VALUE = {'root_cell_hash': ROOT.hex(), 'file_hash': FILE.hex()}

bad = 0


def run(title, s):
    global bad
    print('---', title)
    sch = s.get_by_name('ton.blockId')
    print("get_by_name('ton.blockId') ->", sch)
    value, used = s.deserialize(WIRE)
    print('parse of the node-schema encoding ->', value, used)
    ok = value.get('@type') == 'ton.blockId' and used == len(WIRE)
    for what, data in (('parsed value', value), ('plain value ', VALUE)):
        try:
            out = s.serialize(value['@type'], data)         # by name, as every caller of the library does
        except Exception as e:
            print(f'serialize by name, {what}: raised {type(e).__name__}: {e}')
            ok = False
        else:
            print(f'serialize by name, {what}:', out.hex())
            ok = ok and out == WIRE
    if not ok:
        print('EXPECTED', WIRE.hex())
        bad += 1


# 1. exactly what the library builds by default (file order = os.listdir order of the schemas directory)
run('TlGenerator.with_default_schemas().generate()', TlGenerator.with_default_schemas().generate())

# 2. the same three bundled files read in alphabetical order (lite_api, ton_api, tonlib_api) through the
#    public API, so that the outcome does not depend on the directory order of this machine
d = os.path.join(os.path.dirname(sys.modules['pytoniq_core.tl.generator'].__file__), 'schemas')
schemas = []
for f in sorted(os.listdir(d)):
    schemas += TlGenerator(os.path.join(d, f)).from_file(os.path.join(d, f))
run('bundled files in alphabetical order', TlSchemas(schemas))

if bad:
    print('\nFAIL: the node-schema constructor ton.blockId (two supported int256 fields) cannot be serialised by name')
    sys.exit(1)
print('\nOK')

# ton.blockId (node schema, ton_api.tl) cannot be serialised by name / re-serialised from its parsed form:
# tonlib_api.tl declares another constructor with the same name and the later file silently wins in name_map.
import zlib
from pytoniq_core.tl.generator import TlGenerator

s = TlGenerator.with_default_schemas().generate()
decl = 'ton.blockId root_cell_hash:int256 file_hash:int256 = ton.BlockId'   # ton_api.tl line 407
cid = zlib.crc32(decl.encode()).to_bytes(4, 'little')
h1, h2 = bytes(range(32)), bytes(range(32, 64))
value = {'root_cell_hash': h1.hex(), 'file_hash': h2.hex()}
expected = cid + h1 + h2                                   # TL binary encoding: LE constructor id, two raw int256

# parsing the TL encoding works (looked up by id) ...
parsed, used = s.deserialize(expected)
assert used == len(expected) and parsed == {'@type': 'ton.blockId', **value}, parsed

# ... but serialising the same constructor (by name, or from the '@type' the parser itself produced) does not
try:
    got = s.serialize('ton.blockId', value)
except Exception as e:
    raise AssertionError(f"serialize('ton.blockId', {{root_cell_hash, file_hash}}) failed with {type(e).__name__}: {e}; "
                         f"name_map['ton.blockId'] is {s.get_by_name('ton.blockId')!r}")
assert got == expected, f'wrong bytes: {got.hex()} != {expected.hex()}'
got2 = s.serialize(s.get_by_name(parsed['@type']), parsed)
assert got2 == expected, 'parse -> serialise does not reproduce the bytes'
print('ok')

# Property C14, words violated:
#   "every well-typed value (... byte and text strings of any length), the serialised bytes equal the TL
#    binary encoding - ... length-prefixed and 4-byte-padded strings - and parsing them returns the same
#    value and consumes exactly all bytes"
#
# A TL string has three length forms (tdutils/td/utils/tl_storers.h + tl_parsers.h, the code every TON node,
# lite server and tonlib uses for exactly these schemas):
#       len <  254      : 1 byte  len
#       len <  2^24     : 0xFE + 3 bytes little-endian len
#       len <  2^32     : 0xFF + 4 bytes little-endian len + 3 zero bytes      (8-byte prefix)
# The library knows the first two only: a bytes / string value of 2^24 bytes or more is refused by the
# serialiser with a bare OverflowError, and the third form is mis-parsed (0xFF is taken for "length 255").
import sys
from pytoniq_core.tl.generator import TlGenerator

s = TlGenerator.with_default_schemas().generate()
N = 1 << 24                                   # smallest length that needs the third form
body = bytes([i & 0xFF for i in range(251)]) * (N // 251) + b'\x07' * (N % 251)
assert len(body) == N and body[:1] == b'\x00'  # first bytes 00 01 02 03: not a constructor id

cid = s.get_by_name('liteServer.sendMessage').little_id()
expected = cid + b'\xff' + N.to_bytes(4, 'little') + b'\x00\x00\x00' + body   # 8 + N is a multiple of 4: no padding
bad = 0

print(f'liteServer.sendMessage body:bytes with len(body) = 2^24 = {N}')
try:
    wire = s.serialize('liteServer.sendMessage', {'body': body})
except Exception as e:
    print('serialize : raised', type(e).__name__, '-', e)
    print('EXPECTED  :', len(expected), 'bytes starting with', expected[:12].hex())
    bad += 1
else:
    print('serialize :', len(wire), 'bytes starting with', wire[:12].hex())
    if wire != expected:
        print('EXPECTED  :', len(expected), 'bytes starting with', expected[:12].hex())
        bad += 1

try:
    value, used = s.deserialize(expected)
    got = value.get('body')
    desc = f'{type(got).__name__} of length {len(got)}' if isinstance(got, (bytes, list, str)) else repr(got)[:80]
    print('deserialize of the TL encoding : body =', desc, '; consumed', used, 'of', len(expected))
    if got != body or used != len(expected):
        print('EXPECTED                       : body = bytes of length', N, '; consumed', len(expected))
        bad += 1
except Exception as e:
    print('deserialize of the TL encoding : raised', type(e).__name__, '-', e)
    bad += 1

# the neighbouring length 2^24 - 1 (second form) is fine, so this is a boundary, not a size limit of the code
wire = s.serialize('liteServer.sendMessage', {'body': body[:-1]})
value, used = s.deserialize(wire)
print('length 2^24-1 round trip       :', value['body'] == body[:-1] and used == len(wire))

if bad:
    print('\nFAIL')
    sys.exit(1)
print('\nOK')

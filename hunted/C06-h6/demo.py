"""store_bits is annotated typing.Iterable[int] and bitarray.extend takes any iterable of bits, but a generator or
any other one-shot iterator (no len()) is rejected with a TypeError from the capacity check.
"""
from pytoniq_core.boc.builder import Builder

bits = [1, 0, 1, 1, 0, 0, 1]
forms = {
    'list': lambda: list(bits),
    'tuple': lambda: tuple(bits),
    'str': lambda: ''.join(map(str, bits)),
    'generator': lambda: (x for x in bits),
    'iter(list)': lambda: iter(bits),
    'map': lambda: map(int, '1011001'),
}
failures = []
for name, make in forms.items():
    b = Builder().store_uint(3, 2)
    try:
        b.store_bits(make())
        s = b.end_cell().begin_parse()
        got = (s.load_uint(2), s.load_bits(len(bits)).tolist(), s.remaining_bits)
        if got != (3, bits, 0):
            failures.append(f'{name}: loaded back {got}')
    except Exception as e:
        failures.append(f'{name}: {type(e).__name__}: {e}')
    # over-long iterators must still be rejected without changing the builder
b = Builder().store_uint(0, 1000)
try:
    b.store_bits(1 for _ in range(24))
    failures.append('24 bits from a generator accepted into a builder with 23 bits left')
except Exception:
    if len(b.bits) != 1000:
        failures.append('rejected generator left bits behind')

assert not failures, 'store_bits does not take these iterables of bits: ' + '; '.join(failures)
print('ok')

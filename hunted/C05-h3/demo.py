"""C05 finding 3: EXTENDED input is accepted when the bag is given in its base64 text form.

Boc.__init__ / Boc.from_base64 decode with base64.b64decode(data) in its non-validating mode, which silently drops
(a) everything that follows the '=' padding - including further well-formed base64 groups, i.e. appended bytes - and
(b) every character outside the alphabet.  So a CRC-protected bag whose text is extended by extra encoded bytes, or by
junk, is parsed as if nothing had been appended, although the same extension in bytes form is (correctly) rejected
with "Too many bytes in boc".
"""
import base64
from pytoniq_core import Cell, begin_cell
from pytoniq_core.boc.deserialize import Boc

accepted = []
for nbits in (16, 8):     # 16 -> text ends in '=', 8 -> text ends in '=='
    root = begin_cell().store_uint(1, nbits).store_ref(begin_cell().store_uint(5, 3).end_cell()).end_cell()
    data = root.to_boc(hash_crc32=True)
    text = base64.b64encode(data).decode()
    assert text.endswith('=') and Cell.one_from_boc(text).hash == root.hash      # control: the unextended text parses
    for extra in (b'\x00', b'\x00\x00\x00', b'\xde\xad\xbe\xef', data):
        # control: the extension is rejected when it is made on the bytes ...
        for good in (data + extra, base64.b64encode(data + extra).decode()):
            try:
                Cell.one_from_boc(good)
                raise SystemExit('control failed')
            except Exception as e:
                assert 'Too many bytes' in str(e), e
        # ... but not when the encoded extra bytes are appended to the text
        ext_text = text + base64.b64encode(extra).decode()
        for label, fn in (('Cell.one_from_boc', Cell.one_from_boc), ('Cell.from_boc', Cell.from_boc),
                          ('Boc.from_base64().deserialize', lambda t: Boc.from_base64(t).deserialize())):
            try:
                r = fn(ext_text)
            except Exception:
                continue   # what the property requires
            accepted.append('%s(%r) -> %r' % (label, ext_text if len(ext_text) < 60 else ext_text[:57] + '...', r))

assert not accepted, 'extended input was parsed instead of rejected:\n  ' + '\n  '.join(accepted)
print('ok')

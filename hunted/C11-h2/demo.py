"""check_proof accepts Merkle proof cells whose own data or structure has been changed: any bit of the 16-bit depth
field, bytes appended after it, the depth field cut off, or a second reference.

Run:  PYTHONPATH=<tree> python demo.py     (exit 0 = property holds, non-zero = violation)
"""
from pytoniq_core.boc import Cell, Builder
from pytoniq_core.proof.check_proof import check_proof

# a small tree and its Merkle proof with the cell at path (0, 0) pruned
leaf = Builder().store_uint(7, 8).end_cell()
mid = Builder().store_uint(1, 8).store_ref(leaf).end_cell()
root = Builder().store_uint(2, 8).store_ref(mid).store_ref(leaf).end_cell()
pruned_leaf = (Builder(type_=1).store_uint(1, 8).store_uint(1, 8).store_bytes(leaf.hash)
               .store_uint(leaf.get_depth(0), 16).end_cell())
body = Builder().store_uint(2, 8).store_ref(Builder().store_uint(1, 8).store_ref(pruned_leaf).end_cell()).store_ref(leaf).end_cell()
proof = (Builder(type_=3).store_uint(3, 8).store_bytes(root.hash).store_uint(root.get_depth(0), 16)
         .store_ref(body).end_cell())
assert len(proof.bits) == 280 and root.get_depth(0) == 2
check_proof(proof, root.hash)                                       # the honest proof is accepted
check_proof(Cell.one_from_boc(proof.to_boc()), root.hash)           # also after a trip through the bag of cells

accepted = []


def attempt(what, make):
    """make() builds the changed proof cell; it counts as rejected if building, parsing or checking raises"""
    try:
        cell = make()
        cell = Cell.one_from_boc(cell.to_boc())      # as a verifier receives it
        check_proof(cell, root.hash)
    except Exception:
        return
    accepted.append(what)


bits = proof.bits.to01()
for i in range(8, 280):                              # every single-bit change of the proof cell's data after the type byte
    flipped = bits[:i] + ('1' if bits[i] == '0' else '0') + bits[i + 1:]
    attempt(f'bit {i} flipped', lambda: Builder(type_=3).store_bits(flipped).store_ref(body).end_cell())
attempt('one byte appended', lambda: Builder(type_=3).store_bits(bits).store_uint(0, 8).store_ref(body).end_cell())
attempt('depth field cut off', lambda: Builder(type_=3).store_bits(bits[:264]).store_ref(body).end_cell())
attempt('second reference added', lambda: Builder(type_=3).store_bits(bits).store_ref(body).store_ref(leaf).end_cell())

assert not accepted, ('VIOLATION: check_proof accepted changed Merkle proof cells: '
                      + ', '.join(accepted[:4]) + (f' ... ({len(accepted)} in all: ' + ', '.join(accepted[-3:]) + ')' if len(accepted) > 4 else ''))
print('ok: every changed Merkle proof cell was rejected')

# Property C06, words violated:
#   "... internal addresses (with or without anycast) - storing them with a builder and loading them back in the
#    same order returns the same values ... The bits written are exactly the TL-B encoding of the values"
#   (and, from the rationale of the property: "anycast addresses are silently rewritten")
#
# Address(address) is the class's own "accept an Address or its text" normaliser (address.py l. 38-41 has a branch
# for an Address argument).  That branch copies wc and hash_part only: the anycast prefix of the address is dropped
# without a word, so an address that came out of load_address(), passed through Address(...) and stored again is
# written as a different address (addr_std without anycast, 267 bits instead of 272 + depth).
#
# Run:  cd /tmp/h2/wt-C06 && PYTHONPATH=/tmp/h2/wt-C06 /venv/bin/python /tmp/h2/out/C06/3/demo.py
import sys

from pytoniq_core import Builder, Address

H = bytes(range(1, 33))

# an anycast address as another implementation writes it: addr_std$10 just$1 depth=5 pfx=10110 wc=0 hash
wire = '10' + '1' + '00101' + '10110' + '00000000' + ''.join(format(b, '08b') for b in H)
src = Builder().store_bits(wire).end_cell()

loaded = src.begin_parse().load_address()
print('loaded          :', loaded)

direct = Builder().store_address(loaded).end_cell()
print('stored directly :', direct.bits.to01() == wire, f'({len(direct.bits)} bits)')

copied = Address(loaded)            # what any `addr = Address(addr)` normalisation of a str-or-Address argument does
print('Address(loaded) :', copied, '| anycast =', copied.anycast)
via_copy = Builder().store_address(copied).end_cell()
same = via_copy.bits.to01() == wire
print('stored via copy :', same, f'({len(via_copy.bits)} bits; expected {len(wire)})')
print('  expected', wire[:24], '...')
print('  written ', via_copy.bits.to01()[:24], '...')
print('copy == original according to Address.__eq__:', copied == loaded, '(so the loss is invisible to a comparison)')

back = via_copy.begin_parse().load_address()
ok = same and back.anycast == loaded.anycast
if not ok:
    print(f'\nFAIL: anycast {loaded.anycast} became {back.anycast} after Address(address) -> store_address -> load_address')
    sys.exit(1)
print('\nanycast prefix survives Address(address)')

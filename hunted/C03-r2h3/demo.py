# Property C03: "For every cell DAG (shared sub-cells, exotic cells, one cell to tens of thousands) ... parsing the
# serialised bytes yields a root with identical hash and identical structure"
#
# Boc.deserialize() hands every cell the whole REST of the cell data as a fresh copy (`cells_data[i:]`), so parsing a
# bag of n cells copies n/2 times the bag: the work is quadratic in the size of the bag.  "Tens of thousands" of cells
# - the size the property names - is exactly where that starts to bite: to_boc() of 30 000 cells takes a fraction of a
# second, from_boc() of its output takes many seconds, and doubling the bag quadruples the time.
import sys, time
from pytoniq_core.boc import Cell, Builder

def heap(n, nbytes=123):
    """a DAG of exactly n distinct cells (4-ary heap: cell i references cells 4i+1 .. 4i+4), depth ~ log4 n"""
    cells = [None] * n
    for i in reversed(range(n)):
        b = Builder().store_uint(i, 32).store_bytes(bytes(nbytes))
        for j in range(4 * i + 1, min(4 * i + 5, n)):
            b.store_ref(cells[j])
        cells[i] = b.end_cell()
    return cells[0]

def measure(n):
    root = heap(n)
    t = time.perf_counter(); raw = root.to_boc(); t_ser = time.perf_counter() - t
    best = None
    for _ in range(2):
        t = time.perf_counter(); back = Cell.one_from_boc(raw); t_par = time.perf_counter() - t
        best = t_par if best is None else min(best, t_par)
    assert back.hash == root.hash
    print(f'{n:6d} cells, {len(raw):8d} bytes: to_boc {t_ser:6.2f} s   from_boc {best:6.2f} s', flush=True)
    return best

t1 = measure(12000)
t2 = measure(24000)
ratio = t2 / t1
print('expected: parsing is linear in the size of the bag - twice the cells, about twice the time (ratio ~2, certainly < 3)')
print(f'observed: twice the cells take {ratio:.1f} times as long')
sys.exit(1 if ratio >= 3 else 0)

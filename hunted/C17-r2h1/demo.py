# Property C17, words violated:
#   "serialising and parsing returns equal values in the same order, and the encoding follows the VmStack schema
#    (64-bit form for small integers, 257-bit form otherwise, tuple chaining)"
#
# VmStackValue.serialize has an explicit branch for `bytes` values ("bytes length should be less than 32"): it writes
# the 16 bits 0x0200 (= tag vm_stk_int#0201_ + sign bit 0) followed by the raw bytes.  Only for exactly 32 bytes is
# that the 15 + 257 bits of vm_stk_int; for every shorter value (0..31 bytes) the entry is a truncated vm_stk_int,
# i.e. not a VmStackValue at all: no parser (the library's own included) can read the stack back.
import sys
from pytoniq_core.tlb.vm_stack import VmStack
from pytoniq_core.boc import begin_cell, Cell

bad = []
for n in (0, 1, 4, 8, 20, 31, 32):
    value = bytes(range(1, n + 1))
    try:
        cell = VmStack.serialize([5, value])
    except Exception as e:                      # refusing the value would be a consistent behaviour
        print(f'{n:2} bytes: refused by serialize ({type(e).__name__}) - fine')
        continue
    # what the schema demands for the non-negative integer these bytes denote (vm_stk_tinyint would be as good)
    as_int = int.from_bytes(value, 'big')
    try:
        back = VmStack.deserialize(cell.begin_parse())
    except Exception as e:
        print(f'{n:2} bytes: serialize accepted the value and wrote a {len(cell.bits) - 24}-bit entry 0x{cell.bits[24:].tobytes().hex()} '
              f'(vm_stk_int needs 272 bits); the result is not a VmStack: parsing raises {type(e).__name__}: {e}')
        bad.append(n)
        continue
    if back not in ([5, as_int], [5, value]):
        print(f'{n:2} bytes: parsed back as {back!r}, expected [5, {as_int}]')
        bad.append(n)
    else:
        print(f'{n:2} bytes: round trip gives {back!r} - fine')

print()
print('expected: every accepted bytes value is written as a schema-conforming VmStackValue (the integer it denotes) and parses back')
if bad:
    print(f'happened: byte strings of length {bad} were accepted and written as a truncated vm_stk_int that cannot be parsed')
    sys.exit(1)
print('happened: as expected')

# Property C16 (words violated): "the library's parser returns every field with the encoded value ... and
# consumes exactly the encoded bits and references" (title: "Transaction, account and BLOCK parsers read exactly
# what block.tlb specifies").
#
# block.tlb:
#   _ fees:CurrencyCollection create:CurrencyCollection = ShardFeeCreated;
#   _ (HashmapAugE 96 ShardFeeCreated ShardFeeCreated) = ShardFees;
#   masterchain_block_extra#cca5 key_block:(## 1) shard_hashes:ShardHashes shard_fees:ShardFees
#     ^[ prev_blk_signatures:(HashmapE 16 CryptoSignaturePair) recover_create_msg:(Maybe ^InMsg) mint_msg:(Maybe ^InMsg) ]
#     config:key_block?ConfigParams = McBlockExtra;
#   ahme_empty$0 {n:#} {X:Type} {Y:Type} extra:Y = HashmapAugE n X Y;
#   ahme_root$1  {n:#} {X:Type} {Y:Type} root:^(HashmapAug n X Y) extra:Y = HashmapAugE n X Y;
#
# McBlockExtra.deserialize reads shard_fees with load_maybe_ref(): one bit (+ one reference) - the inline root
# `extra:ShardFeeCreated` (two CurrencyCollections, at least 10 bits, possibly with references) is never consumed.
# Every field after it is read from the wrong place: for every key block config_addr is taken 10+ bits too early,
# and when the root extra holds extra currencies the reference group and the config dictionary come from the wrong
# references.
import sys
from pytoniq_core.boc import Builder, Cell
from pytoniq_core.tlb.block import McBlockExtra

CONFIG_ADDR = bytes([0x55]) * 32


def grams(b: Builder, v: int):
    n = (v.bit_length() + 7) // 8
    b.store_uint(n, 4)
    if n:
        b.store_uint(v, n * 8)


def currency_collection(b: Builder, v: int, extra_dict_root: Cell = None):
    grams(b, v)
    if extra_dict_root is None:
        b.store_uint(0, 1)
    else:
        b.store_uint(1, 1)
        b.store_ref(extra_dict_root)


def one_entry_hashmap(key: int, key_len: int, value: Builder) -> Cell:
    # hm_edge with an hml_long label that spells the whole key, then the value (independent of the library's HashMap)
    b = Builder()
    b.store_bits('10')
    b.store_uint(key_len, key_len.bit_length())
    b.store_uint(key, key_len)
    b.store_cell(value.end_cell())
    return b.end_cell()


param0 = Builder().store_bytes(CONFIG_ADDR).end_cell()           # _ config_addr:bits256 = ConfigParam 0
config_dict = one_entry_hashmap(0, 32, Builder().store_ref(param0))  # Hashmap 32 ^Cell
sig_group = Builder().store_uint(0, 1).store_uint(0, 1).store_uint(0, 1).end_cell()  # no signatures, no messages


def mc_block_extra(fees: int, create: int, fees_extra: Cell = None) -> Cell:
    b = Builder()
    b.store_uint(0xcca5, 16)
    b.store_uint(1, 1)            # key_block
    b.store_uint(0, 1)            # shard_hashes: hme_empty
    b.store_uint(0, 1)            # shard_fees:   ahme_empty ...
    currency_collection(b, fees, fees_extra)   # ... extra.fees
    currency_collection(b, create)             # ... extra.create
    b.store_ref(sig_group)        # ^[ prev_blk_signatures recover_create_msg mint_msg ]
    b.store_bytes(CONFIG_ADDR)    # config.config_addr
    b.store_ref(config_dict)      # config.config
    return b.end_cell()


failures = 0


def check(name, cell):
    global failures
    print(f'--- {name}')
    cs = cell.begin_parse()
    try:
        res = McBlockExtra.deserialize(cs)
    except Exception as e:
        print(f'  expected: parsed key-block extra with config_addr={CONFIG_ADDR.hex()}')
        print(f'  got     : {type(e).__name__}: {e}')
        failures += 1
        return
    ok = True
    if res.config is None or res.config.config_addr != CONFIG_ADDR.hex():
        ok = False
        print(f'  config_addr expected {CONFIG_ADDR.hex()}')
        print(f'  config_addr got      {None if res.config is None else res.config.config_addr}')
    else:
        keys = sorted(res.config.config)
        if keys != [0] or res.config.config[0].load_bytes(32) != CONFIG_ADDR:
            ok = False
            print(f'  config dictionary expected {{0: <ConfigParam 0>}}, got keys {keys}')
    if cs.remaining_bits or cs.remaining_refs:
        ok = False
        print(f'  expected everything consumed, left: {cs.remaining_bits} bits, {cs.remaining_refs} refs')
    if res.prev_blk_signatures not in (None, {}) or res.recover_create_msg is not None or res.mint_msg is not None:
        ok = False
        print('  the ^[...] group was read from the wrong reference:', res.prev_blk_signatures, res.recover_create_msg, res.mint_msg)
    if ok:
        print('  ok')
    else:
        failures += 1


# 1. the most common key block shape: no shard fees at all (root extra = two zero CurrencyCollections, 10 bits)
check('key block, empty ShardFees, zero totals', mc_block_extra(0, 0))
# 2. non-zero totals in the root extra
check('key block, root extra fees=1.5 TON create=1.7 TON', mc_block_extra(1_500_000_000, 1_700_000_000))
# 3. root extra with an extra-currency dictionary: one more reference before the ^[...] group
extra_cur = one_entry_hashmap(7, 32, Builder().store_uint(1, 5).store_uint(200, 8))  # {7: 200} VarUInteger 32
check('key block, root extra with an extra currency', mc_block_extra(5, 0, extra_cur))

if failures:
    print(f'\nFAIL: {failures} of 3 key-block McBlockExtra values were not read as block.tlb specifies')
    sys.exit(1)
print('\nall good')

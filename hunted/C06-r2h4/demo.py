# Property C06, words violated:
#   "... internal addresses ... storing them with a builder and loading them back in the same order returns the same
#    values and leaves nothing unread ...  The bits written are exactly the TL-B encoding of the values: ...
#    addr_none/addr_extern/addr_std."
#
# addr_std$10 anycast:(Maybe Anycast) workchain_id:int8 address:bits256 - always 256 address bits.
# Address() never checks the length of the hash part (raw text form '0:<hex>' and the (wc, bytes) tuple form), and
# Builder.store_address() writes whatever bytes it holds.  A raw address that lost (or gained) a byte is accepted as
# an Address value and written as 3 + 8 + 8*n bits - not an addr_std - so every field stored after it is shifted:
# load_address() returns another address made of the neighbouring field's bits, and the next load is wrong or fails.
#
# Run:  cd /tmp/h2/wt-C06 && PYTHONPATH=/tmp/h2/wt-C06 /venv/bin/python /tmp/h2/out/C06/4/demo.py
import sys

from pytoniq_core import Builder, Address


def attempt(label, make):
    """make() -> Address.  Returns True when the library behaves: either refuses the value, or round-trips it bit-exactly."""
    try:
        addr = make()
    except Exception as e:  # noqa
        print(f'ok   {label}: refused by Address(): {e!r}')
        return True
    try:
        b = Builder().store_address(addr)
    except Exception as e:  # noqa
        print(f'ok   {label}: refused by store_address(): {e!r}')
        return True
    n = len(b.bits)
    s = b.store_uint(0x11, 8).store_uint(0xABCD, 16).end_cell().begin_parse()
    try:
        back = s.load_address()
        nxt = (s.load_uint(8), s.load_uint(16))
        rest = s.remaining_bits
        outcome = f'loaded hash={back.hash_part.hex()} then fields {nxt[0]:#x}, {nxt[1]:#x}, {rest} bits unread'
        good = n == 267 and back.hash_part == addr.hash_part and nxt == (0x11, 0xABCD) and rest == 0
    except Exception as e:  # noqa
        outcome, good = f'reading back raised {e!r}', False
    print(f'{"ok  " if good else "FAIL"} {label}: accepted, hash part of {len(addr.hash_part)} bytes, store_address wrote {n} bits '
          f'(addr_std is 267); {outcome}')
    return good


results = [
    attempt('raw text, 31-byte hash ', lambda: Address('0:' + 'ab' * 31)),
    attempt('raw text, 33-byte hash ', lambda: Address('0:' + 'ab' * 33)),
    attempt('raw text, 2-byte hash  ', lambda: Address('-1:abcd')),
    attempt('tuple form, 31 bytes   ', lambda: Address((0, b'\xab' * 31))),
    attempt('tuple form, empty hash ', lambda: Address((0, b''))),
    attempt('control, 32-byte hash  ', lambda: Address('0:' + 'ab' * 32)),
]
print()
if not all(results):
    print(f'{results.count(False)} malformed addresses were accepted and written as something that is not addr_std '
          f'(expected: AddressError / refusal, or a 267-bit addr_std that reads back)')
    sys.exit(1)
print('only 256-bit account ids are written as addr_std')

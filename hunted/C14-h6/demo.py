# A Python bool (an int subclass: True == 1) given for an int / long / # field is written as the 4-byte constructor id of
# boolTrue / boolFalse instead of the little-endian integer; for a `long` the field even gets 4 bytes instead of 8.
from pytoniq_core.tl.generator import TlGenerator

s = TlGenerator.with_default_schemas().generate()
problems = []
# tcp.ping random_id:long
ref = s.serialize('tcp.ping', {'random_id': 1})
assert ref == s.get_by_name('tcp.ping').little_id() + (1).to_bytes(8, 'little')
got = s.serialize('tcp.ping', {'random_id': True})
if got != ref:
    problems.append(f'long field = True: {got.hex()} ({len(got)} bytes) instead of {ref.hex()}; parses as {s.deserialize(got)[0]}')
# liteServer.getBlockHeader id:tonNode.blockIdExt mode:#   with mode = bool(want_state_proof)  (bit 0)
blk = {'workchain': -1, 'shard': -2**63, 'seqno': 1, 'root_hash': '00' * 32, 'file_hash': '11' * 32}
ref = s.serialize('liteServer.getBlockHeader', {'id': blk, 'mode': 1})
got = s.serialize('liteServer.getBlockHeader', {'id': blk, 'mode': True})
if got != ref:
    problems.append(f'# field = True: parses as mode={s.deserialize(got)[0]["mode"]} instead of 1')
# liteServer.error code:int message:string
ref = s.serialize('liteServer.error', {'code': 0, 'message': 'x'})
got = s.serialize('liteServer.error', {'code': False, 'message': 'x'})
if got != ref:
    problems.append(f'int field = False: parses as code={s.deserialize(got)[0]["code"]} instead of 0')
assert not problems, '\n'.join(problems)
print('ok')

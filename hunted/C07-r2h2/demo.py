# Property C07, words violated:
#   "a store ... whose value does not fit the stated width, raises an error"
#
# Builder.store_address writes the account id of an internal address with store_bytes(address.hash_part) - whatever its length.
# The field is `address:bits256` (addr_std$10 anycast:(Maybe Anycast) workchain_id:int8 address:bits256): a 33-byte or 40-byte
# account id does not fit the stated 256 bits, a 1-byte one does not fill them, yet both are stored without error and produce a
# bit string that is not a MsgAddressInt (275 / 331 / 19 bits instead of 267).  The workchain next to it IS range-checked
# (wc = 128 raises), and so is every integer store.  The same holds for the anycast depth (#<= 30): 31 is written without error.
import sys
from pytoniq_core import Builder, Address

failures = []


def expect_refused(name, fn):
    b = Builder()
    try:
        fn(b)
    except Exception as e:
        print(f'ok   {name}: refused with {type(e).__name__}: {e}')
        return
    print(f'BAD  {name}: expected an error; stored {len(b.bits)} bits (a valid addr_std without anycast has exactly 267)')
    try:
        s = b.to_slice()
        back = s.load_address()
        print(f'     read back: {back!r}, {s.remaining_bits} bits left unread')
    except Exception as e:
        print(f'     read back fails: {type(e).__name__}: {e}')
    failures.append(name)


expect_refused('store_address(Address((0, 33 bytes)))', lambda b: b.store_address(Address((0, b'\x11' * 32 + b'\x99'))))
expect_refused('store_address(Address((0, 1 byte)))', lambda b: b.store_address(Address((0, b'\x11'))))
expect_refused("store_address('0:' + 40 bytes of hex)", lambda b: b.store_address('0:' + '11' * 40))
expect_refused("store_address('0:11')", lambda b: b.store_address('0:11'))

# control: the neighbouring field is checked
try:
    Builder().store_address(Address((128, b'\x11' * 32)))
    print('note: workchain 128 was accepted as well')
except Exception as e:
    print(f'control: workchain 128 (int8 field) is refused: {type(e).__name__}')


def anycast31(b):
    a = Address((0, b'\x11' * 32))
    a.set_anycast(31, 5)      # anycast_info$_ depth:(#<= 30) { depth >= 1 }
    b.store_address(a)


# informational only (not counted in the exit status): the bound of a `#<= 30` field is not enforced either
_b = Builder()
try:
    anycast31(_b)
    print(f'info anycast depth 31 (field is #<= 30) was stored without error ({len(_b.bits)} bits)')
except Exception as e:
    print(f'info anycast depth 31 is refused: {type(e).__name__}')

if failures:
    print(f'\n{len(failures)} out-of-width value(s) were stored without an error')
    sys.exit(1)
print('all refused')

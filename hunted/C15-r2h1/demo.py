# Property C15, words violated:
#   "For every message (internal, external-in, external-out; ANY ADDRESSES ...) ... the resulting cell decodes,
#    under an independent reading of the TL-B schema, to the SAME LOGICAL MESSAGE, and the library's own parser
#    returns the same message from it"
#
# block.tlb:  addr_extern$01 len:(## 9) external_address:(bits len) = MsgAddressExt;
# ExternalAddress(address: Union[int, str, bytes, None], length=None) admits the address as bytes or as hex text.
# A byte string has a length of its own (8 bits per byte), but the constructor turns it into an integer and then
# takes length = int.bit_length(): every leading zero BIT of the caller's address is dropped, so the message that
# is written carries a different (shorter) external address than the one the caller gave.
import sys
from pytoniq_core import Address, Cell, MessageAny, ExternalMsgInfo, ExternalOutMsgInfo, ExternalAddress

dest = Address((0, b'\x11' * 32))
failures = 0


def decode_ext_addr(bits: str, pos: int):
    """independent reading of MsgAddressExt at bit offset pos of the message cell -> (len, value bits)"""
    tag = bits[pos:pos + 2]
    if tag == '00':
        return None
    assert tag == '01', tag
    ln = int(bits[pos + 2:pos + 11], 2)
    return ln, bits[pos + 11:pos + 11 + ln]


cases = [
    ('bytes 00 01', b'\x00\x01', '0000000000000001'),
    ('bytes 7f', b'\x7f', '01111111'),
    ('bytes 00', b'\x00', '00000000'),
    ('hex text "00ff"', '00ff', '0000000011111111'),
    ('hex text "0a"', '0a', '00001010'),
    ('bytes ff (control, top bit set)', b'\xff', '11111111'),
]
for name, given, want_bits in cases:
    src = ExternalAddress(given)
    msg = MessageAny(ExternalMsgInfo(src, dest, 0), None, Cell.empty())
    cell = msg.serialize()
    got = decode_ext_addr(cell.bits.to01(), 2)  # ext_in_msg_info$10 src:MsgAddressExt ...
    parsed = MessageAny.deserialize(cell.begin_parse()).info.src
    ok = got == (len(want_bits), want_bits) and parsed.len == len(want_bits) and parsed.external_address == int(want_bits, 2)
    print(f'{name:34} expected addr_extern len={len(want_bits):2} bits={want_bits}')
    print(f'{"":34} on the wire        len={got[0]:2} bits={got[1]!r};  parsed back: len={parsed.len} value={parsed.external_address}'
          f'   {"ok" if ok else "WRONG"}')
    failures += not ok

# two different addresses collide on the wire
a = MessageAny(ExternalOutMsgInfo(dest, ExternalAddress(b'\x00\x00\x01'), 1, 2), None, Cell.empty()).serialize()
b = MessageAny(ExternalOutMsgInfo(dest, ExternalAddress(b'\x01'), 1, 2), None, Cell.empty()).serialize()
print('ext-out messages to 0x000001 (24 bits) and to 0x01 (8 bits) are the same cell:', a.hash == b.hash, '(expected False)')
failures += a.hash == b.hash

print('failures:', failures)
sys.exit(1 if failures else 0)

# Property C03: "The raw-bytes, hex-string and base64-string forms of the same serialisation parse to the same result,
# through the cell, slice and builder entry points alike."
#
# For a (spec-valid, e.g. produced by the reference implementation's std_boc_serialize_multi / by liteserver answers)
# bag with two roots, the three one_from_boc entry points do NOT behave alike: Cell.one_from_boc refuses it
# ("expected one root cell"), Slice.one_from_boc and Builder.one_from_boc silently hand back the first root and drop
# the other one.
import sys, base64
from pytoniq_core.boc import Cell, Slice, Builder

a = Builder().store_uint(0xAA, 8).end_cell()
b = Builder().store_uint(0xBB, 8).store_ref(a).end_cell()

# serialized_boc#b5ee9c72, size=1, off_bytes=1, cells=2, roots=2, absent=0, tot_cells_size=7, root_list=[0, 1]
#   cell 0 = b (d1=01 d2=02 BB ref->1), cell 1 = a (d1=00 d2=02 AA)
raw = bytes.fromhex('b5ee9c72') + bytes([0x01, 0x01, 2, 2, 0, 7, 0, 1]) + bytes([1, 2, 0xBB, 1]) + bytes([0, 2, 0xAA])

roots = Cell.from_boc(raw)
assert [r.hash for r in roots] == [b.hash, a.hash], 'the bag itself is fine: from_boc returns both roots'
print('Cell.from_boc ->', roots)

def outcome(f, form):
    try:
        r = f(form)
    except Exception as e:
        return 'raises ' + type(e).__name__ + ': ' + str(e)
    c = r if isinstance(r, Cell) else (r.to_cell() if isinstance(r, Slice) else r.end_cell())
    return 'returns the cell ' + c.hash.hex()[:16]

bad = 0
for name, form in (('bytes', raw), ('hex', raw.hex()), ('base64', base64.b64encode(raw).decode())):
    res = {f.__qualname__: outcome(f, form) for f in (Cell.one_from_boc, Slice.one_from_boc, Builder.one_from_boc)}
    for k, v in res.items():
        print(f'  {name:6} {k:22} {v}')
    kinds = {v.split(' ')[0] for v in res.values()}
    if len(kinds) != 1:
        bad += 1

print('expected: the three entry points agree on the same bytes (all refuse a bag with two roots, as Cell.one_from_boc '
      'does, or all return the same thing)')
print('observed:', 'they disagree for %d of 3 input forms: Slice/Builder silently drop the second root' % bad if bad else 'they agree')
sys.exit(1 if bad else 0)

"""C04 finding 2: a cell whose bits are a little-endian bitarray (a legitimate bitarray / BitarrayLike) is emitted with
every data byte bit-reversed and the completion tag on the wrong side: the bag decodes to a different cell."""
from bitarray import bitarray
from pytoniq_core import Cell, Builder


def strict_decode_single(data):
    """independent decoder for a one-cell bag without index / crc: returns the bit string of the only cell"""
    assert data[:4] == b'\xb5\xee\x9c\x72' and data[4] == 1, data.hex()
    off = data[5]
    cells, roots, absent = data[6], data[7], data[8]
    assert (cells, roots, absent) == (1, 1, 0)
    tot = int.from_bytes(data[9:9 + off], 'big')
    p = 9 + off + 1
    cd = data[p:]
    assert len(cd) == tot
    d1, d2 = cd[0], cd[1]
    assert d1 == 0, 'ordinary cell without refs expected'
    nbytes = (d2 >> 1) + (d2 & 1)
    assert len(cd) == 2 + nbytes
    bits = ''.join(format(b, '08b') for b in cd[2:])
    if d2 & 1:
        bits = bits[:bits.rindex('1')]
    return bits


for text in ['1', '110', '10000000', '1100000000000001']:
    big = Cell(bitarray(text, endian='big'), [])
    little = Cell(bitarray(text, endian='little'), [])
    # both cells hold the same sequence of bits
    assert little.bits.to01() == big.bits.to01() == text
    assert strict_decode_single(big.to_boc()) == text
    got = strict_decode_single(little.to_boc())
    assert got == text, ('the cell holds the bits %r but its to_boc() decodes to the bits %r (bytes %s)'
                         % (text, got, little.to_boc().hex()))
    assert little.hash == big.hash
print('ok')

"""A genuine supermajority signature set is rejected after it has travelled through the library's own TL form
(liteServer.signatureSet, the form in which signature sets reach a client): the `signature:bytes` field is
"auto-deserialised", so a signature whose first four bytes happen to equal a registered TL constructor id comes back
as a dict (a bogus nested TL object) instead of the 64 bytes, and check_block_signatures then fails with TypeError.
Property: "Every signature set that meets the condition is accepted."
"""
import hashlib
from nacl.signing import SigningKey
from pytoniq_core.proof.check_proof import check_block_signatures, calculate_node_id_short
from pytoniq_core.tlb.config import ValidatorDescr, SigPubKey
from pytoniq_core.tl.block import BlockIdExt
from pytoniq_core.tl.generator import TlGenerator

schemas = TlGenerator.with_default_schemas().generate()
keys = [SigningKey(hashlib.sha256(b'k' + bytes([i])).digest()) for i in range(4)]
nodes = [ValidatorDescr('validator', SigPubKey(k.verify_key.encode()), 1) for k in keys]


def sig_set(blk):
    to_sign = b'pn\x0b\xc5' + blk.root_hash + blk.file_hash
    return [{'node_id_short': calculate_node_id_short(k.verify_key.encode()).hex(),
             'signature': k.sign(to_sign).signature} for k in keys[:3]]


def through_tl(sigs):
    raw = schemas.serialize(schemas.get_by_name('liteServer.signatureSet'),
                            {'validator_set_hash': 1, 'catchain_seqno': 2, 'signatures': sigs})
    back, used = schemas.deserialize(raw)
    assert used == len(raw) and back['@type'] == 'liteServer.signatureSet'
    return back['signatures']


def outcome(sigs, blk):
    try:
        check_block_signatures(nodes, sigs, blk)
        return 'accepted'
    except Exception as e:
        return f'rejected ({type(e).__module__}.{type(e).__name__}: {e})'


# control: an ordinary block id survives the trip
blk0 = BlockIdExt(-1, None, 5, b'\x11' * 32, b'\x22' * 32)
assert outcome(sig_set(blk0), blk0) == 'accepted'
assert outcome(through_tl(sig_set(blk0)), blk0) == 'accepted'

# block id found by a 30 s search (1 in ~5 million ids has this for a given validator; Ed25519 is deterministic):
# validator 0's signature over it starts with 38 4c 36 77 = constructor id of tonNode.prepareKeyBlockProof
blk = BlockIdExt(-1, None, 5, b'\x11' * 32, hashlib.sha256(b'f' + (1064690).to_bytes(8, 'big')).digest())
sigs = sig_set(blk)
assert schemas.get_by_id(sigs[0]['signature'][:4], 'little') is not None, 'precondition: signature starts with a TL id'
assert outcome(sigs, blk) == 'accepted', 'the set is genuine: 3 of 4 equal-weight validators, accepted directly'

back = through_tl(sigs)
r = outcome(back, blk)
assert r == 'accepted', (f'valid 3-of-4 signature set {r} after liteServer.signatureSet serialize -> deserialize; '
                         f'signature[0] came back as {type(back[0]["signature"]).__name__}: {str(back[0]["signature"])[:80]}...')
print('ok')

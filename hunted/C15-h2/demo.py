"""NftItemData (NFT-data wrapper): an owner address given as a string (a form the constructor explicitly accepts)
corrupts the *collection* address: a copy-paste slip re-wraps collection_address instead of converting owner_address."""
from pytoniq_core.boc import Builder, Address
from pytoniq_core.tlb.custom.nft import NftItemData

content = Builder().store_uint(1, 8).end_cell()
owner = Address((0, b'\x22' * 32))
owner_str = owner.to_str(is_user_friendly=False)

# (a) collection address with anycast info + owner as string: the anycast part is silently dropped from the cell
coll = Address((0, b'\x11' * 32))
coll.set_anycast(5, 0b10110)
ref = NftItemData(index=7, collection_address=coll, owner_address=owner, content=content).serialize()      # owner as Address
got = NftItemData(index=7, collection_address=coll, owner_address=owner_str, content=content).serialize()  # owner as str
back = NftItemData.deserialize(got.begin_parse())
assert back.collection_address.anycast == coll.anycast, \
    f'collection address changed on the way: anycast {coll.anycast} -> {back.collection_address.anycast}'
assert got.hash == ref.hash, 'the same NFT data serialises differently when the owner is given as str'

# (b) stand-alone item (no collection: addr_none) + owner as string: construction fails outright
try:
    n = NftItemData(index=7, collection_address=None, owner_address=owner_str, content=content)
except Exception as e:
    raise AssertionError(f'NftItemData(collection_address=None, owner_address=<str>) raised {e!r}')
b = NftItemData.deserialize(n.serialize().begin_parse())
assert b.collection_address is None and b.owner_address == owner

# (c) the string owner is converted like the other string addresses are
assert isinstance(n.owner_address, Address), f'owner_address left as {type(n.owner_address).__name__}'
print('ok')

# Property C16 (words violated): "the library's parser returns every field with the encoded value ... and consumes
# exactly the encoded bits and references" - for the covered "in/out message descriptors" (InMsgDescr / OutMsgDescr
# = HashmapAugE 256 ...), ShardAccountBlocks, ShardAccounts and OldMcBlocksInfo.
#
# block.tlb (hashmap section):
#   ahme_empty$0 {n:#} {X:Type} {Y:Type} extra:Y = HashmapAugE n X Y;
#   ahme_root$1  {n:#} {X:Type} {Y:Type} root:^(HashmapAug n X Y) extra:Y = HashmapAugE n X Y;
#
# Slice.load_hashmap_aug_e never reads `extra:Y`:
#   * ahme_empty: it returns ({}, [<the caller's own live Slice>]) - the extra is not decoded with y_deserializer
#     (every other element the function ever puts in that list is a decoded Y), and because the list holds the very
#     slice the caller goes on reading from, the value is gone once the caller continues (McStateExtra.prev_blocks);
#   * ahme_root: the inline extra is left unread in the slice (OldMcBlocksInfo / ShardAccounts / BlockCreateStats
#     .deserialize stop 65 / n / 32 bits early).
import sys
from pytoniq_core.boc import Builder, Slice
from pytoniq_core.tlb.block import BlockExtra, McStateExtra, OldMcBlocksInfo

failures = 0


def grams(b, v):
    n = (v.bit_length() + 7) // 8
    b.store_uint(n, 4)
    if n:
        b.store_uint(v, n * 8)


def cc(b, v):  # CurrencyCollection without extra currencies
    grams(b, v)
    b.store_uint(0, 1)


def walk(obj, depth=0):
    """every object reachable from a parse result"""
    yield obj
    if depth > 6:
        return
    if isinstance(obj, (list, tuple)):
        for i in obj:
            yield from walk(i, depth + 1)
    elif isinstance(obj, dict):
        for i in obj.values():
            yield from walk(i, depth + 1)
    elif hasattr(obj, '__dict__') and not isinstance(obj, Slice):
        for i in vars(obj).values():
            yield from walk(i, depth + 1)


def report(name, ok, expected, got):
    global failures
    print(f'--- {name}\n  expected: {expected}\n  got     : {got}\n  {"ok" if ok else "VIOLATION"}')
    if not ok:
        failures += 1


# ---------------------------------------------------------------------------------------------------------------
# A. BlockExtra of a block that carries no messages and no transactions (what most shard blocks of an idle shard
#    look like): all three descriptors are ahme_empty + extra.
in_descr = Builder().store_uint(0, 1)
grams(in_descr, 9)          # ImportFees.fees_collected = 9
cc(in_descr, 77)            # ImportFees.value_imported = 77
out_descr = Builder().store_uint(0, 1)
cc(out_descr, 5)            # CurrencyCollection 5
acc_blocks = Builder().store_uint(0, 1)
cc(acc_blocks, 6)           # CurrencyCollection 6
block_extra = (Builder().store_uint(0x4a33f6fd, 32)
               .store_ref(in_descr.end_cell()).store_ref(out_descr.end_cell()).store_ref(acc_blocks.end_cell())
               .store_bytes(b'\x01' * 32).store_bytes(b'\x02' * 32).store_uint(0, 1).end_cell())
res = BlockExtra.deserialize(block_extra.begin_parse())
found = [o for o in walk(res.in_msg_descr) if getattr(o, 'fees_collected', None) == 9
         and getattr(getattr(o, 'value_imported', None), 'grams', None) == 77]
report('A1 InMsgDescr = ahme_empty, extra = ImportFees(fees_collected=9, value_imported=77)', bool(found),
       'the root extra decoded as ImportFees (fees_collected 9, value_imported.grams 77)', res.in_msg_descr)
found = [o for o in walk(res.out_msg_descr) if getattr(o, 'grams', None) == 5]
report('A2 OutMsgDescr = ahme_empty, extra = CurrencyCollection(5)', bool(found),
       'the root extra decoded as CurrencyCollection (grams 5)', res.out_msg_descr)

# ---------------------------------------------------------------------------------------------------------------
# B. McStateExtra whose prev_blocks dictionary is empty (state of the first masterchain blocks):
#    the KeyMaxLt extra is handed back as the live slice of the ^[...] cell, which McStateExtra then reads to its end.
cfg = (Builder().store_bits('10').store_uint(32, 6).store_uint(0, 32)      # Hashmap 32 ^Cell with the single key 0
       .store_ref(Builder().store_bytes(b'\x55' * 32).end_cell()).end_cell())
inner = Builder().store_uint(0, 16)                                          # flags
inner.store_uint(1, 32).store_uint(2, 32).store_uint(1, 1)                    # validator_info
inner.store_uint(0, 1).store_uint(1, 1).store_uint(0xdeadbeef, 64)            # prev_blocks: ahme_empty, extra = KeyMaxLt(key=1, max_end_lt)
inner.store_uint(1, 1).store_uint(0, 1)                                       # after_key_block, last_key_block: nothing
mse = Builder().store_uint(0xcc26, 16).store_uint(0, 1).store_bytes(b'\x55' * 32).store_ref(cfg).store_ref(inner.end_cell())
cc(mse, 123)
res = McStateExtra.deserialize(mse.end_cell().begin_parse())
found = [o for o in walk(res.prev_blocks) if getattr(o, 'max_end_lt', None) == 0xdeadbeef and getattr(o, 'key', None) is True]
report('B  McStateExtra.prev_blocks = ahme_empty, extra = KeyMaxLt(key=True, max_end_lt=0xdeadbeef)', bool(found),
       'KeyMaxLt(key=True, max_end_lt=3735928559) somewhere in prev_blocks', res.prev_blocks)

# ---------------------------------------------------------------------------------------------------------------
# C. OldMcBlocksInfo parsed on its own, one entry: ahme_root$1 root:^(...) extra:KeyMaxLt - 1 + 65 bits, 1 reference
leaf = Builder().store_bits('10').store_uint(32, 6).store_uint(7, 32)        # label = whole key 7
leaf.store_uint(1, 1).store_uint(1000, 64)                                    # ahmn_leaf extra: KeyMaxLt
leaf.store_uint(1, 1).store_uint(1000, 64).store_uint(7, 32).store_bytes(b'\xaa' * 32).store_bytes(b'\xbb' * 32)  # KeyExtBlkRef
outer = Builder().store_uint(1, 1).store_ref(leaf.end_cell()).store_uint(1, 1).store_uint(1000, 64).end_cell()
cs = outer.begin_parse()
res = OldMcBlocksInfo.deserialize(cs)
ok_val = isinstance(res, tuple) and 7 in res[0] and res[0][7].blk_ref.end_lt == 1000
report('C  OldMcBlocksInfo = ahme_root, one entry: consumed 66 bits and 1 reference', ok_val and cs.remaining_bits == 0 and cs.remaining_refs == 0,
       '0 bits / 0 refs left after the parser returns', f'{cs.remaining_bits} bits / {cs.remaining_refs} refs left (the root extra KeyMaxLt was not read)')

if failures:
    print(f'\nFAIL: {failures} of 4 checks')
    sys.exit(1)
print('\nall good')

"""store_bit silently stores NOTHING for a one-bit bitarray that is not a TvmBitarray (and for any other type it
does not know): no bit is written and no error is raised, so the following values shift by one bit.

A plain bitarray is a legitimate form of "bits" everywhere else in the library: Cell / Slice are built from one
(BitarrayLike), store_bits takes one, TvmBitarray.to_bitarray() hands one out.
"""
from bitarray import bitarray
from pytoniq_core.boc.builder import Builder
from pytoniq_core.boc.cell import Cell

one = bitarray('1')

# the same one bit through the sibling entry points: all fine
assert Builder().store_bits(one).bits.to01() == '1'
assert Builder().store_cell(Cell(bitarray('1'), [])).bits.to01() == '1'
tvm_one = Builder().store_bits('1').bits                      # a TvmBitarray holding the same bit
assert Builder().store_bit(tvm_one).bits.to01() == '1'
assert tvm_one.to_bitarray() == one

# sequence of typed values: bit 1, then uint8 0xAB
b = Builder().store_bit(tvm_one.to_bitarray()).store_uint(0xAB, 8)
written = b.bits.to01()
s = b.end_cell().begin_parse()
try:
    got = (s.load_bit(), s.load_uint(8), s.remaining_bits)
except Exception as e:
    got = f'{type(e).__name__}: {e}'

assert written == '1' + '10101011' and got == (1, 0xAB, 0), \
    f"store_bit(bitarray('1')) then store_uint(0xAB, 8) wrote {written!r} (expected '110101011'); loaded back {got}: " \
    f"the bit was dropped without any error"
print('ok')

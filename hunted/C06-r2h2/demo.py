# Property C06, words violated:
#   "... empty, external and internal addresses ... storing them with a builder and loading them back in the same
#    order returns the same values ...  The bits written are exactly the TL-B encoding of the values: ...
#    addr_none/addr_extern/addr_std."
#
# addr_extern$01 len:(## 9) external_address:(bits len).  An external address given as bytes (or as hex text) is a
# bit string of 8 * len(bytes) bits.  ExternalAddress() turns it into an int and, when no length is passed, takes
# int.bit_length() as `len`: every leading zero bit of the address is dropped, so the cell holds a different, shorter
# address, and distinct addresses (b'\x00\xff', b'\xff', b'\x00\x00\xff') are written as the same bits.
#
# Run:  cd /tmp/h2/wt-C06 && PYTHONPATH=/tmp/h2/wt-C06 /venv/bin/python /tmp/h2/out/C06/2/demo.py
import sys

from pytoniq_core import Builder
from pytoniq_core.boc.address import ExternalAddress


def expected_bits(raw: bytes) -> str:
    n = len(raw) * 8
    return '01' + format(n, '09b') + ''.join(format(b, '08b') for b in raw)


bad = 0
WITNESSES = [
    b'\x00\xff',                      # leading zero byte
    b'\x7f',                          # leading zero bit
    b'\x00',                          # all zero
    bytes(range(32)),                 # a 256-bit external address that begins with 0x00 0x01
    bytes.fromhex('0123456789abcdef'),
    b'\xff\x00',                      # control: top bit set, this one is right
]
for raw in WITNESSES:
    for form, arg in (('bytes', raw), ('hex str', raw.hex())):
        ext = ExternalAddress(arg)
        cell = Builder().store_address(ext).end_cell()
        got = cell.bits.to01()
        want = expected_bits(raw)
        back = cell.begin_parse().load_address()
        back_raw = back.external_address.to_bytes((back.len + 7) // 8, 'big') if back.len else b''
        ok = got == want and back.len == len(raw) * 8 and back_raw == raw
        print(f'{"ok  " if ok else "FAIL"} ExternalAddress({arg!r}) [{form}]: expected len={len(raw) * 8} bits {want[:11]}|{want[11:]!s:.24}..., '
              f'written len={ext.len} bits {got[:11]}|{got[11:]!s:.24}...; loaded back as {back_raw!r} ({back.len} bits)')
        bad += not ok

a, b = ExternalAddress(b'\x00\xff'), ExternalAddress(b'\xff')
same = Builder().store_address(a).end_cell() == Builder().store_address(b).end_cell()
print(f'{"FAIL" if same else "ok  "} b"\\x00\\xff" and b"\\xff" serialise to {"the same" if same else "different"} cells (expected different)')
bad += same

# the annotated "no address" form of the class itself cannot be constructed, although to_cell() has a branch for it
try:
    bits = Builder().store_address(ExternalAddress(None)).end_cell().bits.to01()
    ok = bits == '00'
    print(f'{"ok  " if ok else "FAIL"} ExternalAddress(None) -> {bits} (expected 00, addr_none)')
except Exception as e:  # noqa
    ok = False
    print(f'FAIL ExternalAddress(None) raised {e!r} (expected addr_none$00, as ExternalAddress.to_cell provides for)')
bad += not ok

print()
if bad:
    print(f'{bad} checks failed')
    sys.exit(1)
print('external addresses are written bit-exactly')

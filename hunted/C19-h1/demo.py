"""
C19 violation 1: the augmented-dictionary parser (parse_hashmap_aug, reached through
Slice.load_hashmap_aug / Slice.load_hashmap_aug_e / tlb ShardAccounts.deserialize) walks a shared
sub-DAG once per PATH.  A bag of cells of ~300 bytes (48 fork cells that each reference the same
child twice, ending in one pruned branch - the shape of an account-state proof) keeps the parser busy
for 2**48 steps.  The plain-dictionary parser on the very same bag returns at once.
"""
import signal
import sys
import time

from bitarray import bitarray
from pytoniq_core.boc import Cell, Builder
from pytoniq_core.boc.tvm_bitarray import TvmBitarray
from pytoniq_core.tlb.block import ShardAccounts

BUDGET = 1.0  # seconds: "a fraction of a second" with a generous margin


class Timeout(Exception):
    pass


def on_alarm(*_):
    raise Timeout()


signal.signal(signal.SIGALRM, on_alarm)


def pruned_branch() -> Cell:
    bits = bitarray()
    bits.frombytes(b'\x01\x01' + b'\x11' * 32 + b'\x00\x00')  # type 1, level mask 1, hash, depth
    return Cell(TvmBitarray(1023, bits), [], 1)


def shared_forks(levels: int) -> bytes:
    """levels fork cells, both references of each go to the same child; the last child is a pruned branch.
    fork bits: '00' = empty label (hml_short, length 0) followed by a DepthBalanceInfo extra of ten 0 bits"""
    cell = pruned_branch()
    for _ in range(levels):
        cell = Builder().store_bits('00' + '0' * 10).store_ref(cell).store_ref(cell).end_cell()
    return cell.to_boc()


def timed(fn, limit):
    signal.setitimer(signal.ITIMER_REAL, limit)
    start = time.perf_counter()
    try:
        fn()
        return time.perf_counter() - start
    except Timeout:
        return None
    finally:
        signal.setitimer(signal.ITIMER_REAL, 0)


# 1. growth: two more cells (10 more bytes) -> four times the work
for levels in (10, 12, 14):
    boc = shared_forks(levels)
    root = Cell.one_from_boc(boc)
    t_aug = timed(lambda: root.begin_parse().load_hashmap_aug(256, lambda s: s, lambda s: None), 30)
    t_plain = timed(lambda: root.begin_parse().load_hashmap(256), 30)
    print(f'{levels} levels, {len(boc)} bytes: load_hashmap_aug {t_aug:.4f} s, load_hashmap {t_plain:.4f} s')

# 2. a bag of ~300 bytes
boc = shared_forks(48)
root = Cell.one_from_boc(boc)
print(f'48 levels: bag of cells of {len(boc)} bytes, {len(root.order())} distinct cells')

t_plain = timed(lambda: root.begin_parse().load_hashmap(256), BUDGET)
assert t_plain is not None, 'plain dictionary parser did not finish either'
print(f'plain parser (load_hashmap) on this bag: {t_plain:.4f} s')

t_aug = timed(lambda: root.begin_parse().load_hashmap_aug(256, lambda s: s, lambda s: None), BUDGET)
# the same through the block-level entry point: _ (HashmapAugE 256 ShardAccount DepthBalanceInfo) = ShardAccounts
holder = Builder().store_bit(1).store_ref(root).end_cell()
t_sa = timed(lambda: ShardAccounts.deserialize(holder.begin_parse()), BUDGET)

assert t_aug is not None and t_sa is not None, (
    f'a {len(boc)}-byte bag of cells kept the augmented-dictionary parser busy for more than {BUDGET} s '
    f'(load_hashmap_aug finished: {t_aug is not None}, ShardAccounts.deserialize finished: {t_sa is not None}): '
    'the shared sub-DAG is re-traversed once per path')
print('ok')
sys.exit(0)

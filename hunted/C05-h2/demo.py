"""C05 finding 2: a well-formed bag of cells held in a bytes-like object other than `bytes` cannot be parsed.

Boc.__init__ treats everything that is not an instance of `bytes` as TEXT and calls bytes.fromhex() on it, so the very
same well-formed encoding is parsed when it is a `bytes` but raises TypeError when it is a bytearray (what socket /
file readinto / Cell.to_boc's own internal buffer produce), a memoryview slice of a larger buffer, an mmap or an
array('B').  Cell.from_boc / Cell.one_from_boc / Slice.one_from_boc are annotated `data: typing.Any`.
"""
import array
import mmap
from pytoniq_core import Cell, Slice, begin_cell

root = begin_cell().store_uint(0xCAFE, 16).store_ref(begin_cell().store_uint(5, 3).end_cell()).end_cell()
failures = []
for opts in (dict(), dict(has_idx=True, hash_crc32=True, has_cache_bits=True)):
    data = root.to_boc(**opts)
    assert Cell.one_from_boc(data).hash == root.hash           # control: bytes form parses
    mm = mmap.mmap(-1, len(data)); mm.write(data)
    forms = {
        'bytearray': bytearray(data),
        'memoryview(bytes)': memoryview(data),
        'memoryview slice of a larger buffer': memoryview(b'\x00' * 3 + data + b'\x00' * 2)[3:-2],
        'array.array("B")': array.array('B', data),
        'mmap': mm,
    }
    for name, obj in forms.items():
        assert bytes(obj) == data
        for fn in (Cell.from_boc, Cell.one_from_boc, Slice.one_from_boc):
            try:
                r = fn(obj)
                r = r[0] if isinstance(r, list) else r
                r = r if isinstance(r, Cell) else r.to_cell()
                if r.hash != root.hash:
                    failures.append('%s(%s): wrong cell %r' % (fn.__qualname__, name, r))
            except Exception as e:
                failures.append('%s(%s) %s: %s: %s' % (fn.__qualname__, name, opts, type(e).__name__, e))

assert not failures, 'well-formed bags were not parsed:\n  ' + '\n  '.join(failures)
print('ok')

"""HighloadWalletData (wallet-data wrapper) loses its old_queries dictionary on serialisation,
and its parser cannot return the entries of a dictionary that is present."""
from pytoniq_core.boc import Builder, Address, HashMap
from pytoniq_core.tlb.block import CurrencyCollection
from pytoniq_core.tlb.transaction import MessageAny, InternalMsgInfo
from pytoniq_core.tlb.custom.wallet import HighloadWalletData, WalletMessage

pk = bytes(range(32))
dest = Address((0, b'\x22' * 32))
info = InternalMsgInfo(True, False, False, None, dest, CurrencyCollection(5), 0, 0, 0, 0)
msg = MessageAny(info, None, Builder().store_uint(0xCAFE, 16).end_cell())
query_id = 0x1122334455667788
data = HighloadWalletData(wallet_id=1, last_cleaned=2, public_key=pk,
                          old_queries={query_id: WalletMessage(send_mode=3, message=msg)})
cell = data.serialize()

# independent reading of
#   highload_wallet_data#_ wallet_id:uint32 last_cleaned:uint64 public_key:bits256 old_queries:(HashmapE 64 WalletMessage)
s = cell.begin_parse()
assert s.load_uint(32) == 1 and s.load_uint(64) == 2 and s.load_bytes(32) == pk
has_dict = s.load_bit()
assert has_dict == 1 and len(cell.refs) == 1, \
    f'serialize() dropped old_queries: HashmapE bit = {has_dict}, refs = {len(cell.refs)} (one entry was given)'

# the dictionary root must hold the one entry: key = query_id, value = send_mode:uint8 message:^MessageAny
entries = HashMap.parse(cell.refs[0].begin_parse(), 64)
assert list(entries) == [query_id]
v = entries[query_id]
assert v.load_uint(8) == 3 and v.load_ref().hash == msg.serialize().hash

# and the library's own parser must give the same wallet data back
back = HighloadWalletData.deserialize(cell.begin_parse())
assert back.old_queries is not None and list(back.old_queries) == [query_id], f'parser returned old_queries={back.old_queries!r}'
wm = back.old_queries[query_id]
assert wm is not None, 'parser returned None for the stored WalletMessage (WalletMessage.deserialize is a stub)'
assert wm.send_mode == 3 and wm.message.serialize().hash == msg.serialize().hash
print('ok')

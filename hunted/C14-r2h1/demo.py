# Property C14, words violated:
#   "For every constructor in the bundled lite-server, node and ADNL schemas whose field types the
#    library supports, and every well-typed value (... nested and polymorphic objects ...), the serialised
#    bytes equal the TL binary encoding ... and parsing them returns the same value"
#   (here: what the parser returns for a bytes field cannot be serialised again - the field, including its
#    length prefix, is silently left out, so the output is not a TL encoding of anything)
#
# A bytes field that holds several TL objects one after the other is how TON sends every prefixed query:
#   liteServer.query data:bytes          = liteServer.waitMasterchainSeqno ... ++ liteServer.getXxx ...
#   adnl.message.query query:bytes       = overlay.query overlay:int256      ++ tonNode.getXxx ...
# TlSchemas.deserialize parses such a field into a *list* of objects; TlSchemas.serialize, given that very
# value back, writes nothing at all for the field (no error).
import sys
from pytoniq_core.tl.generator import TlGenerator

s = TlGenerator.with_default_schemas().generate()
bad = 0


def check(title, outer, field, parts):
    global bad
    inner = b''.join(s.serialize(n, d) for n, d in parts)
    wire = s.serialize(outer[0], {**outer[1], field: inner})          # the caller concatenates: always worked
    value, used = s.deserialize(wire)
    print(f'--- {title}')
    print('wire          :', wire.hex())
    print('parsed value  :', value, '(consumed', used, 'of', len(wire), 'bytes)')
    try:
        again = s.serialize(value['@type'], value)
    except Exception as e:                                            # an explicit refusal would also be a failure to invert
        again = None
        print('re-serialise  : raised', type(e).__name__, e)
    else:
        print('re-serialised :', again.hex())
    if again != wire:
        print('EXPECTED the same', len(wire), 'bytes back; GOT', None if again is None else len(again), 'bytes')
        bad += 1
        return
    value2, used2 = s.deserialize(again)
    if value2 != value or used2 != len(again):
        print('EXPECTED the same value after a second parse; GOT', value2)
        bad += 1


check('lite-server query with the waitMasterchainSeqno prefix',
      ('liteServer.query', {}), 'data',
      [('liteServer.waitMasterchainSeqno', {'seqno': 100, 'timeout_ms': 1000}),
       ('liteServer.getMasterchainInfo', {})])

check('ADNL query with the overlay prefix (three objects)',
      ('adnl.message.query', {'query_id': '11' * 32}), 'query',
      [('overlay.query', {'overlay': 'ab' * 32}),
       ('tonNode.query', {}),
       ('tonNode.getCapabilities', {})])

if bad:
    print(f'\nFAIL: {bad} value(s) returned by the parser are not serialised back to the bytes they came from')
    sys.exit(1)
print('\nOK')

# A `bytes` field whose content merely BEGINS with four bytes equal to a registered constructor id (but is not an encoding of
# that constructor) cannot be parsed back: the parser replaces it by a bogus object (data lost) or the whole parse raises.
from pytoniq_core.tl.generator import TlGenerator

s = TlGenerator.with_default_schemas().generate()
pong = s.get_by_name('tcp.pong').little_id()            # tcp.pong random_id:long
err = s.get_by_name('liteServer.error').little_id()     # liteServer.error code:int message:string
values = [
    pong + b'abc',                                       # 7 bytes: too short to be a tcp.pong (needs 12)
    bytes.fromhex('b5757299') + b'xyz',                  # starts like boolTrue, then arbitrary bytes
    err + bytes(4) + b'\x02\xff\xfe\x00',                # starts like liteServer.error, "message" is not UTF-8
    err + b'\x01',                                       # 5 bytes
]
problems = []
for v in values:
    ser = s.serialize('tonNode.data', {'data': v})       # tonNode.data data:bytes = tonNode.Data
    n = len(v)
    assert ser == s.get_by_name('tonNode.data').little_id() + bytes([n]) + v + b'\x00' * (-(n + 1) % 4)   # correct TL framing
    try:
        parsed, used = s.deserialize(ser)
    except Exception as e:
        problems.append(f'data={v.hex()}: parsing a correctly framed message raised {type(e).__name__}: {e}')
        continue
    if used != len(ser) or parsed.get('data') != v:
        problems.append(f'data={v.hex()}: parsed back as {parsed.get("data")!r}')
assert not problems, '\n'.join(problems)
print('ok')

"""Raw-form round trip fails when the workchain id is given as a bool (an int subclass: True == 1, False == 0,
both inside -128..127).  The friendly forms round-trip fine for the same address; only the raw form breaks,
because to_str() formats the workchain with str() ('True:...') instead of as an integer."""
from pytoniq_core import Address

acc = bytes(range(32))
for wc in (True, False):
    a = Address((wc, acc))
    assert a == Address((int(wc), acc)) and hash(a) == hash(Address((int(wc), acc)))
    # friendly forms are fine
    for url in (True, False):
        assert Address(a.to_str(is_url_safe=url)) == a
    raw = a.to_str(is_user_friendly=False)
    try:
        back = Address(raw)
    except Exception as e:
        raise AssertionError('raw form %r of workchain %r does not parse back: %s: %s' % (raw, wc, type(e).__name__, e))
    assert back == a and hash(back) == hash(a), 'raw round trip changed the address'
print('ok')

"""A serialized tree with exotic cells can only be parsed from an immutable `bytes` object: the same bag of cells held in
a bytearray, a memoryview, an array.array('B') or an mmap (what socket.recv_into / file mapping / struct code hands
out) makes Cell.one_from_boc / Cell.from_boc / Slice.one_from_boc / Boc(...) die with
"TypeError: fromhex() argument must be str, not bytearray": Boc.__init__ treats everything that is not exactly `bytes`
as a hex / base64 *text*.
"""
import array
import mmap
import os
import tempfile

from pytoniq_core.boc import Builder, Cell, Slice
from pytoniq_core.boc.deserialize import Boc


def build(data: bytes, refs=(), type_=-1):
    b = Builder(type_=type_).store_bytes(data)
    for r in refs:
        b.store_ref(r)
    return b.end_cell()


pruned = build(bytes([1, 1]) + os.urandom(32) + (7).to_bytes(2, 'big'), type_=1)
lib = build(bytes([2]) + os.urandom(32), type_=2)
tree = build(b'state', [pruned, lib])
proof = build(bytes([3]) + tree.get_hash(0) + tree.get_depth(0).to_bytes(2, 'big'), [tree], type_=3)
boc = proof.to_boc()
assert Cell.one_from_boc(boc).hash == proof.hash          # bytes: fine
assert Cell.one_from_boc(boc.hex()).hash == proof.hash    # text: fine

with tempfile.TemporaryFile() as f:
    f.write(boc)
    f.flush()
    forms = {
        'bytearray': bytearray(boc),
        'memoryview': memoryview(boc),
        'memoryview of bytearray': memoryview(bytearray(boc)),
        "array.array('B')": array.array('B', boc),
        'mmap': mmap.mmap(f.fileno(), 0, access=mmap.ACCESS_READ),
    }
    problems = []
    for name, buf in forms.items():
        for fname, parse in (('Cell.one_from_boc', Cell.one_from_boc), ('Cell.from_boc', lambda d: Cell.from_boc(d)[0]),
                             ('Slice.one_from_boc', lambda d: Slice.one_from_boc(d).to_cell()),
                             ('Boc().deserialize', lambda d: Boc(d).deserialize()[0])):
            try:
                c = parse(buf)
                assert c.hash == proof.hash and c.refs[0].get_hash(0) == tree.get_hash(0) and c.level_mask.mask == 0
            except Exception as e:
                problems.append('%s(%s): %s: %s' % (fname, name, type(e).__name__, e))
assert not problems, 'a valid bag of cells with exotic cells cannot be parsed from bytes-like objects:\n  ' + '\n  '.join(problems)
print('ok')

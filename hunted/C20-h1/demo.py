"""AdnlChannel.encrypt / decrypt silently truncate a bytes-like plaintext whose items are wider than one byte."""
import hashlib
from pytoniq_core.crypto.ciphers import Client, Server, AdnlChannel

sa, sb = bytes(range(32)), bytes(range(1, 33))
ca, cb = Client(sa), Client(sb)
srv_a = Server('127.0.0.1', 1, ca.ed25519_public.encode())
srv_b = Server('127.0.0.1', 1, cb.ed25519_public.encode())
ida, idb = ca.get_key_id(), cb.get_key_id()
cha = AdnlChannel(ca, srv_b, ida, idb)
chb = AdnlChannel(cb, srv_a, idb, ida)

raw = bytes(range(64))
# control: plain bytes and a byte-wide memoryview work in both directions
for pt in (raw, bytearray(raw), memoryview(raw)):
    for x, y in ((cha, chb), (chb, cha)):
        p = x.encrypt(pt)
        assert y.decrypt(p[64:], p[32:64]) == raw

problems = []
views = {
    "memoryview.cast('I')": memoryview(raw).cast('I'),
    "memoryview.cast('Q')": memoryview(raw).cast('Q'),
    "memoryview.cast('B', (8, 8))": memoryview(raw).cast('B', (8, 8)),
}
for name, view in views.items():
    assert view.tobytes() == raw and view.nbytes == 64      # the plaintext IS these 64 bytes
    for d, (x, y) in (('A->B', (cha, chb)), ('B->A', (chb, cha))):
        try:
            packet = x.encrypt(view)                         # accepted today, no exception
        except (TypeError, ValueError, BufferError):
            continue                                         # a clean rejection would be acceptable too
        key_id, checksum, body = packet[:32], packet[32:64], packet[64:]
        plain = y.decrypt(body, checksum)
        if plain != raw:
            problems.append('%s %s: peer decrypts %d bytes, %d were encrypted' % (name, d, len(plain), len(raw)))
        if checksum != hashlib.sha256(plain).digest():
            problems.append('%s %s: packet checksum is not the SHA-256 of the plaintext the packet carries' % (name, d))
    # the same on the receiving side: a well-formed body handed over as a wide view
    packet = cha.encrypt(raw)
    if len(packet) % 4 == 0 and name.endswith("('I')"):
        try:
            plain = chb.decrypt(memoryview(packet[64:]).cast('I'), packet[32:64])
        except (TypeError, ValueError, BufferError):
            plain = raw
        if plain != raw:
            problems.append('decrypt(%s): returns %d of %d bytes' % (name, len(plain), len(raw)))

assert not problems, 'channel is not symmetric for wide-item plaintexts:\n  ' + '\n  '.join(problems)
print('ok')

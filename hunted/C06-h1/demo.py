"""A zero-length string is a string: store_string('') followed by other values must load back as ''.

load_string(0) / preload_string(0) treat the byte length 0 as "everything that is left", so the empty
string comes back as the REST of the cell and the following values can no longer be read.
(load_bytes(0) - the bytes twin of the same code path - correctly returns b''.)
"""
from pytoniq_core.boc.builder import Builder

values = ['', 'xyz']                       # two strings, 3 bytes in all: fits in a cell easily

b = Builder()
for v in values:
    b.store_string(v)
assert b.bits.tobytes() == b'xyz' and len(b.bits) == 24    # the bits written are right

s = b.end_cell().begin_parse()
got = []
for v in values:
    n = len(v.encode())                    # the reader knows the byte length of each field (0, then 3)
    peek = s.preload_string(n)
    try:
        read = s.load_string(n)
    except Exception as e:                 # second read underflows: the first one swallowed everything
        read = f'<{type(e).__name__}: {e}>'
    got.append((peek, read))

# control: the same sequence as bytes behaves
sb = Builder().store_bytes(b'').store_bytes(b'xyz').end_cell().begin_parse()
assert (sb.load_bytes(0), sb.load_bytes(3), sb.remaining_bits) == (b'', b'xyz', 0)

assert got == [('', ''), ('xyz', 'xyz')] and s.remaining_bits == 0, \
    f"strings {values!r} stored, but (peek, read) pairs loaded back were {got!r}: " \
    f"load_string(0)/preload_string(0) return the whole rest of the slice instead of ''"
print('ok')

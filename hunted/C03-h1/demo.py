"""C03 finding 1: the raw-bytes form of a serialised bag of cells is only accepted as an exact `bytes` object.

The same serialisation handed over as another raw-bytes object (bytearray, memoryview, array('B'), mmap ...) is
sent down the *text* path of Boc.__init__ (bytes.fromhex(data)) and dies with a TypeError, through all three
entry points (Cell / Slice / Builder), for every option combination.
"""
import array
import sys

from pytoniq_core.boc import Cell, Slice, Builder
from pytoniq_core.boc.tvm_bitarray import TvmBitarray


def cell(bits, refs=()):
    return Cell(TvmBitarray(1023, bits), list(refs))


shared = cell('1' * 9)
root = cell('1011', [shared, cell('0', [shared, cell('111')])])

OPTS = [dict(has_idx=i, hash_crc32=c, has_cache_bits=k)
        for i in (False, True) for c in (False, True) for k in (False, True) if i or not k]   # the 6 valid ones
ENTRY = {
    'Cell.one_from_boc': lambda d: Cell.one_from_boc(d),
    'Cell.from_boc': lambda d: Cell.from_boc(d)[0],
    'Slice.one_from_boc': lambda d: Slice.one_from_boc(d).to_cell(),
    'Builder.one_from_boc': lambda d: Builder.one_from_boc(d).end_cell(),
}
FORMS = {
    'bytes': bytes,                       # control: works
    'bytearray': bytearray,
    'memoryview': memoryview,
    "array('B')": lambda raw: array.array('B', raw),
}

failures = []
for o in OPTS:
    raw = root.to_boc(**o)
    for fname, form in FORMS.items():
        for ename, entry in ENTRY.items():
            try:
                got = entry(form(raw))
                if got.hash != root.hash:
                    failures.append((fname, ename, o, 'different hash'))
            except Exception as e:
                failures.append((fname, ename, o, '%s: %s' % (type(e).__name__, e)))

for f in failures[:6]:
    print(f)
print('%d failing (form, entry point, options) triples' % len(failures))
assert not failures, ('the raw-bytes form of a valid serialisation is not parsed when it is a bytes-like object '
                      'other than `bytes`: ' + str(failures[0]))
sys.exit(0)

"""C01 finding 1: a cell built from a little-endian bitarray reports a hash that is not the TON representation hash
of its bit string, and is unequal to the same cell obtained through any other route (builder, slice, copy of bits)."""
import hashlib

from bitarray import bitarray

from pytoniq_core.boc import Cell, Builder


def ton_hash_leaf(bits: str) -> bytes:
    n = len(bits)
    d2 = n // 8 + (n + 7) // 8
    s = bits
    if n % 8:
        s += '1'
        s += '0' * (-len(s) % 8)
    data = int(s, 2).to_bytes(len(s) // 8, 'big') if s else b''
    return hashlib.sha256(bytes([0, d2]) + data).digest()


failures = []
for bits in ['1', '101', '10000000', '1100101011', '0' * 15 + '1']:
    little = bitarray(bits, endian='little')      # the same bit string, other storage order inside bitarray
    assert little == bitarray(bits) and little.to01() == bits
    c = Cell(little, [])                          # route "built": Cell(bits: BitarrayLike, refs)
    via_builder = Builder().store_bits(bits).end_cell()
    via_slice = c.begin_parse().to_cell()         # route "converted from a slice"
    assert c.bits == via_builder.bits == via_slice.bits, 'all three hold the same bit string'
    assert via_builder.hash == ton_hash_leaf(bits), 'sanity: builder route is right'
    if c.hash != ton_hash_leaf(bits):
        failures.append(f'{bits}: Cell(little-endian bitarray).hash = {c.hash.hex()[:16]}.. '
                        f'but TON hash = {ton_hash_leaf(bits).hex()[:16]}..')
    if c != via_builder or c != via_slice or len({c: 1, via_builder: 2, via_slice: 3}) != 1:
        failures.append(f'{bits}: same bit string, no refs, but the cells are unequal / distinct dict keys '
                        f'(cell vs its own begin_parse().to_cell(): {c == via_slice})')

assert not failures, 'hash of a cell depends on the endianness of the bitarray it was built from:\n  ' + '\n  '.join(failures)
print('ok')

"""
C19 violation 2: the text form of a cell (str(cell) / print(cell), str(slice): NullCell.__str__ in
pytoniq_core/boc/deserialize.py and Slice.__str__) re-traverses - and re-prints - a shared sub-DAG once per
path.  For a bag of ~220 bytes with maximal sharing this is 2**40 steps, while the bytes form (to_boc),
hashing, copy and pickle of the same DAG are instantaneous.
"""
import pickle
import signal
import sys
import time

from pytoniq_core.boc import Cell, Builder

BUDGET = 1.0


class Timeout(Exception):
    pass


def on_alarm(*_):
    raise Timeout()


signal.signal(signal.SIGALRM, on_alarm)


def timed(fn, limit):
    signal.setitimer(signal.ITIMER_REAL, limit)
    start = time.perf_counter()
    try:
        fn()
        return time.perf_counter() - start
    except Timeout:
        return None
    finally:
        signal.setitimer(signal.ITIMER_REAL, 0)


def shared(levels: int) -> Cell:
    cell = Builder().store_uint(0xAB, 8).end_cell()
    for _ in range(levels):
        cell = Builder().store_uint(1, 8).store_ref(cell).store_ref(cell).end_cell()
    return Cell.one_from_boc(cell.to_boc())


for levels in (10, 12, 14, 16):
    root = shared(levels)
    out = []
    t = timed(lambda: out.append(len(str(root))), 30)
    print(f'{levels + 1} cells, {len(root.to_boc())} bytes: str(cell) takes {t:.4f} s and is {out[0]} characters long')

root = shared(40)
boc = root.to_boc()
print(f'41 distinct cells, 80 references, bag of cells of {len(boc)} bytes')
t_boc = timed(lambda: Cell.one_from_boc(root.to_boc(has_idx=True, hash_crc32=True)), BUDGET)
t_pickle = timed(lambda: pickle.loads(pickle.dumps(root)), BUDGET)
assert t_boc is not None and t_pickle is not None
print(f'bytes form round trip {t_boc:.4f} s, pickle round trip {t_pickle:.4f} s')

t_cell = timed(lambda: str(root), BUDGET)
t_slice = timed(lambda: str(root.begin_parse()), BUDGET)
assert t_cell is not None and t_slice is not None, (
    f'producing the text form of a DAG of 41 cells / 80 references ({len(boc)} bytes as a bag of cells) did not finish '
    f'in {BUDGET} s (str(cell) finished: {t_cell is not None}, str(slice) finished: {t_slice is not None}): '
    'the shared sub-DAG is re-traversed once per path')
print('ok')
sys.exit(0)

"""Snake strings between about 126 000 and 130 048 bytes are legal (chain depth <= 1023, the library's own cell depth
limit) but cannot be stored or loaded: store_snake_bytes and load_snake_bytes recurse once per cell and hit
Python's default recursion limit (1000) before the cell depth limit (1024).
"""
import sys
from pytoniq_core.boc.builder import Builder

assert sys.getrecursionlimit() == 1000, 'run with the default interpreter settings'
n = 127 * 1024                                   # 130 048 bytes = 1024 cells of 127 bytes, depth 1023
payload = bytes((i * 7 + 3) % 256 for i in range(n))

# the chain is a legal cell tree: build it by hand, tail first, with the primitive stores
cell = None
for off in range(n - 127, -1, -127):
    b = Builder().store_bytes(payload[off:off + 127])
    if cell is not None:
        b.store_ref(cell)
    cell = b.end_cell()
assert cell.get_depth() == 1023                  # accepted by Cell (CellError is raised from depth 1024 on)

problems = []
try:
    stored = Builder().store_snake_bytes(payload).end_cell()
    if stored.hash != cell.hash:
        problems.append('store_snake_bytes built a different cell tree')
except RecursionError as e:
    problems.append(f'store_snake_bytes({n} bytes): RecursionError: {e}')
try:
    back = cell.begin_parse().load_snake_bytes()
    if back != payload:
        problems.append('load_snake_bytes returned different bytes')
except RecursionError as e:
    problems.append(f'load_snake_bytes of the {n}-byte chain: RecursionError: {e}')

assert not problems, '; '.join(problems)
print('ok')

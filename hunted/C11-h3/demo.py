"""A single-bit change of a pruned branch's level-mask byte is accepted: the library does not check that a pruned
branch's data length fits its level mask, and reading the missing depth past the end of the data silently yields 0.

Run:  PYTHONPATH=<tree> python demo.py     (exit 0 = property holds, non-zero = violation)
"""
from pytoniq_core.boc import Cell, Builder
from pytoniq_core.proof.check_proof import check_proof, check_block_header_proof

leaf = Builder().store_uint(7, 8).end_cell()                         # a leaf: depth 0
mid = Builder().store_uint(1, 8).store_ref(leaf).end_cell()
root = Builder().store_uint(2, 8).store_ref(mid).store_ref(leaf).end_cell()


def pruned(mask):
    return Builder(type_=1).store_uint(1, 8).store_uint(mask, 8).store_bytes(leaf.hash).store_uint(0, 16).end_cell()


def proof_with(mask):
    body = (Builder().store_uint(2, 8)
            .store_ref(Builder().store_uint(1, 8).store_ref(pruned(mask)).end_cell()).store_ref(leaf).end_cell())
    cell = (Builder(type_=3).store_uint(3, 8).store_bytes(root.hash).store_uint(root.get_depth(0), 16)
            .store_ref(body).end_cell())
    return Cell.one_from_boc(cell.to_boc())                          # as a verifier receives it


honest = proof_with(1)
check_proof(honest, root.hash)
check_block_header_proof(honest[0], root.hash)

accepted = []
for bit in range(8):                                                 # all single-bit changes of the mask byte 0b00000001
    mask = 1 ^ (1 << bit)
    try:
        changed = proof_with(mask)
        assert changed.hash != honest.hash
        check_proof(changed, root.hash)
        check_block_header_proof(changed[0], root.hash)
    except Exception:
        continue
    accepted.append(f'mask {mask:#010b} (pruned branch of {len(changed[0][0][0].bits)} bits, '
                    f'{16 + bin(mask).count("1") * 272} needed)')

assert not accepted, 'VIOLATION: proofs with a changed pruned-branch level mask were accepted: ' + '; '.join(accepted)
print('ok: every changed level mask was rejected')

"""C01 finding 3: Cell and Slice keep the very bit array / ref list they are handed (no copy).  Reading from a Slice
constructed on a cell's bits consumes the "immutable" cell itself; afterwards the cell's cached hash is no longer the
hash of the cell (its bits / refs), a copy of the cell is unequal to the cell, and recomputed != cached."""
import hashlib

from bitarray import bitarray

from pytoniq_core.boc import Cell, Builder, Slice


def ton_hash(cell) -> bytes:
    bits = cell.bits.to01()
    n = len(bits)
    s = bits
    if n % 8:
        s += '1'
        s += '0' * (-len(s) % 8)
    data = int(s, 2).to_bytes(len(s) // 8, 'big') if s else b''
    h = bytes([len(cell.refs), n // 8 + (n + 7) // 8]) + data
    h += b''.join(r.get_depth().to_bytes(2, 'big') for r in cell.refs) + b''.join(r.hash for r in cell.refs)
    return hashlib.sha256(h).digest()


failures = []

# (a) public Slice constructor on the cell's own bits: reading from the slice eats the cell
leaf = Builder().store_uint(1, 1).end_cell()
cell = Builder().store_uint(0xABCD, 16).store_ref(leaf).end_cell()
assert cell.hash == ton_hash(cell)
s = Slice(cell.bits, cell.refs)          # same signature begin_parse() uses, but without its .copy()
assert s.load_uint(8) == 0xAB
if len(cell.bits) != 16 or cell.hash != ton_hash(cell) or cell.copy() != cell:
    failures.append(f'(a) after Slice(cell.bits, cell.refs).load_uint(8): cell has {len(cell.bits)} bits, '
                    f'hash is TON hash of its content: {cell.hash == ton_hash(cell)}, cell.copy() == cell: {cell.copy() == cell}')

# (b) Cell keeps the caller's bitarray and list: the caller going on to use its own objects changes the cell
bits, refs = bitarray('1010'), []
c = Cell(bits, refs)
assert c.hash == ton_hash(c)
bits.append(1)            # the caller's own objects, not the cell's
refs.append(leaf)
if c.hash != ton_hash(c) or c.hash != c.calculate_representation_hash() or c.copy() != c:
    failures.append(f'(b) Cell(bits, refs) then caller appends to its own bits/refs: cell now has {len(c.bits)} bits, '
                    f'{len(c.refs)} refs; hash == TON hash: {c.hash == ton_hash(c)}; '
                    f'cached == recomputed: {c.hash == c.calculate_representation_hash()}; copy == cell: {c.copy() == c}')

assert not failures, 'cell is not isolated from the objects it was constructed from:\n  ' + '\n  '.join(failures)
print('ok')

# Property C09, violated words:
#   "Keys that do not fit the declared width - too large or negative - are rejected rather than
#    silently aliased to another key."
#   (quantified over "all key forms (int, bytes, bit string, address, hashed string)")
#
# HashMap.set() converts every key form to an integer first and only then checks the integer's bit_length()
# against the width.  A key that is WIDER than the dictionary but happens to begin with zero bits therefore
# passes the check, loses its leading bits and lands on (overwrites) a different, shorter key.
import hashlib
import sys

from pytoniq_core import HashMap

failures = []


def expect_rejected(label, width, first, second, **kw):
    """`first` is a proper key of `width` bits, `second` is a key that is wider than `width` bits."""
    hm = HashMap(width).with_uint_values(8)
    if first is not None:
        hm.set(first, 1, **kw)
    try:
        hm.set(second, 2, **kw)
    except Exception as e:  # any refusal is fine
        print(f'ok      {label}: refused ({type(e).__name__}: {e})')
        return
    cell = hm.serialize()
    parsed = cell.begin_parse().load_hashmap(width, key_deserializer=lambda b: b, value_deserializer=lambda s: s.load_uint(8))
    print(f'FAILED  {label}: expected the {second!r} key to be refused by a {width}-bit dictionary;')
    print(f'        it was accepted, the dictionary now parses back as {parsed}')
    failures.append(label)


# 1. bit string: a 5-bit key in a 4-bit dictionary overwrites the 4-bit key '0001'
expect_rejected("bit string '00001' in a 4-bit map", 4, '0001', '00001')
# control: the same over-long string with a leading one IS refused, so acceptance depends on the data
expect_rejected("bit string '10001' in a 4-bit map (control)", 4, '0001', '10001')

# 2. bytes: a 16-bit key in an 8-bit dictionary overwrites the 8-bit key 07
expect_rejected("bytes 00 07 (16 bits) in an 8-bit map", 8, b'\x07', b'\x00\x07')
expect_rejected("bytes 01 07 (16 bits) in an 8-bit map (control)", 8, b'\x07', b'\x01\x07')

# 3. hashed string: a sha256 key has 256 bits and cannot fit a 255-bit dictionary; whether it is refused
#    depends on the first bit of the digest ('k1' -> 0..., 'k0' -> 1...)
assert hashlib.sha256(b'k1').digest()[0] >> 7 == 0 and hashlib.sha256(b'k0').digest()[0] >> 7 == 1
expect_rejected("hashed string 'k1' (256-bit digest) in a 255-bit map", 255, None, 'k1', hash_key=True)
expect_rejected("hashed string 'k0' (256-bit digest) in a 255-bit map (control)", 255, None, 'k0', hash_key=True)

# 4. two different keys, one entry: silent aliasing seen from the caller's side
hm = HashMap(4).with_uint_values(8)
hm.set('0001', 1).set('00001', 2).set('000000001', 3)
print(f'three set() calls with three different bit strings left {len(hm.map)} entry/entries: {hm.map}')

if failures:
    print(f'\n{len(failures)} over-wide key(s) were accepted and aliased to another key')
    sys.exit(1)
print('all over-wide keys were refused')

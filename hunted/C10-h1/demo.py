"""Hashmap with key length n = 0 (spec-valid: hm_edge#_ {n:#} ... , TVM dictionary ops accept 0 <= n <= 1023).

The only possible tree is one cell: an empty label (hml_short$0 with len = 0, i.e. bits '00', the choice
TON's append_dict_label makes for len = 0) followed by the value.  The (label length, remaining key
length, same-bit) triple is (0, 0, True).

  * serializer: HashMap(0) holding the single possible key 0 cannot be serialised (ValueError)
  * plain parser: returns NO leaf for that tree (the leaf is silently dropped)
  * augmented parser: raises ValueError on the analogous HashmapAug 0 tree
"""
import sys
from pytoniq_core import HashMap, Builder
from pytoniq_core.boc.hashmap.parse import parse_hashmap, parse_hashmap_aug

problems = []

# the canonical Hashmap 0 (uint8) holding value 7:  hml_short len=0 -> '0' '0', then the leaf value
expected = Builder().store_bits('00').store_uint(7, 8).end_cell()

# --- serializer -------------------------------------------------------------------------------
try:
    hm = HashMap(0, value_serializer=lambda v, b: b.store_uint(v, 8))
    hm.set_int_key(0, 7)          # accepted: 0 is the (only) 0-bit key
    cell = hm.serialize()
    if cell.hash != expected.hash:
        problems.append(f'serializer: HashMap(0) produced {cell!r}, canonical tree is {expected!r}')
except Exception as e:
    problems.append(f'serializer: HashMap(0).set_int_key(0, 7).serialize() raised {type(e).__name__}: {e}')

# --- plain parser -----------------------------------------------------------------------------
try:
    leaves = parse_hashmap(expected.begin_parse(), 0)
    vals = [s.load_uint(8) for s in leaves.values()]
    if vals != [7]:
        problems.append(f'plain parser: parse_hashmap(<Hashmap 0 with one leaf>, 0) returned {leaves!r}; the leaf (value 7) is missing')
except Exception as e:
    problems.append(f'plain parser: parse_hashmap raised {type(e).__name__}: {e}')

try:
    res = expected.begin_parse().load_hashmap(0, key_deserializer=lambda bits: bits, value_deserializer=lambda s: s.load_uint(8))
    if list(res.values()) != [7]:
        problems.append(f'plain parser: Slice.load_hashmap(0, ...) returned {res!r}; the leaf (value 7) is missing')
except Exception as e:
    problems.append(f'plain parser: Slice.load_hashmap(0) raised {type(e).__name__}: {e}')

# --- augmented parser -------------------------------------------------------------------------
# HashmapAug 0 (uint8) (uint4): empty label, ahmn_leaf extra:Y value:X
aug = Builder().store_bits('00').store_uint(3, 4).store_uint(7, 8).end_cell()
try:
    res = parse_hashmap_aug(aug.begin_parse(), 0, lambda s: s.load_uint(8), lambda s: s.load_uint(4))
    d, extras = res
    if list(d.values()) != [7] or extras != [3]:
        problems.append(f'aug parser: returned {res!r}, expected one leaf 7 with extra 3')
except Exception as e:
    problems.append(f'aug parser: parse_hashmap_aug(<HashmapAug 0 with one leaf>, 0, ...) raised {type(e).__name__}: {e}')

for p in problems:
    print('VIOLATION:', p)
assert not problems, f'{len(problems)} violation(s) for the spec-valid key length 0, see above'
print('ok')

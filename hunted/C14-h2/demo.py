# bytes-like values (bytearray, memoryview) for `bytes` / `int256` fields are silently serialised as NOTHING:
# the output is not a TL encoding at all (field missing, framing of everything after it shifted), and no error is raised.
from pytoniq_core.tl.generator import TlGenerator, TlError

s = TlGenerator.with_default_schemas().generate()
payload = b'\x00\x01\x02hello'                   # does not start with any constructor id
qid = bytes(range(32))
reference = s.serialize('adnl.message.answer', {'query_id': qid.hex(), 'answer': payload})
assert reference == s.get_by_name('adnl.message.answer').little_id() + qid + b'\x08' + payload + b'\x00' * 3   # TL framing
assert s.deserialize(reference) == ({'@type': 'adnl.message.answer', 'query_id': qid.hex(), 'answer': payload}, len(reference))

problems = []
for form in (bytearray, memoryview):
    try:
        got = s.serialize('adnl.message.answer', {'query_id': qid.hex(), 'answer': form(payload)})
    except (TypeError, ValueError, TlError):
        continue                                   # a loud rejection would at least not corrupt the stream
    if got != reference:
        problems.append(f'answer:bytes given as {form.__name__}: got {got.hex()} ({len(got)} bytes) instead of {len(reference)} bytes; '
                        f'parses back as {s.deserialize(got)[0]}')
assert not problems, '\n'.join(problems)
print('ok')

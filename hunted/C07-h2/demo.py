"""TvmBitarray.extend sizes its argument with len(x) instead of with the number of bits it will append.

Builder.store_bits(bits: Union[str, Iterable[int], TvmBitarray]) forwards to it.  Two consequences:
 (a) iterables without a length (generators, iterators, map objects) are refused with TypeError although the bits fit
     - bitarray.extend itself accepts them;
 (b) bit strings with the separators bitarray allows ('1111 0000', '1111_0000', trailing newline) are counted with
     their separators, so near the end of the cell a store that fits is refused with 'bitstring overflow'.
"""
import sys

from bitarray import bitarray
from pytoniq_core import Builder

failures = []


def expect_stored(label, fill, make_arg, expected_bits):
    b = Builder().store_bits('1' * fill)
    assert 1023 - b.used_bits >= len(expected_bits), 'test bug: would not fit'
    # the plain bitarray the builder is built on accepts this argument and appends exactly expected_bits
    plain = bitarray()
    plain.extend(make_arg())
    assert plain.to01() == expected_bits
    try:
        b.store_bits(make_arg())
    except Exception as e:
        failures.append(f'{label} at fill {fill}: {len(expected_bits)} bits fit into {1023 - fill} free, '
                        f'refused with {type(e).__name__}: {e}')
        return
    if b.bits.to01() != '1' * fill + expected_bits:
        failures.append(f'{label} at fill {fill}: wrong bits stored')


# (a) one-shot iterables, empty builder and last free bits
for fill in (0, 1020):
    expect_stored('generator', fill, lambda: (x for x in (1, 0, 1)), '101')
    expect_stored('list iterator', fill, lambda: iter([1, 0, 1]), '101')
    expect_stored('map object', fill, lambda: map(int, '101'), '101')
# (b) separators accepted by bitarray in bit strings
expect_stored("'1111 0000'", 1015, lambda: '1111 0000', '11110000')
expect_stored("'1111_0000'", 1015, lambda: '1111_0000', '11110000')
expect_stored("'101\\n'", 1020, lambda: '101\n', '101')
# control: the same strings are accepted with one more free bit, i.e. only the count is wrong
expect_stored("control '1111 0000'", 1014, lambda: '1111 0000', '11110000')

if failures:
    print('store_bits refuses stores that fit the remaining capacity:')
    for f in failures:
        print('  -', f)
    sys.exit(1)
print('ok')

# Property C06, words violated:
#   "... and a non-consuming peek returns what the consuming read would."
#
# Every preload_* of Slice slices the remaining bits with self.bits[:length] and never checks that
# `length` bits remain.  When the slice is shorter than the field, the consuming read (load_*) raises
# TvmBitarrayUnderflowException, but the peek silently returns a value computed from the truncated
# bits (a wrong integer, short bytes, an Address whose hash part is zero-padded, ...).
#
# Run:  cd /tmp/h2/wt-C06 && PYTHONPATH=/tmp/h2/wt-C06 /venv/bin/python /tmp/h2/out/C06/1/demo.py
import sys

from pytoniq_core import Builder, Slice, Address

H = bytes(range(1, 33))


def short(bits: str):
    return lambda: Builder().store_bits(bits).end_cell().begin_parse()


def truncated_addr_std():
    full = Builder().store_address(Address((0, H))).end_cell().begin_parse()
    return Slice(full.bits[:200], [])  # 267 bits are needed, 200 are there


CASES = [
    # (name, fresh slice factory, args)
    ('uint', short('1111'), (8,)),                      # 4 bits left, 8 asked
    ('int', short('1111'), (8,)),
    ('bits', short('1111'), (8,)),
    ('bytes', short('1111'), (1,)),
    ('string', short('0110000101100010'), (5,)),        # 'ab' left, 5 bytes asked
    ('coins', short('0010' + '1111'), ()),              # length nibble says 2 bytes, 4 bits follow
    ('var_uint', short('0010' + '1111'), (4,)),
    ('var_int', short('0010' + '1111'), (4,)),
    ('address', truncated_addr_std, ()),                # addr_std cut after 200 bits
    ('address', short('01' + '000001000' + '1111'), ()),  # addr_extern, len = 8, only 4 bits follow
]


def run(f):
    try:
        return 'value', f()
    except Exception as e:  # noqa
        return 'raise', type(e).__name__


bad = 0
for name, make, args in CASES:
    s_load, s_peek = make(), make()
    consuming = run(lambda: getattr(s_load, 'load_' + name)(*args))
    peek = run(lambda: getattr(s_peek, 'preload_' + name)(*args))
    same = (consuming[0] == peek[0] == 'raise') or (consuming[0] == peek[0] == 'value' and consuming[1] == peek[1])
    print(f'{"ok  " if same else "FAIL"} {name:9} remaining={make().remaining_bits:3} args={args}: '
          f'load_{name} -> {consuming[0]} {consuming[1]!r};  preload_{name} -> {peek[0]} {peek[1]!r}')
    if not same:
        bad += 1

print()
if bad:
    print(f'{bad} peeks returned a value although the consuming read of the same slice raises '
          f'(expected: the peek refuses exactly what the read refuses)')
    sys.exit(1)
print('every peek agrees with the consuming read')

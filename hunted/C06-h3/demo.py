"""A rejected store leaves part of the value in the builder, so the values stored afterwards no longer round-trip.

The composite stores (store_coins, store_var_uint, store_var_int, store_maybe_ref, store_dict, store_address,
store_snake_bytes) write their first field before they know whether the rest fits.  When the rest is rejected
('bitstring overflow' / 'builder refs overflow' / OverflowError) the first field stays in the caller's builder.
"""
from pytoniq_core.boc.builder import Builder
from pytoniq_core.boc.cell import Cell
from pytoniq_core.boc.address import Address

leaf = Cell.empty()
problems = []


def attempt(name, make, bad_store):
    b = make()
    before = (b.bits.to01(), list(b.refs))
    try:
        bad_store(b)
    except Exception:
        pass
    else:
        raise SystemExit(f'{name}: expected the store to be rejected')
    after = (b.bits.to01(), list(b.refs))
    if after != before:
        problems.append(f'{name}: {len(after[0]) - len(before[0])} stray bits left behind')


nearly_full = lambda: Builder().store_uint(0, 1000)
four_refs = lambda: Builder().store_ref(leaf).store_ref(leaf).store_ref(leaf).store_ref(leaf)
attempt('store_coins (does not fit)', nearly_full, lambda b: b.store_coins(2 ** 100))
attempt('store_coins(-1)', Builder, lambda b: b.store_coins(-1))
attempt('store_var_int (does not fit)', nearly_full, lambda b: b.store_var_int(-2 ** 100, 5))
attempt('store_maybe_ref (5th ref)', four_refs, lambda b: b.store_maybe_ref(leaf))
attempt('store_dict (5th ref)', four_refs, lambda b: b.store_dict(leaf))
attempt('store_address (does not fit)', nearly_full, lambda b: b.store_address(Address((0, bytes(32)))))
attempt('store_snake_bytes (5th ref)', four_refs, lambda b: b.store_snake_bytes(b'a' * 300))

# the consequence, end to end: the values that WERE stored fit in a cell, but do not load back
b = Builder().store_uint(0, 1000)
try:
    b.store_coins(2 ** 100)            # 4 + 104 bits: does not fit, rejected
except Exception:
    b.store_coins(5)                   # the caller falls back to a value that fits (4 + 8 bits)
s = b.end_cell().begin_parse()
try:
    got = (s.load_uint(1000), s.load_coins(), s.remaining_bits)
except Exception as e:
    got = f'{type(e).__name__}: {e}'
if got != (0, 5, 0):
    problems.append(f'stored uint1000=0, coins=5 after a rejected store_coins; loaded back {got} (expected (0, 5, 0))')

assert not problems, 'rejected stores modified the builder: ' + '; '.join(problems)
print('ok')

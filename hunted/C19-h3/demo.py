"""
C19 violation 3: the plain dictionary parser (parse_hashmap: Slice.load_hashmap / load_dict / preload_dict,
HashMap.parse, HashMap.from_cell) only memoises shared subtrees that yield NO leaf.  A shared subtree that does
reach a leaf is walked again once per path: a 214-byte bag of cells (40 forks with both references to the same
child, one leaf) is a well-formed Hashmap 40 that makes the parser build 2**40 entries.
"""
import signal
import sys
import time

from pytoniq_core.boc import Cell, Builder
from pytoniq_core.boc.hashmap.hashmap import HashMap

BUDGET = 1.0


class Timeout(Exception):
    pass


def on_alarm(*_):
    raise Timeout()


signal.signal(signal.SIGALRM, on_alarm)


def timed(fn, limit):
    signal.setitimer(signal.ITIMER_REAL, limit)
    start = time.perf_counter()
    try:
        fn()
        return time.perf_counter() - start
    except Timeout:
        return None
    finally:
        signal.setitimer(signal.ITIMER_REAL, 0)


def shared_dict(levels: int) -> Cell:
    cell = Builder().store_bits('00').store_uint(0xAB, 8).end_cell()  # leaf: empty label, 8-bit value
    for _ in range(levels):
        cell = Builder().store_bits('00').store_ref(cell).store_ref(cell).end_cell()  # fork: empty label
    return Cell.one_from_boc(cell.to_boc())


for levels in (8, 10, 12, 14):
    root = shared_dict(levels)
    t = timed(lambda: root.begin_parse().load_hashmap(levels), 30)
    print(f'Hashmap {levels}: {levels + 1} cells, {len(root.to_boc())} bytes: load_hashmap {t:.4f} s')

root = shared_dict(40)
boc = root.to_boc()
holder = Builder().store_dict(root).end_cell()
print(f'Hashmap 40: 41 distinct cells, bag of cells of {len(boc)} bytes')
t1 = timed(lambda: root.begin_parse().load_hashmap(40), BUDGET)
t2 = timed(lambda: holder.begin_parse().load_dict(40), BUDGET)
t3 = timed(lambda: HashMap.from_cell(root, 40), BUDGET)
assert None not in (t1, t2, t3), (
    f'a {len(boc)}-byte bag of cells kept the dictionary parser busy for more than {BUDGET} s '
    f'(load_hashmap finished: {t1 is not None}, load_dict finished: {t2 is not None}, '
    f'HashMap.from_cell finished: {t3 is not None}): the shared sub-DAG is re-traversed once per path')
print('ok')
sys.exit(0)

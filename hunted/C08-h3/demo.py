"""Cell(bits, refs) keeps the caller's bit array and list instead of taking a snapshot.

Property: "After a cell is created its hash, data bits, references and serialisation never change, whatever sequence
of operations is later applied to slices, builders or copies derived from it, to the builder it came from, or to
other cells" (the statement explicitly includes "cells constructed directly from a plain bit array").
"""
from bitarray import bitarray
from pytoniq_core.boc import Cell, begin_cell


def attempt(f):
    try:
        return f()
    except Exception as e:  # a corrupted cell may not even serialise / parse any more
        return f'raises {type(e).__name__}: {e}'


def state(c):
    return {
        'hash': c.hash.hex(),
        'bits': c.bits.to01(),
        'refs': [r.hash.hex() for r in c.refs],
        'boc': c.to_boc().hex(),
        'repr': repr(c),
        'copy().hash': c.copy().hash.hex(),
        'begin_parse().to_cell().hash': c.begin_parse().to_cell().hash.hex(),
        'reparsed hash': attempt(lambda: Cell.one_from_boc(c.to_boc()).hash.hex()),
    }


leaf = begin_cell().store_uint(0xABCD, 16).end_cell()
problems = []

# (a) "the builder it came from": the cell is made from a builder's bits/refs, then the builder is written to
b = begin_cell().store_uint(0x1234567, 28).store_ref(leaf)
cell = Cell(b.bits, b.refs)
before = state(cell)
b.store_uint(0xFF, 8).store_ref(leaf)                 # ordinary operations on the builder
after = state(cell)
changed = [k for k in before if before[k] != after[k]]
if changed:
    problems.append(f'(a) writing to the builder changed the cell: {", ".join(changed)} '
                    f'({before["repr"]} -> {after["repr"]}, .hash unchanged, copy().hash differs: {after["hash"] != after["copy().hash"]})')

# (b) "other cells": a plain bit array and a list are used for one cell and then for the next one
bits, refs = bitarray('101'), []
first = Cell(bits, refs)
before = state(first)
refs.append(leaf)
bits.extend('0000')
second = Cell(bits, refs)                             # creating another cell
after = state(first)
changed = [k for k in before if before[k] != after[k]]
if changed:
    problems.append(f'(b) building a second cell from the same bit array / list changed the first: {", ".join(changed)} '
                    f'({before["repr"]} -> {after["repr"]})')

assert not problems, 'a cell changed after it was created: ' + ' | '.join(problems)
print('ok')

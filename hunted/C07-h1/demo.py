"""Builder.store_snake_bytes measures a bytes-like argument in ITEMS, not bytes.

A snake store always fits a builder that still has a free reference (the data spills into child cells), and
Builder.store_bytes accepts the very same buffers (array.array('H'), memoryview.cast('H')) and counts them in bytes.
store_snake_bytes compares len(value) (items) with available_bytes and slices value[:i] (items), so for buffers
whose items are wider than a byte it hands more bytes than fit to store_bytes and the store is refused.
"""
import array
import sys

from pytoniq_core import Builder

failures = []


def check(label, make_value):
    value = make_value()
    raw = memoryview(value).tobytes()
    # reference: the same bytes as a bytes object are accepted
    ref_cell = Builder().store_snake_bytes(raw).end_cell()
    assert ref_cell.begin_parse().load_snake_bytes() == raw
    # store_bytes accepts this argument form (and counts it in bytes) when it fits
    small = make_value(4)
    assert Builder().store_bytes(small).used_bits == memoryview(small).nbytes * 8
    try:
        cell = Builder().store_snake_bytes(value).end_cell()
    except Exception as e:
        failures.append(f'{label}: {len(raw)} bytes refused with {type(e).__name__}: {e}')
        return
    got = cell.begin_parse().load_snake_bytes()
    if got != raw:
        failures.append(f'{label}: stored data differs from the buffer contents')
    if len(cell.bits) > 1023:
        failures.append(f'{label}: cell with {len(cell.bits)} bits')


# 100 two-byte items = 200 bytes: len() == 100 <= 127 available bytes, so everything goes to store_bytes at once
check("array('H') x100 (200 bytes)", lambda n=100: array.array('H', [0x4142] * n))
# 200 two-byte items = 400 bytes: value[:127] is 127 items = 254 bytes
check("array('H') x200 (400 bytes)", lambda n=200: array.array('H', [0x4142] * n))
check("memoryview.cast('I') x64 (256 bytes)", lambda n=64: memoryview(bytes(i % 251 for i in range(n * 4))).cast('I'))
# the same with a part-filled builder:
b = Builder().store_uint(0, 8 * 100)          # 27 whole bytes left
try:
    v = array.array('H', [0x4142] * 20)       # 40 bytes: must spill 13 bytes into a child cell; len() == 20 <= 27
    c = b.store_snake_bytes(v).end_cell()
    s = c.begin_parse()
    s.skip_bits(800)
    assert s.load_snake_bytes() == v.tobytes()
except Exception as e:
    failures.append(f"part-filled builder, array('H') x20 (40 bytes): {type(e).__name__}: {e}")

if failures:
    print('store_snake_bytes refuses stores that fit:')
    for f in failures:
        print('  -', f)
    sys.exit(1)
print('ok')

# Property C07, words violated:
#   "A consuming read of more bits or references than remain ... raises an error and never returns fabricated or truncated data."
#
# VmCellSlice.deserialize (the reader of a slice value on a TVM stack: cell:^Cell st_bits:(## 10) end_bits:(## 10)
# st_ref:(#<= 4) end_ref:(#<= 4)) cuts the window [st_bits:end_bits] / [st_ref:end_ref] out of the referenced cell with plain
# Python slicing.  A window that reaches beyond what the cell holds (end_bits = 500 on an 8-bit cell, end_ref = 4 on a cell
# with no references, st_ref/end_ref = 5..7 that the `#<= 4` field cannot even hold) is not refused: the caller silently gets a
# shorter (or empty) slice than the one the encoding denotes.  The reference implementation rejects such a value
# (end_bits > cell size or end_ref > cell refs -> deserialisation fails).
import sys
from pytoniq_core import Builder, Slice
from pytoniq_core.tlb.vm_stack import VmStack

inner = Builder().store_uint(0xAB, 8).end_cell()          # 8 data bits, 0 references
failures = []


def stack_with_slice(st_bits, end_bits, st_ref, end_ref) -> Slice:
    # vm_stack#_ depth:1, rest:^(empty list), tos: vm_stk_slice#04 VmCellSlice
    return (Builder().store_uint(1, 24).store_ref(Builder().end_cell())
            .store_uint(4, 8)
            .store_ref(inner).store_uint(st_bits, 10).store_uint(end_bits, 10).store_uint(st_ref, 3).store_uint(end_ref, 3)
            .to_slice())


# control: an in-range window is read exactly
ok = VmStack.deserialize(stack_with_slice(0, 8, 0, 0))[0]
assert ok.remaining_bits == 8 and ok.load_uint(8) == 0xAB
ok = VmStack.deserialize(stack_with_slice(4, 8, 0, 0))[0]
assert ok.remaining_bits == 4 and ok.load_uint(4) == 0xB
print('control: in-range windows are read exactly')

for name, window, denoted in [
    ('end_bits 500 on an 8-bit cell', (0, 500, 0, 0), '500 bits'),
    ('st_bits 100, end_bits 500 on an 8-bit cell', (100, 500, 0, 0), '400 bits'),
    ('end_ref 4 on a cell without references', (0, 8, 0, 4), '4 refs'),
    ('st_ref 5, end_ref 7 (field is #<= 4)', (0, 8, 5, 7), 'nothing valid'),
]:
    try:
        s = VmStack.deserialize(stack_with_slice(*window))[0]
    except Exception as e:
        print(f'ok   {name}: refused with {type(e).__name__}: {e}')
        continue
    print(f'BAD  {name}: expected an error (the encoding denotes {denoted}); '
          f'got a slice with {s.remaining_bits} bits and {s.remaining_refs} refs: {s!r}')
    failures.append(name)

if failures:
    print(f'\n{len(failures)} out-of-bounds slice window(s) were returned truncated instead of raising')
    sys.exit(1)
print('all refused')

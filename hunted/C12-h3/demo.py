"""BORDERLINE (depends on whether an identifier with hashes of the wrong length counts as a "block identifier").
check_block_signatures signs/verifies  magic + root_hash + file_hash  without checking that both hashes are 32 bytes,
so the boundary between them is not authenticated: signatures made over block X = (R, F) are accepted for the different
identifier Y = (R[:31], R[31:] + F)  (X != Y by BlockIdExt.__eq__), and for (R + F, b'').
Property: "accepted only if it consists of valid Ed25519 signatures over that block's identifier".
"""
import hashlib
from nacl.signing import SigningKey
from pytoniq_core.proof.check_proof import check_block_signatures, calculate_node_id_short
from pytoniq_core.tlb.config import ValidatorDescr, SigPubKey
from pytoniq_core.tl.block import BlockIdExt

keys = [SigningKey(hashlib.sha256(b'k' + bytes([i])).digest()) for i in range(4)]
nodes = [ValidatorDescr('validator', SigPubKey(k.verify_key.encode()), 1) for k in keys]
R, F = bytes(range(32)), bytes(range(100, 132))
X = BlockIdExt(-1, None, 5, R, F)
sigs = [{'node_id_short': calculate_node_id_short(k.verify_key.encode()).hex(),
         'signature': k.sign(b'pn\x0b\xc5' + R + F).signature} for k in keys[:3]]   # the validators signed X, nothing else


def accepted(blk):
    try:
        check_block_signatures(nodes, sigs, blk)
        return True
    except Exception:
        return False


assert accepted(X)
wrong = []
for Y in (BlockIdExt(-1, None, 5, (R + F)[:31], (R + F)[31:]), BlockIdExt(-1, None, 5, R + F, b''), BlockIdExt(-1, None, 5, b'', R + F)):
    assert not (Y == X)
    if accepted(Y):
        wrong.append(f'root_hash of {len(Y.root_hash)} bytes / file_hash of {len(Y.file_hash)} bytes')
assert not wrong, 'signatures over block X accepted for a different identifier: ' + '; '.join(wrong)
print('ok')

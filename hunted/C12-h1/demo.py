"""A genuine supermajority signature set is rejected when the 64 signature bytes (or the 32 public-key bytes)
arrive as a bytes-like object other than `bytes` (bytearray, memoryview), although the block hashes in the very
same call may be bytes-like.  Property: "Every signature set that meets the condition is accepted."
"""
import hashlib
from nacl.signing import SigningKey
from pytoniq_core.proof.check_proof import check_block_signatures, calculate_node_id_short, ProofError
from pytoniq_core.tlb.config import ValidatorDescr, SigPubKey
from pytoniq_core.tl.block import BlockIdExt

keys = [SigningKey(hashlib.sha256(b'k' + bytes([i])).digest()) for i in range(4)]
nodes = [ValidatorDescr('validator', SigPubKey(k.verify_key.encode()), 1) for k in keys]
blk = BlockIdExt(-1, None, 5, b'\x11' * 32, b'\x22' * 32)
to_sign = b'pn\x0b\xc5' + blk.root_hash + blk.file_hash


def sigs(conv, signers=keys[:3]):
    return [{'node_id_short': calculate_node_id_short(k.verify_key.encode()).hex(),
             'signature': conv(k.sign(to_sign).signature)} for k in signers]


def outcome(nodes_, sigs_, blk_):
    try:
        check_block_signatures(nodes_, sigs_, blk_)
        return 'accepted'
    except Exception as e:
        return f'rejected ({type(e).__module__}.{type(e).__name__}: {e})'


# control: plain bytes, 3 of 4 equal weights -> accepted; bytes-like block hashes are fine too
assert outcome(nodes, sigs(bytes), blk) == 'accepted'
assert outcome(nodes, sigs(bytes), BlockIdExt(-1, None, 5, bytearray(b'\x11' * 32), memoryview(b'\x22' * 32))) == 'accepted'

problems = []
for name, conv in (('bytearray', bytearray), ('memoryview', memoryview)):
    r = outcome(nodes, sigs(conv), blk)
    if r != 'accepted':
        problems.append(f'signatures as {name}: {r}')
    nodes2 = [ValidatorDescr('validator', SigPubKey(conv(k.verify_key.encode())), 1) for k in keys]
    r = outcome(nodes2, sigs(bytes), blk)
    if r != 'accepted':
        problems.append(f'public keys as {name}: {r}')
    # a fix must still reject: a corrupted bytes-like signature, and an insufficient set
    bad = sigs(conv)
    bad[1]['signature'] = conv(bytes(64))
    assert outcome(nodes, bad, blk).startswith('rejected'), 'invalid signature accepted'
    assert outcome(nodes, sigs(conv, keys[:2]), blk).startswith('rejected'), '2 of 4 accepted'

assert not problems, 'valid 3-of-4 signature set rejected:\n  ' + '\n  '.join(problems)
print('ok')

"""crc16 / crc32c on one-byte-per-item bytes-like objects that do not iterate as ints:
mmap.mmap (iterates as length-1 bytes), memoryview(b).cast('c') (same) and a 2-D
memoryview.cast('B', shape) (iteration not implemented). All hold a plain byte string,
all are accepted by bytes(), hashlib, zlib.crc32 ... but the library raises TypeError /
NotImplementedError instead of returning the checksum."""
import mmap
from pytoniq_core.crypto.crc import crc16, crc32c

raw = b'123456789'
CHECK16 = bytes.fromhex('31c3')        # CRC-16/XMODEM check value of b'123456789'
CHECK32 = bytes.fromhex('e3069283')    # CRC-32C check value of b'123456789' (big-endian)
assert crc16(raw) == CHECK16 and crc32c(raw, 'big') == CHECK32 and crc32c(raw) == CHECK32[::-1]

m = mmap.mmap(-1, len(raw)); m[:] = raw
inputs = {
    "mmap.mmap holding b'123456789'": m,
    "memoryview(raw).cast('c')": memoryview(raw).cast('c'),
    "memoryview(raw).cast('B', (3, 3))": memoryview(raw).cast('B', (3, 3)),
}
problems = []
for name, obj in inputs.items():
    assert bytes(obj) == raw                            # it IS that byte string
    for label, f, want in (("crc16", lambda o: crc16(o), CHECK16),
                           ("crc32c big", lambda o: crc32c(o, 'big'), CHECK32),
                           ("crc32c default", lambda o: crc32c(o), CHECK32[::-1])):
        try:
            got = f(obj)
        except Exception as e:
            got = repr(e)
        if got != want:
            problems.append(f"{label}({name}) -> {got}, expected {want.hex()}")
for p in problems:
    print(p)
assert not problems, f"{len(problems)} call(s) on bytes-like byte strings did not return the defined checksum"
print("ok")

"""check_account_proof never looks at the two root cells of the proof it is given: roots that are not Merkle proof
cells at all (ordinary cells with one reference), and Merkle proof cells whose hash field is wrong, are accepted.

Run:  PYTHONPATH=<tree> python demo.py     (exit 0 = property holds, non-zero = violation)
"""
import hashlib

from pytoniq_core.boc import Cell, Builder
from pytoniq_core.boc.address import Address
from pytoniq_core.proof.check_proof import check_proof, check_block_header_proof, check_account_proof
from pytoniq_core.tl.block import BlockIdExt


# ---------------------------------------------------------------- helpers: pruning, proofs, a small shard state
def popcount(x):
    return bin(x).count('1')


def pruned_of(cell, lvl=1, override=None):
    """pruned branch standing for `cell` below `lvl` Merkle cells; override={hash slot: bytes} substitutes a hash"""
    mask = cell.level_mask.mask | (1 << (lvl - 1))
    hs, ds = [], []
    for i in range(popcount(mask)):
        l = 0
        while popcount(mask & ((1 << l) - 1)) != i:
            l += 1
        hs.append(cell.get_hash(l))
        ds.append(cell.get_depth(l))
    for k, v in (override or {}).items():
        hs[k] = v
    b = Builder(type_=1).store_uint(1, 8).store_uint(mask, 8)
    for h in hs:
        b.store_bytes(h)
    for d in ds:
        b.store_uint(d, 16)
    return b.end_cell()


def prune_tree(cell, prune, path=(), lvl=1):
    if path in prune:
        return pruned_of(cell, lvl)
    child_lvl = lvl + 1 if cell.type_ in (3, 4) else lvl
    return Cell(cell.bits.copy(), [prune_tree(r, prune, path + (i,), child_lvl) for i, r in enumerate(cell.refs)],
                cell.type_)


def wrap_proof(body, h, d):
    return Builder(type_=3).store_uint(3, 8).store_bytes(h).store_uint(d, 16).store_ref(body).end_cell()


def merkle_proof(root, prune=()):
    return wrap_proof(prune_tree(root, set(prune)), root.get_hash(0), root.get_depth(0))


def merkle_update(old, new):
    return (Builder(type_=4).store_uint(4, 8).store_bytes(old.get_hash(0)).store_bytes(new.get_hash(0))
            .store_uint(old.get_depth(0), 16).store_uint(new.get_depth(0), 16)
            .store_ref(pruned_of(old)).store_ref(pruned_of(new)).end_cell())


def cc(b, grams):  # CurrencyCollection without extra currencies
    return b.store_coins(grams).store_bit(0)


def label(b, bits, m):
    if not bits:
        return b.store_bits('00')
    return b.store_bits('10').store_uint(len(bits), m.bit_length()).store_bits(bits)


def build_aug(items, n):
    """HashmapAug n ShardAccount DepthBalanceInfo from [(key bits, value writer)]"""
    items = sorted(items, key=lambda x: x[0])
    first, last = items[0][0], items[-1][0]
    p = 0
    while p < len(first) and first[p] == last[p]:
        p += 1
    b = label(Builder(), first[:p], n)
    m = n - p
    if m == 0:
        cc(b.store_uint(0, 5), 1)
        items[0][1](b)
        return b.end_cell()
    for side in '01':
        b.store_ref(build_aug([(k[p + 1:], v) for k, v in items if k[p] == side], m - 1))
    cc(b.store_uint(0, 5), len(items))
    return b.end_cell()


def account_cell(addr_hash, balance):
    b = Builder().store_bit(1).store_address(Address((0, addr_hash)))
    b.store_uint(1, 3).store_uint(1, 8).store_uint(1, 3).store_uint(99, 8).store_uint(0, 3)  # StorageUsed
    b.store_uint(1700000000, 32).store_bit(0).store_uint(77, 64)
    return cc(b, balance).store_bits('00').end_cell()  # account_uninit


def shard_state(accounts, seq_no):
    def writer(acc):
        return lambda b: b.store_ref(acc).store_bytes(hashlib.sha256(acc.hash).digest()).store_uint(77, 64)
    items = [(format(int.from_bytes(k, 'big'), '0256b'), writer(v)) for k, v in accounts.items()]
    acc = cc(Builder().store_bit(1).store_ref(build_aug(items, 256)).store_uint(0, 5), len(items)).end_cell()
    misc = cc(cc(Builder().store_uint(0, 64).store_uint(0, 64), 1000), 1).store_bit(0).store_bit(0).end_cell()
    b = Builder().store_bytes(b'\x90#\xaf\xe2').store_int(-239, 32)
    b.store_bits('00').store_uint(0, 6).store_int(0, 32).store_uint(0, 64)
    b.store_uint(seq_no, 32).store_uint(0, 32).store_uint(1700000000, 32).store_uint(12345, 64).store_uint(90, 32)
    b.store_ref(Builder().store_uint(seq_no, 32).end_cell()).store_bit(0).store_ref(acc).store_ref(misc).store_bit(0)
    return b.end_cell()


def block(old_state, new_state):
    info = Builder().store_uint(0x9bc7a987, 32).store_uint(100, 32).end_cell()
    vf = Builder().store_uint(0xb8e48dfb, 32).end_cell()
    extra = Builder().store_uint(0x4a33f6fd, 32).end_cell()
    return (Builder().store_bytes(b'\x11\xefU\xaa').store_int(-239, 32)
            .store_ref(info).store_ref(vf).store_ref(merkle_update(old_state, new_state)).store_ref(extra).end_cell())


def boc2(c1, c2):
    """bag of cells with the two roots c1, c2"""
    seen, post = set(), []

    def dfs(c):
        if c.hash in seen:
            return
        seen.add(c.hash)
        for r in c.refs:
            dfs(r)
        post.append(c)
    dfs(c1)
    dfs(c2)
    cells = post[::-1]
    index = {c.hash: i for i, c in enumerate(cells)}
    payload = b''.join(c._descriptors + c._data_bytes + bytes(index[r.hash] for r in c.refs) for c in cells)
    assert len(cells) < 256 and len(payload) < 65536
    return (b'\xb5\xee\x9cr' + bytes([1, 2, len(cells), 2, 0]) + len(payload).to_bytes(2, 'big')
            + bytes([index[c1.hash], index[c2.hash]]) + payload)


# ---------------------------------------------------------------- the scenario
keys = [hashlib.sha256(bytes([i])).digest() for i in range(5)]
accounts = {k: account_cell(k, 10 + i) for i, k in enumerate(keys)}
old_state = shard_state(accounts, 99)
state = shard_state(accounts, 100)
blk = block(old_state, state)
target = keys[2]
addr = Address((0, target))
blk_id = BlockIdExt(workchain=0, shard=-2 ** 63, seqno=100, root_hash=blk.hash, file_hash=bytes(32))

blk_proof = merkle_proof(blk, {(0,), (1,), (3,)})
state_proof = merkle_proof(state, {(0,), (2,)})
check_proof(blk_proof, blk.hash)
check_proof(state_proof, state.hash)
check_account_proof(boc2(blk_proof, state_proof), blk_id, addr, accounts[target])        # honest proof: accepted

# the same 280 bits and reference, but ORDINARY cells: not Merkle proofs
ord_blk = Builder().store_bits(blk_proof.bits).store_ref(blk_proof[0]).end_cell()
ord_state = Builder().store_bits(state_proof.bits).store_ref(state_proof[0]).end_cell()
for c in (ord_blk, ord_state):
    try:
        check_proof(c, c[0].get_hash(0))
        raise SystemExit('unexpected: check_proof accepts an ordinary cell')
    except Exception:
        pass                                                      # the generic check does reject them

variants = (
    ('block root is an ordinary cell, not a Merkle proof', lambda: (ord_blk, state_proof)),
    ('state root is an ordinary cell, not a Merkle proof', lambda: (blk_proof, ord_state)),
    ('both roots are bare ordinary cells around the unpruned block and state',
     lambda: (Builder().store_ref(blk).end_cell(), Builder().store_ref(state).end_cell())),
    # Merkle proof cells whose hash field is not the hash of what they wrap
    ('block Merkle proof cell claims hash 00..00', lambda: (wrap_proof(blk_proof[0], bytes(32), 0), state_proof)),
    ('state Merkle proof cell claims hash 00..00', lambda: (blk_proof, wrap_proof(state_proof[0], bytes(32), 0))),
)
accepted = []
for what, make in variants:
    try:
        r1, r2 = make()                # refusing to build such a cell counts as rejecting it
        check_account_proof(boc2(r1, r2), blk_id, addr, accounts[target])
    except Exception:
        continue
    accepted.append(what)

assert not accepted, 'VIOLATION: check_account_proof accepted: ' + '; '.join(accepted)
print('ok: all rejected')

"""Cells of depth exactly 1024 - the largest depth the TON cell specification allows - cannot be constructed or parsed.

TON: CellTraits::max_depth = 1024 and DataCell::create does
        if (refs_cnt != 0) { if (depth >= max_depth) return Error("Depth is too big"); depth++; }
with depth = the largest child depth, i.e. a cell whose deepest child has depth 1023 is valid and has depth 1024
(CellBuilder::finalize likewise only refuses depth > max_depth).  Cell.calculate_hashes increments first and then
refuses depth >= 1024, so the largest depth it accepts is 1023.
"""
import os

from pytoniq_core.boc import Builder, Cell


def build(data: bytes, refs=(), type_=-1):
    b = Builder(type_=type_).store_bytes(data)
    for r in refs:
        b.store_ref(r)
    return b.end_cell()


def pruned(depth: int):
    return build(bytes([1, 1]) + os.urandom(32) + depth.to_bytes(2, 'big'), type_=1)


# control: a subtree of depth 1022 was pruned, the cell above it has depth 1023 - accepted
c = build(b'\x00', [pruned(1022)])
assert c.get_depth(0) == 1023

# a subtree of depth 1023 was pruned away: the (spec-valid) cell above it has depth 1024 at level 0
try:
    top = build(b'\x00', [pruned(1023)])
except Exception as e:
    raise AssertionError('cell of depth 1024 above a pruned branch (spec-valid: max_depth = 1024) cannot be '
                         'constructed: %s: %s' % (type(e).__name__, e))
assert top.get_depth(0) == 1024 and top.get_depth(1) == 1

# and the Merkle proof over it carries depth 1024 in its 16-bit depth field
proof = build(bytes([3]) + top.get_hash(0) + (1024).to_bytes(2, 'big'), [top], type_=3)
again = Cell.one_from_boc(proof.to_boc())
assert again.refs[0].get_depth(0) == 1024 and again.hash == proof.hash

# the same without pruning: a chain of 1024 cells above a library-reference cell
cell = build(bytes([2]) + os.urandom(32), type_=2)
for i in range(1024):
    cell = build(b'', [cell])
assert cell.get_depth(0) == cell.get_depth(3) == 1024
print('ok')

"""A Slice made with the public constructor from a cell's own bits/refs is not a snapshot: reading from it eats the cell.

Property: "After a cell is created its hash, data bits, references and serialisation never change, whatever sequence
of operations is later applied to slices, builders or copies derived from it" / "derived objects are isolated snapshots".
"""
from bitarray import bitarray
from pytoniq_core.boc import Cell, Slice, begin_cell


def state(c):
    return {
        'hash': c.hash.hex(),
        'bits': c.bits.to01(),
        'refs': [r.hash.hex() for r in c.refs],
        'boc': c.to_boc().hex(),
        'repr': repr(c),
        'copy().hash': c.copy().hash.hex(),
        'begin_parse()': repr(c.begin_parse()),
        'to_builder().end_cell().hash': c.to_builder().end_cell().hash.hex(),
    }


leaf = begin_cell().store_uint(0xABCD, 16).end_cell()
built = begin_cell().store_uint(0x1234567, 28).store_ref(leaf).end_cell()
parsed = Cell.one_from_boc(built.to_boc())          # bits are a TvmBitarray, as for every cell the library makes
plain = Cell(bitarray(built.bits.to01()), [leaf])   # same cell, constructed directly from a plain bit array

problems = []
for name, cell in (('cell from end_cell()', built), ('cell from one_from_boc()', parsed), ('cell from plain bitarray', plain)):
    before = state(cell)
    s = Slice(cell.bits, cell.refs, cell.type_)      # public constructor, documented argument types
    assert s.load_uint(8) == 0x12                    # ordinary reads on the derived slice ...
    s.load_ref()
    s.skip_bits(4)
    after = state(cell)
    changed = [k for k in before if before[k] != after[k]]
    if changed:
        problems.append(f'{name}: {", ".join(changed)} changed (bits {len(before["bits"])} -> {len(after["bits"])}, '
                        f'hash still {after["hash"][:12]}.. but copy().hash now {after["copy().hash"][:12]}..)')

assert not problems, 'reading from Slice(cell.bits, cell.refs) modified the cell: ' + ' | '.join(problems)
print('ok')

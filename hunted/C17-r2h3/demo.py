# Property C17, words violated:
#   "serialising and parsing returns equal values in the same order, and the encoding follows the VmStack schema"
#
# VmStackValue.serialize is an if/elif chain with no final else: a value of any kind it does not know - a Python tuple
# or list (the natural spelling of a TVM tuple; only the VmTuple wrapper is recognised), a str, a float, a bytearray,
# an Address - is accepted without any error and written as an entry of ZERO bits, not even a tag.  The stack cell
# that comes out follows no schema; the library's own parser reads the hole as None, so the caller's value silently
# turns into null.  VmCont.serialize has the same shape: a continuation whose type_ is not one of the ten names is
# written as the bare tag 06 with nothing behind it.
import sys
from pytoniq_core.tlb.vm_stack import VmStack, VmCont, VmTuple
from pytoniq_core.boc import Address

candidates = [
    ('python tuple (1, 2)', (1, 2)),
    ('python list [1, 2]', [1, 2]),
    ('str', 'text'),
    ('float', 1.5),
    ('bytearray', bytearray(b'ab')),
    ('Address', Address((0, bytes(32)))),
    ("VmCont with misspelt type_ 'vmc_quit_exception'", VmCont('vmc_quit_exception')),
]
bad = []
for label, value in candidates:
    try:
        cell = VmStack.serialize([1, value, 2])
    except Exception as e:
        print(f'{label}: refused ({type(e).__name__}) - fine')
        continue
    entry = cell.refs[0]                 # vm_stk_cons holding the middle value as its tos
    try:
        back = VmStack.deserialize(cell.begin_parse())
    except Exception as e:
        back = f'<parse raises {type(e).__name__}>'
    min_bits = 8                         # every VmStackValue starts with a tag of at least 8 bits
    vanished = len(entry.bits) < min_bits or (isinstance(value, VmCont) and len(entry.bits) < 8 + 4)
    print(f'{label}: accepted; entry written with {len(entry.bits)} bits [{entry.bits.to01()}]; stack parses back as {back}')
    if vanished or (isinstance(back, list) and back[1] is None):
        bad.append(label)

print()
print('expected: a value VmStackValue.serialize cannot encode is refused (or encoded as what it denotes); it never yields a cell outside the schema')
if bad:
    print('happened: accepted and written as an empty / tag-only entry, read back as null:')
    for b in bad: print('   -', b)
    sys.exit(1)
print('happened: as expected')

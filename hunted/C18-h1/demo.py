"""crc16 / crc32c on bytes-like objects whose items are wider than one byte
(array.array('H'), memoryview(b).cast('H'/'I'/...)): the functions iterate ITEMS,
not BYTES, so they silently return the checksum of a different, shorter byte string
(crc32c always; crc16 when all items < 256) or die with IndexError (crc16)."""
import array, sys
from pytoniq_core.crypto.crc import crc16, crc32c


def ref16(data):                       # CRC-16/XMODEM, bit by bit
    crc = 0
    for b in data:
        crc ^= b << 8
        for _ in range(8):
            crc = ((crc << 1) ^ 0x1021) & 0xFFFF if crc & 0x8000 else (crc << 1) & 0xFFFF
    return crc.to_bytes(2, 'big')


def ref32(data, byteorder):            # CRC-32C, bit by bit
    crc = 0xFFFFFFFF
    for b in data:
        crc ^= b
        for _ in range(8):
            crc = (crc >> 1) ^ 0x82F63B78 if crc & 1 else crc >> 1
    return (crc ^ 0xFFFFFFFF).to_bytes(4, byteorder)


raw = b'123456789abc'                                  # the byte string (12 bytes)
assert crc16(raw) == ref16(raw) and crc32c(raw, 'big') == ref32(raw, 'big')   # plain bytes are fine

problems = []
views = {
    "memoryview(raw).cast('H')": memoryview(raw).cast('H'),
    "memoryview(raw).cast('I')": memoryview(raw).cast('I'),
    "array.array('H', raw)": array.array('H', raw),
    "array.array('H', [1, 2, 3])": array.array('H', [1, 2, 3]),
}
for name, v in views.items():
    content = bytes(memoryview(v).cast('B'))           # the bytes this object holds
    for bo in ('little', 'big'):
        want = ref32(content, bo)
        try:
            got = crc32c(v, bo)
        except Exception as e:
            got = repr(e)
        if got != want:
            problems.append(f"crc32c({name}, {bo!r}) = {got!r}, CRC-32C of its {len(content)} bytes is {want!r}")
    want = ref16(content)
    try:
        got = crc16(v)
    except Exception as e:
        got = repr(e)
    if got != want:
        problems.append(f"crc16({name}) = {got!r}, CRC-16/XMODEM of its {len(content)} bytes is {want!r}")

for p in problems:
    print(p)
assert not problems, f"{len(problems)} checksum(s) differ from the bitwise definition for bytes-like inputs with wide items"
print("ok")

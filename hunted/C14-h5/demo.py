# BlockId (the tonNode.blockId helper) has identity equality/hash: an id rebuilt from its own dictionary form is a different
# dictionary key, so a BlockId-keyed dict can never be queried with an equal id; BlockIdExt next to it has value semantics.
from pytoniq_core.tl.block import BlockId, BlockIdExt

a = BlockId(0, None, 77)
b = BlockId.from_dict(a.to_dict())
assert b.to_dict() == a.to_dict() == {'workchain': 0, 'shard': -2**63, 'seqno': 77}
x = BlockIdExt(0, None, 77, bytes(32), bytes(32))
assert BlockIdExt.from_dict(x.to_dict()) == x and {x: 1}[BlockIdExt.from_dict(x.to_dict())] == 1     # the Ext helper is fine

assert a == b, 'BlockId.from_dict(a.to_dict()) != a  (round trip through a dictionary does not give back an equal id)'
assert {a: 'seen'}.get(b) == 'seen', 'an equal BlockId is not found in a dict keyed by BlockId'
assert len({a, b, BlockId(0, -2**63, 77)}) == 1
print('ok')

# Property C07, words violated:
#   "No sequence of builder operations yields a cell with ... more than 4 references"
#   (title: "Cell capacity ... [is] enforced")
#
# The 4-reference limit lives only in Builder.store_ref / store_cell / store_slice.  Cell.__init__ never looks at
# len(refs), so every other route hands out a cell with 5+ references:
#   (a) the public Builder.refs property (list returned by reference, and a setter),
#   (b) Cell(bits, refs) / Slice(bits, refs).to_cell(),
#   (c) Boc parsing of a cell whose descriptor byte d1 says 5, 6 or 7 references (the reference implementation refuses these).
# The data-bit limit, by contrast, IS enforced on all those routes (d2 does not fit a byte) - only the reference limit is not.
import sys
from pytoniq_core import Builder, Cell, Slice
from pytoniq_core.boc.tvm_bitarray import TvmBitarray

leaves = [Builder().store_uint(i, 8).end_cell() for i in range(8)]
failures = []


def expect_refused(name, fn):
    try:
        cell = fn()
    except Exception as e:
        print(f'ok   {name}: refused with {type(e).__name__}: {e}')
        return
    print(f'BAD  {name}: expected an error, got {cell!r} with {len(cell.refs)} references')
    failures.append(name)


# (a) builder operations only
def via_builder_refs_list():
    b = Builder()
    for c in leaves[:5]:
        b.refs.append(c)          # Builder.refs is a public property
    return b.end_cell()


def via_builder_refs_setter():
    b = Builder().store_uint(1, 1)
    b.refs = leaves[:7]           # public setter, no check
    return b.end_cell()


expect_refused('Builder.refs.append x5 + end_cell()', via_builder_refs_list)
expect_refused('Builder.refs = [7 cells] + end_cell()', via_builder_refs_setter)

# (b) direct construction
expect_refused('Cell(bits, [5 cells])', lambda: Cell(TvmBitarray(1023), leaves[:5]))
expect_refused('Slice(bits, [6 cells]).to_cell()', lambda: Slice(TvmBitarray(1023), leaves[:6]).to_cell())

# (c) a bag of cells whose root has d1 = 0x05 (five references), written by hand:
#     magic, flags/size=1, off=1, cells=6, roots=1, absent=0, tot=0x16, root idx 0,
#     root: d1=05 d2=00 refs 1..5 ; five leaves d1=00 d2=02 data=00..04
boc5 = bytes.fromhex('b5ee9c7201010601001600' '05000102030405' '000200' '000201' '000202' '000203' '000204')
expect_refused('Cell.one_from_boc(root with 5 refs)', lambda: Cell.one_from_boc(boc5))

# consequence: with 8 references the count spills into the "exotic" flag of d1, the library emits a bag it cannot read back
try:
    c8 = Cell(TvmBitarray(1023), leaves[:8])
    d1 = c8.to_boc()[11]
    print(f'info Cell with 8 refs serialises with d1 = {d1:#04x} (= exotic cell with 0 refs)')
except Exception:
    pass

if failures:
    print(f'\n{len(failures)} route(s) produced a cell with more than 4 references')
    sys.exit(1)
print('all routes refused')

"""HashMap(key_size, map_=...) - the constructor's own `map_` argument (and the public .map attribute) -
is never checked against the declared width: a negative key is silently aliased to another key,
a too-large key silently yields a cell that is not a valid dictionary of that width."""
from pytoniq_core.boc.hashmap.hashmap import HashMap

vd = lambda s: s.load_uint(8)
problems = []


def check(width, src):
    try:
        h = HashMap(width, map_=dict(src)).with_uint_values(8)
        cell = h.serialize()
    except Exception:
        return  # rejected: what the property asks for
    try:
        back = HashMap.parse(cell.begin_parse(), width, value_deserializer=vd)
    except Exception as e:
        problems.append(f'width {width}, map {src}: key not rejected, serialize() returned a cell that cannot '
                        f'be parsed as a {width}-bit dictionary ({type(e).__name__}: {e})')
        return
    if back != src:
        problems.append(f'width {width}, map {src}: key not rejected, round trip returned {back}')


check(4, {-1: 7})            # comes back as {1: 7}
check(4, {-1: 7, 1: 5})      # comes back as {1: 5, 3: 7}: -1 aliased to key 3
check(4, {-1: 7, 9: 5})      # comes back as {1: 7, 9: 5}
check(8, {-2: 7, 128: 1})    # negative aliased again
check(4, {16: 1})            # too large: malformed cell, no error at serialisation
check(5, {0: 1, 32: 2})      # too large: malformed cell, no error at serialisation

assert not problems, 'keys outside the declared width were not rejected:\n  ' + '\n  '.join(problems)
print('ok')

"""A spec-valid dictionary whose Patricia tree is deeper than ~497 forks cannot be built or parsed.

Key set (N-bit keys, N = 600 <= 1023):  {0} U {1 << i : 0 <= i < N}   -- 601 keys.
Its Hashmap is a 'comb': every edge has an empty label and forks; the right child is a leaf
(label = the remaining zeros), the left child is the same structure one bit shorter.  Depth = N.

The expected canonical tree is built here bottom-up (no recursion) with TON's label rules.
The library must (a) produce a cell with the same hash, (b) parse that cell back to all 601 leaves,
(c) do the same for the HashmapAug variant.  It raises RecursionError in all three.
"""
import sys
from pytoniq_core import HashMap, Builder
from pytoniq_core.boc.hashmap.parse import parse_hashmap_aug

N = 600


def ton_label(label: str, max_len: int) -> str:
    """crypto/vm/dict.cpp append_dict_label / append_dict_label_same"""
    n, k = len(label), max_len.bit_length()
    fk = format(n, 'b').zfill(k) if k else ''
    if n > 0 and label == label[0] * n:
        if n > 1 and k < 2 * n - 1:
            return '11' + label[0] + fk
        if k < n:
            return '10' + fk + label
        return '0' + '1' * n + '0' + label
    if k < n:
        return '10' + fk + label
    return '0' + '1' * n + '0' + label


def build(aug: bool):
    def leaf(label, max_len, value):
        b = Builder().store_bits(ton_label(label, max_len))
        if aug:
            b.store_uint(1, 1)          # extra of a leaf
        return b.store_uint(value, 2).end_cell()

    cur = leaf('', 0, 1)               # key 0 (value 1), reached with 0 remaining bits
    for j in range(1, N + 1):          # j = remaining key length at this edge
        right = leaf('0' * (j - 1), j - 1, 2)
        b = Builder().store_bits(ton_label('', j)).store_ref(cur).store_ref(right)
        if aug:
            b.store_uint(0, 1)          # extra of a fork
        cur = b.end_cell()
    return cur


keys = {0: 1}
for i in range(N):
    keys[1 << i] = 2

expected = build(False)
problems = []

try:
    hm = HashMap(N, value_serializer=lambda v, b: b.store_uint(v, 2))
    for k, v in keys.items():
        hm.set_int_key(k, v)
    got = hm.serialize()
    if got.hash != expected.hash:
        problems.append('serializer: hash differs from the canonical tree')
except RecursionError as e:
    problems.append(f'serializer: HashMap({N}) with {len(keys)} valid keys -> RecursionError: {e}')

try:
    res = expected.begin_parse().load_hashmap(N, value_deserializer=lambda s: s.load_uint(2))
    if res != keys:
        problems.append(f'plain parser: returned {len(res)} leaves, expected {len(keys)}')
except RecursionError as e:
    problems.append(f'plain parser: load_hashmap({N}) on a valid tree of depth {N} -> RecursionError: {e}')

try:
    res = parse_hashmap_aug(build(True).begin_parse(), N, lambda s: s.load_uint(2), lambda s: s.load_uint(1))
    if res is None or res[0] != keys or len(res[1]) != 2 * N + 1:
        problems.append('aug parser: wrong result')
except RecursionError as e:
    problems.append(f'aug parser: parse_hashmap_aug({N}) on a valid tree of depth {N} -> RecursionError: {e}')

for p in problems:
    print('VIOLATION:', p)
assert not problems, f'{len(problems)} violation(s): valid deep dictionaries (depth {N} <= 1023) are not handled'
print('ok')

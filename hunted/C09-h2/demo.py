"""Address keys carrying an anycast prefix do not fit 267 bits; HashMap.set() silently truncates them to their first
267 bits, so distinct addresses collapse onto one key (and the stored key is not the address)."""
from pytoniq_core import Address, Builder
from pytoniq_core.boc.hashmap.hashmap import HashMap

a1 = Address((0, b'\x11' * 31 + b'\x01')); a1.set_anycast(3, 5)
a2 = Address((0, b'\x11' * 31 + b'\x02')); a2.set_anycast(3, 5)
bits1 = Builder().store_address(a1).end_cell().bits
bits2 = Builder().store_address(a2).end_cell().bits
assert bits1 != bits2 and len(bits1) == len(bits2) == 275   # two different keys, each 275 bits long

h = HashMap(267).with_uint_values(8)
try:
    h.set(a1, 1)
    h.set(a2, 2)
    rejected = False
except Exception:
    rejected = True     # rejecting a key that does not fit 267 bits is what the property asks for

if not rejected:
    back = HashMap.parse(h.serialize().begin_parse(), 267, value_deserializer=lambda s: s.load_uint(8))
    assert len(back) == 2, (
        f'two distinct 275-bit address keys were accepted by a 267-bit dictionary and aliased to ONE key: '
        f'round trip returned {len(back)} entr(y/ies) with values {list(back.values())} instead of two '
        f'(the value stored under the first address was silently overwritten)')
print('ok')

"""OutMsg: the constructor msg_export_deq_short$1101 is reported as 'msg_export_deq' - the same type_ the parser gives for
msg_export_deq$1100, so the two constructor alternatives cannot be told apart by the returned constructor name.

block.tlb:
  msg_export_deq$1100 out_msg:^MsgEnvelope import_block_lt:uint63 = OutMsg;
  msg_export_deq_short$1101 msg_env_hash:bits256 next_workchain:int32 next_addr_pfx:uint64 import_block_lt:uint64 = OutMsg;
"""
from pytoniq_core.boc import Builder
from pytoniq_core.tlb.transaction import OutMsg

H = bytes(range(1, 33))
M64 = 2 ** 64 - 1

short = (Builder().store_uint(0b1101, 4).store_bytes(H).store_int(-2 ** 31, 32)
         .store_uint(M64, 64).store_uint(M64 - 1, 64).end_cell())
s = short.begin_parse()
r = OutMsg.deserialize(s)
assert (s.remaining_bits, s.remaining_refs) == (0, 0)
# the fields themselves are right ...
assert (r.msg_env_hash, r.next_workchain, r.next_addr_pfx, r.import_block_lt) == (H, -2 ** 31, M64, M64 - 1)
# ... but the constructor is not
assert r.type_ == 'msg_export_deq_short', \
    f"value encoded with constructor msg_export_deq_short$1101 is returned as type_={r.type_!r} " \
    f"(the name of the other constructor, msg_export_deq$1100)"
print('ok')

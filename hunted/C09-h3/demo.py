"""A legitimate deep ("comb"-shaped) dictionary cannot be serialised or parsed: utils.build_edge/build_node and
parse.parse/deserialize_hashmap_node recurse two Python frames per tree level, so any map whose trie is deeper than
~495 levels dies with RecursionError at the default recursion limit - although TON allows cell depth up to 1024 and
the library's own BoC encoder/decoder handles such cells."""
import sys
from pytoniq_core.boc.hashmap.hashmap import HashMap

assert sys.getrecursionlimit() <= 1000, 'run with the default recursion limit'
WIDTH = 600
src = {0: 0}
for i in range(WIDTH):
    src[1 << i] = i % 256          # 601 keys of 600 bits: 0 and every power of two -> trie of depth 600

h = HashMap(WIDTH).with_uint_values(8)
for k in sorted(src, reverse=True):
    h.set(k, src[k])               # every key fits the declared width, all are accepted

try:
    cell = h.serialize()
except RecursionError as e:
    raise AssertionError(f'serialize() of a valid {len(src)}-entry dictionary with {WIDTH}-bit keys raised RecursionError: {e}')
try:
    back = HashMap.parse(cell.begin_parse(), WIDTH, value_deserializer=lambda s: s.load_uint(8))
except RecursionError as e:
    raise AssertionError(f'parse of a valid {len(src)}-entry dictionary with {WIDTH}-bit keys raised RecursionError: {e}')
assert back == src and list(back) == sorted(src), 'round trip differs'
print('ok')

"""-2**63 is an int64 (vm_stk_tinyint#01 value:int64) but is written in the 257-bit form vm_stk_int#0201_:
the size test uses bit_length() < 64, which is asymmetric for the most negative 64-bit value."""
from pytoniq_core.tlb.vm_stack import VmStack, VmStackValue


def form(v):
    cell = VmStackValue.serialize(v)
    assert VmStackValue.deserialize(cell.begin_parse()) == v
    bits = cell.bits.to01()
    if bits[:8] == '00000001' and len(bits) == 8 + 64:
        return 'tinyint'
    if bits[:15] == '000000100000000' and len(bits) == 15 + 257:
        return 'int257'
    return 'other'


# every value of the signed 64-bit range takes the 64-bit form, everything outside the 257-bit form
expected = {
    0: 'tinyint', -1: 'tinyint', 2 ** 63 - 1: 'tinyint', -2 ** 63 + 1: 'tinyint',
    -2 ** 63: 'tinyint',          # lowest int64: still "small"
    2 ** 63: 'int257', -2 ** 63 - 1: 'int257', 2 ** 256 - 1: 'int257', -2 ** 256: 'int257',
}
wrong = {v: form(v) for v, f in expected.items() if form(v) != f}
assert not wrong, f'wrong integer form (value -> form used): {wrong}'
assert VmStack.serialize([-2 ** 63]).begin_parse().refs  # sanity
print('ok')

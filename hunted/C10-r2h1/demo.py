# Property C10, words violated:
#   "Conversely, the plain and augmented dictionary parsers decode every spec-valid Hashmap/HashmapAug tree
#    whatever label kinds it uses, returning all leaves (and augmentation values) ..."
#
# Slice.load_hashmap_aug / Slice.load_hashmap_aug_e declare x_deserializer and y_deserializer as OPTIONAL
# (default None), exactly like key_deserializer / value_deserializer of the plain load_hashmap / load_dict.
# The plain parser, called without value_deserializer, returns every leaf as a Slice.
# The augmented parser, called in the same advertised form, decodes NO valid tree at all: it calls None.
import sys
from pytoniq_core.boc import Builder

# A spec-valid HashmapAug 8 uint8 uint16 with the two keys 1 and 200; extra = sum of the values below.
#   ahm_edge label node ; ahmn_leaf extra:Y value:X ; ahmn_fork left:^ right:^ extra:Y
def leaf(label_bits, value):
    return Builder().store_bits(label_bits).store_uint(value, 16).store_uint(value, 8).end_cell()

left = leaf('10' + '111' + '0000001', 11)    # hml_long, n = 7 (3 bits for #<= 7), remaining key 0000001
right = leaf('10' + '111' + '1001000', 22)   # remaining key 1001000 -> key 0b11001000 = 200
root = (Builder().store_bits('00')           # hml_short, n = 0
        .store_ref(left).store_ref(right).store_uint(33, 16).end_cell())

expected_keys = [1, 200]
failures = 0

# reference point: the fully specified call works, so the tree is fine
d, extras = root.begin_parse().load_hashmap_aug(8, lambda s: s.load_uint(8), lambda s: s.load_uint(16))
assert d == {1: 11, 200: 22} and extras == [11, 22, 33], (d, extras)
print('with both deserializers          :', d, extras)

# 1. x_deserializer left at its default: the values should come back undecoded (Slices), as load_hashmap does
try:
    d, extras = root.begin_parse().load_hashmap_aug(8, y_deserializer=lambda s: s.load_uint(16))
    vals = {k: v.load_uint(8) for k, v in d.items()}
    print('x_deserializer omitted           :', vals, extras)
    if sorted(d) != expected_keys or vals != {1: 11, 200: 22} or extras != [11, 22, 33]:
        failures += 1
except Exception as e:
    print('x_deserializer omitted           : EXPECTED the 2 leaves as Slices, GOT', repr(e))
    failures += 1

# 2. both left at their defaults (the call form `load_hashmap_aug(key_length)` the signature advertises)
try:
    res = root.begin_parse().load_hashmap_aug(8)
    print('both omitted                     :', res)
    if sorted(res[0]) != expected_keys:
        failures += 1
except Exception as e:
    print('both omitted                     : EXPECTED the 2 leaves, GOT', repr(e))
    failures += 1

# 3. the same through the HashmapAugE entry point
try:
    s = Builder().store_bit(1).store_ref(root).store_uint(33, 16).end_cell().begin_parse()
    res = s.load_hashmap_aug_e(8)
    print('load_hashmap_aug_e, both omitted :', res)
    if sorted(res[0]) != expected_keys:
        failures += 1
except Exception as e:
    print('load_hashmap_aug_e, both omitted : EXPECTED the 2 leaves, GOT', repr(e))
    failures += 1

# for comparison: the plain parser with the same defaults
plain = Builder().store_bits('00').store_ref(Builder().store_bits('101110000001').store_uint(11, 8).end_cell()) \
    .store_ref(Builder().store_bits('101111001000').store_uint(22, 8).end_cell()).end_cell()
print('plain load_hashmap, defaults     :', plain.begin_parse().load_hashmap(8))

if failures:
    print(f'FAIL: {failures} advertised call forms of the augmented parser decode no valid tree')
    sys.exit(1)
print('OK')

"""InMsg msg_discard_fin$110: the field fwd_fee:Grams is not returned (it is stored under the name of another
constructor's field, transit_fee).

block.tlb:
  msg_discard_fin$110 in_msg:^MsgEnvelope transaction_id:uint64 fwd_fee:Grams = InMsg;
  msg_discard_tr$111  in_msg:^MsgEnvelope transaction_id:uint64 fwd_fee:Grams proof_delivered:^Cell = InMsg;
"""
from pytoniq_core.boc import Builder
from pytoniq_core.tlb.transaction import InMsg

H = bytes(range(32))


def grams(b, v):                      # nanograms$_ amount:(VarUInteger 16)
    n = (v.bit_length() + 7) // 8
    b.store_uint(n, 4)
    if n:
        b.store_uint(v, n * 8)
    return b


def addr_std(b, wc):                  # addr_std$10 anycast:nothing workchain_id:int8 address:bits256
    return b.store_uint(0b10, 2).store_uint(0, 1).store_int(wc, 8).store_bytes(H)


def message():                        # int_msg_info$0 ... init:nothing body:left (empty)
    b = Builder().store_uint(0, 1).store_uint(0b100, 3)
    addr_std(b, 0)
    addr_std(b, -1)
    grams(b, 1000).store_uint(0, 1)   # value: grams + empty extra-currency dictionary
    grams(b, 0)                       # ihr_fee
    grams(b, 3)                       # fwd_fee
    b.store_uint(7, 64).store_uint(8, 32)
    return b.store_uint(0, 1).store_uint(0, 1).end_cell()


def envelope():                       # msg_envelope#4 cur_addr next_addr fwd_fee_remaining msg:^(Message Any)
    b = Builder().store_uint(4, 4)
    b.store_uint(0, 1).store_uint(0, 7)      # interm_addr_regular$0 use_dest_bits=0
    b.store_uint(0, 1).store_uint(96, 7)     # interm_addr_regular$0 use_dest_bits=96
    return grams(b, 5).store_ref(message()).end_cell()


FWD_FEE = 123456789
TRANSACTION_ID = 2 ** 64 - 1

fin = Builder().store_uint(0b110, 3).store_ref(envelope()).store_uint(TRANSACTION_ID, 64)
fin = grams(fin, FWD_FEE).end_cell()
tr = Builder().store_uint(0b111, 3).store_ref(envelope()).store_uint(TRANSACTION_ID, 64)
tr = grams(tr, FWD_FEE).store_ref(Builder().end_cell()).end_cell()

# the sibling constructor with the same three leading fields is read correctly
s = tr.begin_parse()
r = InMsg.deserialize(s)
assert r.type_ == 'msg_discard_tr' and r.transaction_id == TRANSACTION_ID and r.fwd_fee == FWD_FEE
assert (s.remaining_bits, s.remaining_refs) == (0, 0)

s = fin.begin_parse()
r = InMsg.deserialize(s)
assert r.type_ == 'msg_discard_fin' and r.transaction_id == TRANSACTION_ID
assert (s.remaining_bits, s.remaining_refs) == (0, 0)
fields = {k: v for k, v in vars(r).items() if k not in ('in_msg', 'msg', 'transaction')}
assert getattr(r, 'fwd_fee', None) == FWD_FEE, \
    f'msg_discard_fin: field fwd_fee (encoded {FWD_FEE}) is not returned; parser gave {fields}'
assert not hasattr(r, 'transit_fee'), f'msg_discard_fin has no field transit_fee in block.tlb; parser gave {fields}'
print('ok')

"""A message whose destination is an addr_var address (a constructor of MsgAddressInt in block.tlb) is a valid
Message Any, but the library's parser refuses it (branches marked 'todo: addr_var')."""
from pytoniq_core.boc import Builder
from pytoniq_core.tlb.transaction import MessageAny

# int_msg_info$0 ihr_disabled bounce bounced src:MsgAddressInt dest:MsgAddressInt value ihr_fee fwd_fee created_lt created_at
b = Builder().store_bits('0110')
b.store_bits('00')                                                  # src: addr_none (relaxed form, as the library itself writes for src=None)
# addr_var$11 anycast:(Maybe Anycast) addr_len:(## 9) workchain_id:int32 address:(bits addr_len)
b.store_bits('11').store_bit(0).store_uint(256, 9).store_int(1000, 32).store_bytes(b'\x11' * 32)
b.store_coins(5).store_bit(0)                                       # value: 5 nanograms, no extra currencies
b.store_coins(0).store_coins(0).store_uint(1, 64).store_uint(2, 32)
b.store_bit(0)                                                      # no init
b.store_bit(0).store_uint(0xCAFE, 16)                               # body inline
cell = b.end_cell()
try:
    m = MessageAny.deserialize(cell.begin_parse())
except Exception as e:
    raise AssertionError(f'valid message with an addr_var destination rejected by the parser: {e!r}')
assert m.info.value.grams == 5 and m.info.created_lt == 1 and m.body.begin_parse().load_uint(16) == 0xCAFE
assert m.serialize().hash == cell.hash
print('ok')

"""Cell.calculate_representation_hash() disagrees with the specified hash for every non-pruned cell of level > 0.

The representation hash of a cell is its hash at the highest level (Hash_repr = Hash_inf = get_hash(3)).
For a cell whose level mask is not 0 (an ordinary cell above a pruned branch, a Merkle proof/update above a pruned
branch of level >= 2) TON computes the hash at a significant level i > 0 from the hash at the previous significant
level (d1(mask_i) d2 | previous hash | child depths at level i | child hashes at level i), see DataCell.cpp.
Cell.get_hash / Cell.hash do that; Cell.calculate_representation_hash (-> get_representation) hashes
d1(full mask) d2 | DATA | depths | hashes instead and so reports a value that is the hash at no level at all.
"""
import hashlib
import os

from pytoniq_core.boc import Builder


def build(data: bytes, refs=(), type_=-1):
    b = Builder(type_=type_).store_bytes(data)
    for r in refs:
        b.store_ref(r)
    return b.end_cell()


def sha(*parts):
    return hashlib.sha256(b''.join(parts)).digest()


sub_hash, sub_depth = os.urandom(32), 5

# ---- 1. ordinary cell above a pruned branch of level mask 1 ------------------------------------------------------
pruned_data = bytes([1, 1]) + sub_hash + sub_depth.to_bytes(2, 'big')
pruned = build(pruned_data, type_=1)
pruned_own = sha(bytes([8 + 32 * 1, 2 * len(pruned_data)]), pruned_data)      # the pruned cell's own (level 1) hash

data = b'abc'
parent = build(data, [pruned])
d2 = bytes([2 * len(data)])
# level 0: the child stands for the removed subtree
h0 = sha(bytes([1 + 32 * 0]), d2, data, sub_depth.to_bytes(2, 'big'), sub_hash)
# level 1 (= highest, = representation hash): chained on h0, child taken at level 1 (its own hash, depth 0)
h1 = sha(bytes([1 + 32 * 1]), d2, h0, (0).to_bytes(2, 'big'), pruned_own)

assert parent.level_mask.mask == 1
assert parent.get_hash(0) == h0, 'level-0 hash differs from the specification'
assert parent.get_hash(1) == h1 == parent.get_hash(3) == parent.hash, 'level-1 hash differs from the specification'
got = parent.calculate_representation_hash()
assert got == h1, (
    'ordinary cell above a pruned branch: calculate_representation_hash() = %s, but the representation hash '
    '(hash at the highest level, = get_hash(3) = .hash) is %s' % (got.hex(), h1.hex()))

# ---- 2. Merkle proof of level 1 (above a pruned branch of level mask 2) -------------------------------------------
pruned2 = build(bytes([1, 2]) + sub_hash + sub_depth.to_bytes(2, 'big'), type_=1)
inner = build(b'xyz', [pruned2])
proof = build(bytes([3]) + inner.get_hash(0) + inner.get_depth(0).to_bytes(2, 'big'), [inner], type_=3)
assert proof.level_mask.mask == 1
got = proof.calculate_representation_hash()
assert got == proof.get_hash(3) == proof.hash, (
    'Merkle proof of level 1: calculate_representation_hash() = %s, hash at the highest level = %s'
    % (got.hex(), proof.hash.hex()))
print('ok')

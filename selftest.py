#!/venv/bin/python
"""Self-validation by deliberate breaks:  selftest.py [patch ...]   (default: every mutants/*.patch and seeded/*/patch.diff)

For each patch: copy /repo to a scratch directory outside /repo and /verif, apply the patch, run the repository's own tests
(must still pass), run the quick check of the property named in the file name (mutants/<tag>-<Cxx>-<name>.patch or
orig-<Cxx>-<name>.patch; seeded/<id>/meta.json) with VERIF_REPO=<scratch> (must exit 1 with a VIOLATION line), delete the copy.
Does not touch evidence/ (checks run with VERIF_NO_EVIDENCE=1).

selftest.py --neutral [patch ...]  (default: every neutral/*/patch.diff): the patches are behaviour-preserving changes (refactorings, rewrites,
choices the properties leave open); the repository tests must pass and ALL twenty quick checks must exit 0 without a VIOLATION line."""
import glob
import json
import os
import re
import shutil
import subprocess
import sys
import tempfile
from concurrent.futures import ThreadPoolExecutor

HERE = os.path.dirname(os.path.abspath(__file__))
PY = '/venv/bin/python'


FORCE = None       # --check Cxx: run this property's check against every given patch (cross-property catches)
NEUTRAL = False    # --neutral: the patches are behaviour-preserving changes (neutral/*/patch.diff): ALL twenty quick checks must exit 0 on them
ALL = ['C%02d' % i for i in range(1, 21)]


def props_of(path):
    if FORCE:
        return [FORCE]
    if NEUTRAL:
        return ALL
    if path.endswith('patch.diff'):
        meta = json.load(open(os.path.join(os.path.dirname(path), 'meta.json')))
        p = meta.get('checks') or meta['property']
        return p if isinstance(p, list) else [p]
    return re.findall(r'C\d\d', os.path.basename(path))


def one(path, tier='quick', keep_tests=True):
    scratch = tempfile.mkdtemp(prefix='vp-scratch-')
    try:
        dst = os.path.join(scratch, 'repo')
        shutil.copytree('/repo', dst, ignore=shutil.ignore_patterns('.git', '__pycache__', '*.egg-info'))
        r = subprocess.run(['git', 'apply', '--unsafe-paths', '--directory', dst, path], cwd='/', capture_output=True, text=True)
        if r.returncode:
            r = subprocess.run(['patch', '-p1', '-d', dst, '-i', os.path.abspath(path)], capture_output=True, text=True)
            if r.returncode:
                return path, 'PATCH-FAILED', r.stdout[-300:] + r.stderr[-300:]
        env = dict(os.environ, PYTHONPATH=dst, PYTHONDONTWRITEBYTECODE='1')
        tests = 'skipped'
        if keep_tests:
            t = subprocess.run([PY, '-m', 'pytest', '-q', '-p', 'no:cacheprovider', '-x', os.path.join(dst, 'tests')], cwd=dst,
                               env=env, capture_output=True, text=True)
            tests = 'tests-pass' if t.returncode == 0 else 'TESTS-FAIL'
        res = []
        for pid in props_of(path):
            env2 = dict(os.environ, VERIF_REPO=dst, VERIF_NO_EVIDENCE='1')
            c = subprocess.run([PY, os.path.join(HERE, 'run.py'), pid, '--tier', tier], cwd=HERE, env=env2, capture_output=True, text=True)
            viol = [l for l in c.stdout.splitlines() if l.startswith('VIOLATION')]
            res.append((pid, c.returncode, len(viol), (viol[0][:160] if viol else c.stdout[-200:])))
        if NEUTRAL:
            alarms = [r_ for r_ in res if r_[1] != 0 or r_[2]]
            return path, ('QUIET' if not alarms else 'FALSE-ALARM') + ' ' + tests, alarms or [(p_, rc_, n_, '') for p_, rc_, n_, _ in res]
        caught = any(rc == 1 and n for _, rc, n, _ in res)
        return path, ('CAUGHT' if caught else 'MISSED') + ' ' + tests, res
    finally:
        shutil.rmtree(scratch, ignore_errors=True)


def main():
    global FORCE, NEUTRAL
    argv = sys.argv[1:]
    NEUTRAL = '--neutral' in argv
    if '--check' in argv:
        i = argv.index('--check')
        FORCE = argv[i + 1]
        del argv[i:i + 2]
    args = [a for a in argv if not a.startswith('--')]
    tier = 'thorough' if '--thorough' in sys.argv else 'quick'
    paths = args or sorted(glob.glob(os.path.join(HERE, 'mutants', '*.patch')) + glob.glob(os.path.join(HERE, 'seeded', '*', 'patch.diff')))
    if NEUTRAL:
        paths = args or sorted(glob.glob(os.path.join(HERE, 'neutral', '*', 'patch.diff')))
    bad = 0
    results = {}
    with ThreadPoolExecutor(max_workers=int(os.environ.get('VERIF_JOBS', '8'))) as ex:
        for path, verdict, detail in ex.map(lambda p: one(p, tier), paths):
            print(f'{verdict:22s} {os.path.relpath(path, HERE)}')
            results[os.path.relpath(path, HERE)] = {'verdict': verdict, 'tier': tier,
                                                    'checks': [{'property': d[0], 'rc': d[1], 'violation_lines': d[2], 'first': d[3]} for d in detail] if isinstance(detail, list) else str(detail)}
            if not verdict.startswith('QUIET tests-pass' if NEUTRAL else 'CAUGHT tests-pass'):
                bad += 1
                print('    ', detail)
            elif '-v' in sys.argv:
                print('    ', detail)
    for d in glob.glob(os.path.join(HERE, '.work', 'noevidence-*')):
        shutil.rmtree(d, ignore_errors=True)
    if NEUTRAL:
        if not args:
            with open(os.path.join(HERE, 'neutral_results.json'), 'w') as f:
                json.dump(results, f, indent=1, sort_keys=True)
        print(f'{len(paths) - bad}/{len(paths)} behaviour-preserving changes left all twenty quick checks quiet')
        sys.exit(1 if bad else 0)
    if not FORCE and tier == 'quick':
        # keep the table that DESIGN.md section 9 is generated from (tools/mkcatchtable.py): a full run rewrites it, a run on named patches updates their entries
        rp = os.path.join(HERE, 'selftest_results.json')
        if args and os.path.exists(rp):
            merged = json.load(open(rp))
            merged.update(results)
            results = {k: v for k, v in merged.items() if os.path.exists(os.path.join(HERE, k))}
        with open(rp, 'w') as f:
            json.dump(results, f, indent=1, sort_keys=True)
    print(f'{len(paths) - bad}/{len(paths)} deliberate breaks caught with the repository tests still passing')
    sys.exit(1 if bad else 0)


if __name__ == '__main__':
    main()

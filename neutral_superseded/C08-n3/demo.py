import hashlib, random
from bitarray import bitarray
from pytoniq_core.boc.cell import Cell
from pytoniq_core.boc.builder import Builder
from pytoniq_core.boc.slice import Slice
from pytoniq_core.boc.tvm_bitarray import TvmBitarray

rnd = random.Random(8083)
out = hashlib.sha256()

def rbits(n):
    return bitarray(format(rnd.getrandbits(n + 1), '0%db' % (n + 1))[1:])

def snap(c):
    return (c.hash, c.bits.to01(), type(c.bits).__name__, tuple(r.hash for r in c.refs), c.type_, c.data,
            c.to_boc(), c.to_boc(True, True), repr(c), c.get_depth(0), c.level_mask.mask)

cells, builders, slices, snaps = [Cell.empty()], [Builder()], [], {}
def add(c):
    cells.append(c); snaps[len(cells) - 1] = snap(c)
snaps[0] = snap(cells[0])

for step in range(1500):
    op = rnd.randrange(12)
    c = rnd.choice(cells); b = rnd.choice(builders); s = rnd.choice(slices) if slices else c.begin_parse()
    if op == 0:       # cell straight from a plain bit array / a TvmBitarray / a slice of one, refs from a list
        bits = rbits(rnd.choice([0, 1, 8, 500, 1023, rnd.randrange(1024)]))
        bits = [bits, TvmBitarray(1023, bits), TvmBitarray(1023, bits)[: len(bits) // 2]][step % 3]
        refs = [rnd.choice(cells) for _ in range(rnd.randint(0, 4))]
        keep = (bits.to01(), list(refs))
        add(Cell(bits, refs))
        assert (bits.to01(), list(refs)) == keep and cells[-1].bits == bits and type(cells[-1].bits) is type(bits)
    elif op == 1: builders.append(c.to_builder())
    elif op == 2: slices.append(c.begin_parse())
    elif op == 3: add(b.end_cell())
    elif op == 4: add(c.copy()); assert cells[-1] == c
    elif op == 5 and b.available_bits > 40: b.store_uint(rnd.getrandbits(32), 32).store_bit(1).store_bits(rbits(7))
    elif op == 6 and b.available_refs: b.store_ref(c)
    elif op == 7 and s.remaining_bits: s.load_bits(rnd.randint(1, s.remaining_bits)); s.remaining_bits and s.load_bit()
    elif op == 8 and s.remaining_refs: add(s.load_ref())
    elif op == 9: add(s.to_cell()); slices.append(s.copy()); slices.append(Slice.from_cell(c))
    elif op == 10 and s.remaining_bits + b.used_bits <= 1023 and s.remaining_refs <= b.available_refs:
        b.store_slice(s); builders.append(s.to_builder()); add(b.to_cell()); slices.append(b.to_slice())
    elif op == 11:
        back = Cell.one_from_boc(c.to_boc(step % 2 == 0, step % 3 == 0))
        assert back == c and snap(back)[:2] == snap(c)[:2]
        add(back)
    if step % 25 == 0 or step == 1499:   # nothing created earlier has changed, whatever was done to derived objects
        assert all(snap(x) == snaps[i] for i, x in enumerate(cells)), step
for i, x in enumerate(cells):
    out.update(repr(snaps[i]).encode())
for bd in builders:
    out.update(repr(bd).encode() + bd.end_cell().hash)
for sl in slices:
    out.update(repr(sl).encode() + sl.to_cell().hash)
# the bit array a cell was made from is modified afterwards: hash, data and serialisation were fixed at creation
for n in range(0, 1023, 11):
    bits = rbits(n); c = Cell(bits, [cells[n % len(cells)]]); fixed = (c.hash, c.data, c.to_boc(), c.get_representation())
    bits.append(1); bits.invert(0)
    assert (c.hash, c.data, c.to_boc(), c.get_representation()) == fixed == (c.hash, c.data, c.to_boc(), c.get_representation())
    out.update(c.hash)
for bad in ('0101', [0, 1], b'\x01', None, 5):
    try: Cell(bad, []); raise SystemExit('accepted %r' % (bad,))
    except Exception: pass
print(len(cells), len(builders), len(slices), out.hexdigest())

import hashlib, random
from bitarray import bitarray
from pytoniq_core import Cell, Builder, begin_cell
from pytoniq_core.boc.cell import CellError
from pytoniq_core.boc.tvm_bitarray import TvmBitarray

rnd = random.Random(202)
acc = hashlib.sha256()

def ref_hash(bits: str, refs):  # independent TON representation hash / depth, refs = [(hash, depth)]
    n = len(bits)
    padded = bits + ('1' + '0' * (7 - n % 8) if n % 8 else '')
    data = int(padded, 2).to_bytes(len(padded) // 8, 'big') if padded else b''
    d = bytes([len(refs), n // 8 + (n + 7) // 8]) + data
    d += b''.join(r[1].to_bytes(2, 'big') for r in refs) + b''.join(r[0] for r in refs)
    return hashlib.sha256(d).digest(), (1 + max(r[1] for r in refs)) if refs else 0

def record(c, tag=''):
    acc.update(tag.encode() + c.hash + c.get_depth().to_bytes(2, 'big') + c.get_data_bytes() + c.data
               + c.get_descriptors(c.level_mask) + c.get_representation() + bytes([c.level_mask.mask]))
    acc.update(c.get_refs_descriptor(c.level_mask) + c.get_bits_descriptor() + c.get_descriptors())
    for lvl in range(4):
        acc.update(c.get_hash(lvl) + c.get_depth(lvl).to_bytes(2, 'big'))
    acc.update(c.calculate_representation_hash())
    assert c.hash == c.get_hash(3) and (c.is_exotic or c.level_mask.mask or c.calculate_representation_hash() == c.hash)

pool = []  # (cell, bitstring, [(hash, depth)])
for n in list(range(0, 1024)) + [rnd.randrange(1024) for _ in range(300)]:
    bits = ''.join(rnd.choice('01') for _ in range(n)) if n % 7 else rnd.choice('01') * n
    k = rnd.choice([0, 0, 1, 2, 3, 4]) if pool else 0
    kids = [rnd.choice(pool[-40:]) for _ in range(k)]
    if k > 1 and rnd.random() < .3:
        kids[1] = kids[0]  # sharing
    exp = ref_hash(bits, [(x[0].hash, x[0].get_depth()) for x in kids])
    refs = [x[0] for x in kids]
    route = rnd.randrange(4)
    if route == 0:
        b = Builder().store_bits(bits)
        for r in refs:
            b.store_ref(r)
        c = b.end_cell()
    elif route == 1:
        c = Cell(bitarray(bits), list(refs))
    elif route == 2:
        t = TvmBitarray(1023); t.extend(bits)
        c = Cell(t, list(refs)).begin_parse().to_cell()
    else:
        c = Cell.one_from_boc(Cell(bitarray(bits), list(refs)).copy().to_boc(hash_crc32=bool(n % 2)))
    assert (c.hash, c.get_depth()) == exp, n
    assert c.bits.to01() == bits and c.get_data_bytes() == c.data
    record(c, 'o%d' % n)
    pool.append((c, bits, None))
    assert len({c: 1, c.copy(): 2}) == 1 and c == c.copy() and c.__hash__() == int.from_bytes(exp[0], 'big')

# chains up to the depth limit
c = begin_cell().store_uint(5, 3).end_cell()
for i in range(1023):
    c = begin_cell().store_uint(i, 10).store_ref(c).end_cell()
assert c.get_depth() == 1023
record(c, 'deep')
try:
    begin_cell().store_ref(c).end_cell(); raise SystemExit('depth 1024 accepted')
except CellError:
    pass

# exotic cells exercise the multi-level branch of the hash computation
for i in range(60):
    inner = rnd.choice(pool)[0]
    pr = Builder().store_uint(1, 8).store_uint(1, 8).store_bytes(inner.hash).store_uint(inner.get_depth(), 16)
    pruned = Cell(pr.end_cell().bits, [], 1)
    mid = begin_cell().store_uint(i, 9).store_ref(pruned).store_ref(rnd.choice(pool)[0]).end_cell()  # level 1
    mp = Builder().store_uint(3, 8).store_bytes(mid.get_hash(0)).store_uint(mid.get_depth(0), 16)
    proof = Cell(mp.end_cell().bits, [mid], 3)
    mu = Builder().store_uint(4, 8).store_bytes(mid.get_hash(0)).store_bytes(pruned.get_hash(0))
    mu.store_uint(mid.get_depth(0), 16).store_uint(pruned.get_depth(0), 16)
    upd = Cell(mu.end_cell().bits, [mid, pruned], 4)
    for j, x in enumerate((pruned, mid, proof, upd, Cell.one_from_boc(proof.to_boc()), upd.copy())):
        record(x, 'x%d' % j)
    assert pruned.get_hash(0) == inner.hash and mid.level_mask.mask == 1 and proof.level_mask.mask == 0
from pytoniq_core.boc.exotic import LevelMask
for m in range(8):
    lm = LevelMask(m)
    assert (lm.mask, lm.level, lm.hash_index) == (m, lm.get_level(), lm.get_hash_index()) == (m, m.bit_length(), bin(m).count('1'))
    acc.update(bytes([lm.mask, lm.level, lm.hash_index] + [lm.apply(l).mask for l in range(5)] + [lm.is_significant(l) for l in range(4)]))
print('digest', acc.hexdigest())

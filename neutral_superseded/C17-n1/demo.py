import hashlib, random
from pytoniq_core.boc import Builder, Cell, Slice
from pytoniq_core.tlb.vm_stack import (VmStack, VmStackList, VmStackValue, VmTuple, VmTupleRef,
                                        VmCont, VmControlData)

rnd = random.Random(1717)
H = hashlib.sha256()
INTS = [0, 1, -1, 2**62, 2**63 - 1, 2**63, -2**63, -2**63 - 1, 2**64, 2**255, 2**256 - 1, -2**256]

def rcell(refs=2):
    b = Builder().store_bytes(rnd.randbytes(rnd.randrange(0, 40)))
    for _ in range(rnd.randrange(0, refs + 1)):
        b.store_ref(rcell(0).end_cell())
    return b

def rcont(d=0):
    cd = VmControlData('vm_ctl_data', save=None, nargs=rnd.choice([None, 0, 5]), cp=rnd.choice([None, 0, -1]))
    k = rnd.randrange(4 if d > 2 else 7)
    if k == 0: return VmCont('vmc_quit', exit_code=rnd.randrange(-2**31, 2**31))
    if k == 1: return VmCont('vmc_quit_exc')
    if k == 2: return VmCont('vmc_std', cdata=cd, code=rcell().to_slice())
    if k == 3: return VmCont('vmc_pushint', value=rnd.randrange(-5, 5), next=VmCont('vmc_quit_exc'))
    if k == 4: return VmCont('vmc_envelope', cdata=cd, next=rcont(d + 1))
    if k == 5: return VmCont('vmc_repeat', count=rnd.randrange(2**63), body=rcont(d + 1), after=rcont(d + 1))
    return VmCont('vmc_while_cond', cond=rcont(d + 1), body=rcont(d + 1), after=rcont(d + 1))

def rvalue(d=0):
    k = rnd.randrange(8 if d < 4 else 6)
    if k == 0: return None
    if k == 1: return rnd.choice(INTS) if rnd.random() < .5 else rnd.randrange(-2**256, 2**256) >> rnd.randrange(0, 257)
    if k == 2: return rcell().end_cell()
    if k == 3: return rcell().to_slice()
    if k == 4: return rcell()
    if k == 5: return rcont()
    return VmTuple([rvalue(d + 1) for _ in range(rnd.choice([0, 1, 2, 3, 4, 7]))])

def norm(v):  # comparable normal form of a value (Slice/Builder/VmTuple/VmCont have no ==)
    if v is None or isinstance(v, (int, str)): return repr(v)
    if isinstance(v, Cell): return 'c' + v.hash.hex()
    if isinstance(v, Slice): return 's' + v.to_cell().hash.hex()
    if isinstance(v, Builder): return 'b' + v.end_cell().hash.hex()
    if isinstance(v, (list, VmTuple)): return type(v).__name__ + '[' + ','.join(norm(x) for x in v) + ']'
    return type(v).__name__ + '{' + ','.join(k + '=' + norm(x) for k, x in sorted(vars(v).items()) if x is not None) + '}'

def check(stack):
    before = norm(stack)
    c1 = VmStack.serialize(stack); c2 = VmStack.serialize(stack)
    assert c1 == c2 and norm(stack) == before, 'serialising changed the values'
    s = c1.begin_parse(); back = VmStack.deserialize(s)
    assert norm(back) == before, (before, norm(back))
    assert s.remaining_bits == 0 and s.remaining_refs == 0
    H.update(c1.hash + c1.to_boc()); H.update(norm(back).encode())

for n in [0, 1, 2, 3] + [rnd.randrange(0, 12) for _ in range(250)]:
    check([rvalue() for _ in range(n)])
for n in (100, 400):  # deep stacks and long / nested tuples, still within the old recursion budget
    check([rnd.choice(INTS) for _ in range(n)])
    check([VmTuple(list(range(n // 2))), VmTuple([]), 5])
t = 7
for _ in range(60): t = VmTuple([t] if rnd.random() < .5 else [None, t, VmTuple([1, 2, 3])])
check([t, t])
for n in range(0, 9):  # the building blocks called directly
    vals = [rvalue(2) for _ in range(n)]
    tup = VmTuple(list(vals))
    for scheme in (VmTuple, VmTupleRef):
        c = scheme.serialize(tup); s = c.begin_parse()
        assert [norm(x) for x in tup.list] == [norm(x) for x in vals] and len(tup) == n
        back = scheme.deserialize(s, n)
        assert isinstance(back, VmTuple) and norm(back.list) == norm(vals) and s.remaining_refs == 0
        H.update(c.hash)
    lst = list(vals); c = VmStackList.serialize(lst); s = c.begin_parse()
    H.update(c.hash + bytes([len(lst)])); assert norm(VmStackList.deserialize(s, n)) == norm(vals)
    assert s.remaining_bits == 0 and s.remaining_refs == 0
print('digest', H.hexdigest())

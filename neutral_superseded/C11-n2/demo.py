import hashlib, random
from pytoniq_core.boc import Cell, Builder
from pytoniq_core.boc.cell import CellError
from pytoniq_core.proof.check_proof import check_proof, ProofError

rnd = random.Random(1102)
H = hashlib.sha256()
def rand_tree(d, pool):
    n = rnd.choice([0, 1, 7, 8, 9, 64, 255, 1023]) if rnd.random() < .3 else rnd.randrange(40)
    b = Builder().store_bits(''.join(rnd.choice('01') for _ in range(n)))
    for _ in range(rnd.randrange(5) if d else 0):
        b.store_ref(rnd.choice(pool) if pool and rnd.random() < .2 else rand_tree(d - 1, pool))
    pool.append(b.end_cell())
    return pool[-1]
def special(raw, refs, t):
    return Cell(Builder().store_bytes(raw).end_cell().bits, refs, t)
def pruned(c, L):  # pruned branch standing for c in a proof of nesting level L
    M = c.level_mask.mask | 1 << (L - 1)
    lv = [0] + [l for l in range(1, L) if M >> (l - 1) & 1]
    return special(bytes([1, M]) + b''.join(c.get_hash(l) for l in lv) + b''.join(c.get_depth(l).to_bytes(2, 'big') for l in lv), [], 1)
def rebuild(c, f, top=True):
    r = None if top else f(c)
    return r if r is not None else Cell(c.bits, [rebuild(x, f, False) for x in c.refs], c.type_)
def prune(c, p, L):
    return rebuild(c, lambda x: pruned(x, L) if x.level_mask.level < L and rnd.random() < p else None)
def proof(orig, body):
    return special(b'\x03' + orig.get_hash(0) + orig.get_depth(0).to_bytes(2, 'big'), [body], 3)
def cells(c):
    out, st = [], [c]
    while st:
        out.append(st.pop()); st.extend(out[-1].refs)
    return out
def dump(c):
    for x in cells(c):
        assert x.hash == x.get_hash(3) == x.copy().hash and (x.level_mask.mask or x.calculate_representation_hash() == x.hash)
        H.update(repr((x.hash, x.level_mask.mask, [x.get_hash(i) for i in range(4)], [x.get_depth(i) for i in range(4)],
                       x.data, x.get_representation(), x.calculate_representation_hash(), hash(x))).encode())

for case in range(150):
    X = rand_tree(4, [])
    P1 = prune(X, .3, 1); P12 = prune(P1, .3, 2); P123 = prune(P12, .3, 3)
    A, B, C = proof(X, P1), proof(X, P12), proof(X, P123)
    assert P1.get_hash(0) == X.hash and P1.get_depth(0) == X.get_depth(0) and A.level_mask.mask == 0
    assert C.get_hash(0) == B.get_hash(0) == A.hash and C.get_hash(1) == B.hash and C.level_mask.mask <= 3
    Y, Yc = (Builder().store_uint(case, 16).store_ref(m).store_ref(X).end_cell() for m in (A, C))
    outer = proof(Y, Yc)
    if case % 2:
        A, outer = Cell.one_from_boc(A.to_boc()), Cell.one_from_boc(outer.to_boc(hash_crc32=True))
    assert Yc.get_hash(0) == Y.hash and check_proof(A, X.hash) is None and check_proof(outer, Y.hash) is None
    X.calculate_hashes()  # public method, calling it again must not disturb anything
    for c in (X, A, C, outer): dump(c)
    for bad, h in ((P1, X.hash), (A, A.hash), (A, bytes(32)), (outer, X.hash), (A[0], X.hash)):
        try: check_proof(bad, h); raise SystemExit('accepted')
        except ProofError: pass
    for _ in range(4):  # flip one bit of one cell under the proof (data of an unpruned cell or a pruned hash/depth)
        t = rnd.choice(cells(A[0])); bits = t.bits.copy()
        i = rnd.randrange(16 if t.is_exotic else 0, len(bits)) if len(bits) else None
        if i is None: bits.append(1)
        else: bits[i] = not bits[i]
        try:  # a flipped depth can already make the cell unconstructible (CellError), otherwise the check rejects
            m = Cell(bits, t.refs, t.type_)
            bad = proof(X, m if t is A[0] else rebuild(A[0], lambda x: m if x is t else None))
            check_proof(bad, X.hash); raise SystemExit('accepted mutated proof')
        except (ProofError, CellError) as e: H.update(m.hash + bytes([isinstance(e, ProofError)]))
c = Cell.empty()
for i in range(1023): c = Builder().store_ref(c).end_cell()  # depth 1023 is the deepest allowed
try: Builder().store_ref(c).end_cell(); raise SystemExit('depth 1024 accepted')
except CellError as e: H.update(str(e).encode())
print('digest', H.hexdigest())

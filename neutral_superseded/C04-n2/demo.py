import hashlib
import random

from pytoniq_core import Builder, Cell
from pytoniq_core.boc.deserialize import Boc
from pytoniq_core.boc.tvm_bitarray import TvmBitarray, bitarray

rnd = random.Random(40402)
dig = hashlib.sha256()
COMBOS = [(i, c, k) for i in (False, True) for c in (False, True) for k in (False, True) if i or not k]


def cell(nbytes=None, refs=(), nbits=None):
    b = Builder()
    n = nbits if nbits is not None else (rnd.randrange(1024) if nbytes is None else min(nbytes * 8, 1023))
    if n:
        b.store_uint(rnd.getrandbits(n) | (1 << (n - 1)), n)
    for r in refs:
        b.store_ref(r)
    return b.end_cell()


def exotic(raw: bytes, refs, type_):
    bits = bitarray()
    bits.frombytes(raw)
    return Cell(TvmBitarray(1023, bits), list(refs), type_)


def pruned_and_proof():  # a merkle proof over a cell that has a pruned branch child
    hidden = cell(refs=[cell()])
    pruned = exotic(b'\x01\x01' + hidden.hash + hidden.get_depth(0).to_bytes(2, 'big'), [], 1)
    inner = cell(refs=[pruned, cell(0)])
    proof = exotic(b'\x03' + inner.get_hash(0) + inner.get_depth(0).to_bytes(2, 'big'), [inner], 3)
    assert pruned.get_hash(0) == hidden.hash and pruned.get_depth(0) == hidden.get_depth(0)
    return cell(refs=[proof, pruned])


def chain(total):  # a chain of distinct cells whose cell data is exactly `total` bytes
    for w in (1, 2):  # width of a cell index: 2 from 256 cells on
        m = (total - 130 - 2 * (2 + w) - 100) // (130 + w)
        if (m + 3 >= 256) == (w == 2):
            break
    x = total - 130 - (130 + w) * m - 2 * (2 + w)
    top = cell(128)
    for _ in range(m):
        top = cell(128, refs=[top])
    return cell(x - min(128, x), refs=[cell(min(128, x), refs=[top])])


def check(root, expect_cells=None, expect_size=None):
    seen = list(root.order())
    assert seen[0] is root and len(set(c.hash for c in seen)) == len(seen)
    for c in seen[:300]:
        assert c.data == c.get_data_bytes() and c.hash == c.get_hash(3)
        assert c.level_mask.mask or c.hash == c.calculate_representation_hash()
        idx = {r: rnd.randrange(70000) for r in c.refs}
        ser = c.serialize(idx, 3)
        assert ser == c.get_descriptors(c.level_mask) + c.data + b''.join(idx[r].to_bytes(3, 'big') for r in c.refs)
        dig.update(ser + c.get_representation() + b''.join(c.get_hash(l) + bytes([c.get_depth(l) % 256]) for l in range(4)))
    for has_idx, has_crc, cache in COMBOS:
        boc = root.to_boc(has_idx, has_crc, cache)
        assert boc == root.to_boc(has_idx=has_idx, hash_crc32=has_crc, has_cache_bits=cache, flags=0)
        h = Boc.deserialize_boc_header(boc)
        assert h['cells_num'] == len(seen) == (expect_cells or len(seen)) and h['roots_num'] == 1 and h['absent_num'] == 0
        assert h['tot_cells_size'] == (expect_size or h['tot_cells_size']) and h['root_list'] == [0]
        assert Cell.one_from_boc(boc).hash == root.hash
        dig.update(hashlib.sha256(boc).digest())


for _ in range(150):  # random DAGs with sharing
    pool = [cell(), cell(0)]
    for _ in range(rnd.choice([0, 1, 3, 10, 40])):
        pool.append(cell(refs=rnd.sample(pool, rnd.randrange(min(4, len(pool)) + 1))))
    check(cell(refs=pool[-3:]))
for _ in range(20):
    check(pruned_and_proof())
for k in range(120, 129):  # single cells around 127/128 bytes of cell data
    check(cell(k), 1, k + 2)
for n in (253, 254, 255, 256, 257):  # index width 1 -> 2
    check(chain(240 + 131 * (n - 3) + (n > 255) * (n - 1)), n)
for total in (32767, 32768, 65535, 65536, 65537):  # offset width 2 -> 3 (earlier when index entries are doubled)
    check(chain(total), None, total)
for a, b2 in [(123, 124), (124, 124), (124, 125), (125, 125)]:  # two cells around 255/256 bytes of cell data
    check(cell(a, refs=[cell(b2)]), 2, a + b2 + 5)
print('digest', dig.hexdigest())

import base64, hashlib, random
from bitarray import bitarray
from pytoniq_core.boc import Cell, Slice, Builder
from pytoniq_core.boc.deserialize import Boc

rnd = random.Random(30301)
H = hashlib.sha256()
OPTS = [(0, 0, 0), (0, 1, 0), (1, 0, 0), (1, 1, 0), (1, 0, 1), (1, 1, 1)]

def rbits(n):
    return bitarray([rnd.getrandbits(1) for _ in range(n)])

def exotic(pool):
    k = rnd.randrange(3)
    if k == 0:  # library reference
        return Cell(bitarray('00000010') + rbits(256), [], 2)
    if k == 1:  # pruned branch of level 1
        return Cell(bitarray('0000000100000001') + rbits(256) + bitarray('0000000000000101'), [], 1)
    c = rnd.choice(pool)  # merkle proof over an existing cell
    b = bitarray('00000011'); b.frombytes(c.get_hash(0) + c.get_depth(0).to_bytes(2, 'big'))
    return Cell(b, [c], 3)

def dag(n):
    pool = [Cell(rbits(rnd.choice([0, 1, 7, 8, 9, 1016, 1022, 1023])), [], -1)]
    for _ in range(n - 1):
        if rnd.random() < 0.15:
            pool.append(exotic(pool)); continue
        refs = [rnd.choice(pool[-6:] if rnd.random() < (.7 if n < 300 else .02) else pool) for _ in range(rnd.randrange(5))]
        pool.append(Cell(rbits(rnd.choice([0, 3, 8, 64, 255, 256, 1023, rnd.randrange(1024)])), refs, -1))
    return Cell(rbits(rnd.randrange(40)), pool[-4:], -1)

def dump(root, seen):
    stack = [root]
    while stack:
        c = stack.pop()
        if c.hash in seen:
            continue
        seen.add(c.hash)
        H.update(c.hash + bytes([len(c.refs), c.type_ & 255]) + len(c.bits).to_bytes(2, 'big') + c.bits.tobytes())
        H.update(b''.join(r.hash for r in c.refs)); stack.extend(c.refs)

def check(root):
    for idx, crc, cache in OPTS:
        raw = root.to_boc(has_idx=bool(idx), hash_crc32=bool(crc), has_cache_bits=bool(cache))
        H.update(raw)
        forms = [raw, raw.hex(), base64.b64encode(raw).decode()]
        for f in forms:
            got = Cell.one_from_boc(f)
            assert got.hash == root.hash and got.type_ == root.type_ and got.bits == root.bits
            dump(got, set())
            s = Slice.one_from_boc(f); assert s.to_cell().hash == root.hash
            b = Builder.one_from_boc(f); assert b.end_cell().hash == root.hash
            assert [c.hash for c in Builder.from_boc(f)] == [root.hash] == [c.hash for c in Cell.from_boc(f)]
        assert got.to_boc(bool(idx), bool(crc), bool(cache)) == raw

sizes = [1, 1, 2, 3, 5, 8, 13, 40, 120, 255, 256, 257, 700] + [rnd.randrange(1, 60) for _ in range(25)]
for n in sizes:
    check(dag(n))
chain = Cell(rbits(5), [], -1)          # a deep chain and a wide, heavily shared bag (> 65535 bytes of cell data)
for i in range(900):
    chain = Cell(rbits(i % 9), [chain], -1)
check(chain)
check(dag(3000))
for n in list(range(0, 20)) + [1015, 1016, 1017, 1022, 1023] + [rnd.randrange(1024) for _ in range(150)]:
    c = Cell(rbits(n), [], -1)           # direct calls of the public static helper, every ref index width
    for w in (1, 2, 3, 4):
        nrefs = rnd.randrange(5)
        idxs = [rnd.randrange(256 ** w) for _ in range(nrefs)]
        body = bytes([nrefs]) + c.get_bits_descriptor() + c.data + b''.join(x.to_bytes(w, 'big') for x in idxs)
        cell, used = Boc.deserialize_cell(body + bytes(rnd.randrange(4)), w)
        assert used == len(body) and cell['refs'] == idxs and cell['bits'] == c.bits and cell['type'] == -1
        H.update(repr((used, cell['refs'], cell['bits'].to01(), type(cell['bits']).__name__)).encode())
small = dag(6).to_boc(has_idx=True)    # damaged bags (no CRC): same outcome class or same parse result
for t in range(400):
    m = bytearray(small)
    if t % 4 == 0:
        m = m[:rnd.randrange(len(m))]
    else:
        m[rnd.randrange(4, len(m))] = rnd.getrandbits(8)
    try:
        H.update(b''.join(c.hash for c in Cell.from_boc(bytes(m))))
    except Exception as e:
        H.update(type(e).__name__.encode())
print(H.hexdigest())

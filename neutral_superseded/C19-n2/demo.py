import hashlib, random, time
from pytoniq_core import Builder, Cell
from pytoniq_core.boc.cell import CellError

rnd, H = random.Random(1902), hashlib.sha256()
rec = lambda *a: H.update(repr(a).encode())
rbits = lambda n: ''.join(rnd.choice('01') for _ in range(n))
uint = lambda n, w: format(n, 'b').zfill(w)

def cell(bits, refs=(), type_=-1):
    b = Builder(type_=type_).store_bits(bits)
    for r in refs: b.store_ref(r)
    return b.end_cell()

def pruned(mask, maxd=900):  # pruned branch of any level mask: a hash and a depth per significant level
    n = bin(mask).count('1')
    return cell(uint(1, 8) + uint(mask, 8) + rbits(256 * n) + ''.join(uint(rnd.randint(0, maxd), 16) for _ in range(n)), type_=1)

def make(pool):  # one more cell on top of cells of the pool
    pick = lambda: rnd.choice(pool[-6:] if rnd.random() < .7 else pool)
    k = rnd.random()
    if k < .12 or not pool: return pruned(rnd.randint(1, 7)) if rnd.random() < .7 else cell(uint(2, 8) + rbits(256), type_=2)
    if k < .22: return cell(uint(3, 8) + rbits(256) + uint(rnd.randint(0, 50), 16), [pick()], 3)
    if k < .30: return cell(uint(4, 8) + rbits(512) + rbits(32), [pick(), pick()], 4)
    refs = [pick() for _ in range(rnd.randint(0, 4))]
    if refs and rnd.random() < .4: refs[-1] = refs[0]  # the same child twice
    return cell(rbits(rnd.choice([0, 1, 7, 8, 9, 64, 255, 1016, 1023, rnd.randint(0, 1023)])), refs)

def facts(c):
    boc = [c.to_boc(has_idx=i, hash_crc32=h, has_cache_bits=cb) for i in (0, 1) for h in (0, 1) for cb in (0, 1)]
    back = Cell.one_from_boc(boc[rnd.randrange(8)])
    assert back == c and back.hash == c.hash and hash(back) == hash(c) and c.copy() == c
    assert c.get_hash(3) == c.hash and len(c.hash) == 32 and (c.level_mask.mask or c.calculate_representation_hash() == c.hash)
    return ([c.get_hash(l).hex() for l in range(5)], [c.get_depth(l) for l in range(5)], [back.get_depth(l) for l in range(4)],
            c.level_mask.mask, c.get_representation(), c.calculate_representation_hash(), c.data, c.get_descriptors(c.level_mask), boc, repr(c),
            [(x.hash.hex(), i) for x, i in c.order().items()], c.serialize({r: 5 for r in c.refs}, 2), c.type_, c.is_exotic)

for trial in range(40):
    pool = []
    for _ in range(rnd.randint(1, 25)):
        try: pool.append(make(pool))
        except Exception as e: rec('rejected', type(e).__name__, str(e))
    for c in pool[-8:]: rec(facts(c))
    rec(str(pool[-1]) if trial < 5 else 0)
    seen = {pool[0]: None}; rec([x.hash.hex() for x in pool[-1].order(seen)])  # order() into a non-empty dict

for bad in (lambda: cell(uint(1, 8) + uint(1, 8) + rbits(272), [cell('1')], 1), lambda: cell(uint(9, 8), type_=9),
            lambda: cell(uint(3, 8) + rbits(272), [], 3), lambda: cell(uint(4, 8) + rbits(544), [cell('')], 4)):
    try: bad(); rec('accepted')
    except Exception as e: rec(type(e).__name__, str(e))

t = time.time()
c = d = cell('1'); top = pruned(5, 0)
for i in range(1023):  # depth 1023 is the deepest cell; one more level must be rejected; the same with maximal sharing
    c = cell(uint(i, 10), [c]); d = cell(uint(i, 10), [d, d, top, d])
    if i % 100 == 0 or i > 1015: rec(i, c.hash, c.get_depth(), d.hash, [d.get_depth(l) for l in range(4)], d.level_mask.mask)
rec(hashlib.sha256(d.to_boc(has_idx=True)).digest(), len(d.order()), Cell.one_from_boc(d.to_boc()).hash)
for deep in (c, d):
    try: cell('', [deep]); raise SystemExit('depth 1024 accepted')
    except CellError as e: rec(str(e))
assert time.time() - t < 20
print('digest', H.hexdigest())

import hashlib, random
from pytoniq_core import Address, ExternalAddress, Builder, Cell
from pytoniq_core.tlb.account import StateInit, TickTock
from pytoniq_core.tlb.block import CurrencyCollection, ExtraCurrencyCollection
from pytoniq_core.tlb.transaction import MessageAny, InternalMsgInfo, ExternalMsgInfo, ExternalOutMsgInfo, CommonMsgInfo

rnd = random.Random(1501)
H = hashlib.sha256()
def rec(*xs):
    H.update(repr(xs).encode())
def cell(nbits, nrefs=0):
    b = Builder().store_bits([rnd.getrandbits(1) for _ in range(nbits)])
    for _ in range(nrefs):
        b.store_ref(Builder().store_uint(rnd.getrandbits(32), 32).end_cell())
    return b.end_cell()
def addr():
    a = Address((rnd.choice([0, -1, 5, -128, 127]), rnd.randbytes(32)))
    if rnd.random() < 0.25:
        d = rnd.randint(1, 30); a.set_anycast(d, rnd.getrandbits(d))
    return a
def ext():
    if rnd.random() < 0.3: return None
    n = rnd.choice([1, 8, 9, 64, 255, 256, 511]); return ExternalAddress(rnd.getrandbits(n) | 1 << (n - 1), n)
def coins(): return rnd.choice([0, 1, 255, 256, 10**9, (1 << 120) - 1, rnd.getrandbits(rnd.randint(1, 120))])
def cc():
    d = {rnd.getrandbits(32): rnd.getrandbits(rnd.randint(1, 248)) | 1 for _ in range(rnd.choice([0, 0, 1, 2, 5]))}
    return CurrencyCollection(coins(), ExtraCurrencyCollection(d))
def info():
    k = rnd.randrange(3)
    if k == 0:
        return InternalMsgInfo(rnd.random() < .5, rnd.random() < .5, rnd.random() < .5, addr(), addr(), cc(), coins() >> 60, coins() >> 60,
                               rnd.getrandbits(64), rnd.getrandbits(32))
    if k == 1: return ExternalMsgInfo(ext(), addr(), coins())
    return ExternalOutMsgInfo(addr(), ext(), rnd.getrandbits(64), rnd.getrandbits(32))
def init():
    if rnd.random() < 0.3: return None
    o = lambda: cell(rnd.randint(0, 64), rnd.randint(0, 2)) if rnd.random() < .6 else None
    return StateInit(rnd.choice([None, 0, 31, 7]), rnd.choice([None, TickTock(True, False), TickTock(False, True)]), o(), o(), o())
def view(m):
    i = m.info; d = dict(i.__dict__)
    if 'value' in d: d['value'] = (i.value.grams, sorted((i.value.other.dict or {}).items()))
    d = {k: (str(v) if isinstance(v, (Address, ExternalAddress)) else v) for k, v in d.items()}
    a = lambda x: None if x is None else (x.wc, x.hash_part, x.anycast) if isinstance(x, Address) else (x.external_address, x.len)
    s = m.init and (m.init.split_depth, m.init.special and (m.init.special.tick, m.init.special.tock),
                    [c and c.hash for c in (m.init.code, m.init.data, m.init.library)])
    return type(i).__name__, sorted(d.items()), a(i.src), a(i.dest), s, m.body.hash

sizes = [0, 1, 2, 7, 8, 100, 300, 400, 500, 600, 700, 800, 900, 1000, 1021, 1022, 1023]
for n in range(700):
    nb = rnd.choice(sizes + [rnd.randint(0, 1023)] * 12) if n % 3 else rnd.randint(330, 760)
    m = MessageAny(info(), init(), cell(nb, rnd.randint(0, 4)))
    c = m.serialize()
    assert len(c.bits) <= 1023 and len(c.refs) <= 4
    p = MessageAny.deserialize(c.begin_parse())
    assert view(p) == view(m), n
    assert p.serialize().hash == c.hash
    c2 = Cell.one_from_boc(c.to_boc())
    assert view(MessageAny.deserialize(c2.begin_parse())) == view(m)
    # another valid encoding: init and body both by reference
    alt = Builder().store_cell(m.info.serialize())
    alt.store_bits('11').store_ref(m.init.serialize()) if m.init else alt.store_bit(0)
    alt = alt.store_bit(1).store_ref(m.body).end_cell()
    assert view(MessageAny.deserialize(alt.begin_parse())) == view(m)
    rec(c.hash, view(p), type(CommonMsgInfo.deserialize(m.info.serialize().begin_parse())).__name__)
    # invalid (truncated) input: same outcome class
    t = c.begin_parse().load_bits(rnd.choice([0, 1, 2, 3, 40]))
    try: r = type(CommonMsgInfo.deserialize(Builder().store_bits(t).end_cell().begin_parse())).__name__
    except Exception as e: r = 'raised'
    rec(r)
print(H.hexdigest())

import hashlib, random
from pytoniq_core.boc.cell import Cell
from pytoniq_core.boc.builder import Builder
from pytoniq_core.boc.slice import Slice
from pytoniq_core.tlb.vm_stack import VmStack, VmStackList, VmStackValue, VmTuple

rnd = random.Random(8082)
out = hashlib.sha256()

def rcell(depth=2):
    b = Builder().store_bits(format(rnd.getrandbits(200), '0200b')[:rnd.randrange(200)])
    for _ in range(rnd.randint(0, 3) if depth else 0):
        b.store_ref(rcell(depth - 1))
    return b.end_cell()

def rvalue(depth=2):
    k = rnd.randrange(7 if depth else 6)
    if k == 0: return None
    if k == 1: return rnd.randint(-2**62, 2**62)
    if k == 2: return rnd.choice([-1, 1]) * rnd.randint(2**63, 2**255)
    if k == 3: return rcell()
    if k == 4:
        s = rcell().begin_parse()
        s.skip_bits(rnd.randint(0, s.remaining_bits))
        for _ in range(rnd.randint(0, s.remaining_refs)): s.load_ref()
        return s
    if k == 5: return rcell().to_builder()
    n = rnd.choice([0, 1, 2, 3, 4, 5, 9, rnd.randrange(40)]) if depth < 2 else rnd.choice([0, 1, 2, 3, 7, 60, 100])
    return VmTuple([rvalue(depth - 1) for _ in range(n)])

def norm(v):
    if v is None or isinstance(v, int): return repr(v)
    if isinstance(v, Cell): return 'C' + v.hash.hex()
    if isinstance(v, Slice): return 'S' + v.to_cell().hash.hex()
    if isinstance(v, Builder): return 'B' + v.end_cell().hash.hex()
    return '(' + ','.join(norm(x) for x in v.list) + ')'

def check_stack(values, record=True):
    before = [norm(v) for v in values]
    cell = VmStack.serialize(values)
    assert [norm(v) for v in values] == before and VmStack.serialize(values) == cell, 'input changed'
    consumed = list(values)
    assert VmStackList.serialize(consumed).hash == cell.begin_parse().skip_bits(24).to_cell().hash and consumed == []
    boc = cell.to_boc()
    for source in (cell, Cell.one_from_boc(boc)):
        sl = source.begin_parse()
        assert [norm(v) for v in VmStack.deserialize(sl)] == before and sl.remaining_refs == 0
    assert cell.to_boc() == boc and [norm(v) for v in values] == before
    if record: out.update(cell.hash + boc + '|'.join(before).encode())

for n in list(range(12)) + [rnd.randrange(12, 120) for _ in range(25)] + [300]:
    check_stack([rvalue() for _ in range(n)])
for n in list(range(0, 7)) + [31, 200, 300]:   # one tuple of every small length on its own, and long ones
    check_stack([VmTuple([rvalue(1) for _ in range(n)])])
    t = VmTuple([rnd.randrange(100) for _ in range(n)])
    c = VmTuple.serialize(t)
    assert VmTuple.deserialize(c.begin_parse(), n).list == t.list and len(t) == n and VmTuple.serialize(t) == c
    out.update(c.hash)
for n in list(range(0, 300, 7)) + [126, 127, 128, 254, 255, 1000, 5000, 40000] + [rnd.randrange(3000) for _ in range(100)]:
    data = rnd.randbytes(n)
    pre = rnd.choice([0, 0, 8, 64, 1000, 1016])
    b = Builder().store_bits('1' * pre).store_snake_bytes(data)
    c = b.end_cell()
    assert c.begin_parse().skip_bits(pre).load_snake_bytes() == data and b.end_cell() == c
    odd = Builder().store_uint(5, 3).store_ref(Cell.empty()).store_snake_bytes(data).end_cell()
    out.update(c.hash + c.to_boc() + odd.hash)
for n in (990, 1015):  # deeper than the recursive code could always go: only checked when it works
    try:
        check_stack([i * 7 for i in range(n)], record=False)
        data = bytes(i % 251 for i in range(127 * n))
        assert Builder().store_snake_bytes(data).end_cell().begin_parse().load_snake_bytes() == data
    except RecursionError:
        pass
print(out.hexdigest())

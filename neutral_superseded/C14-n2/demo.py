import hashlib, random
from pytoniq_core.tl.generator import TlGenerator

R = random.Random(1402)
S = TlGenerator.with_default_schemas().generate()
RAW = TlGenerator.with_default_schemas().generate(); RAW._auto_deserialize = False
H = hashlib.sha256()
LENS = [0, 1, 2, 3, 4, 5, 7, 8, 251, 252, 253, 254, 255, 256, 257, 258, 259, 260, 1021, 70000]
INTS = {'#': (0, 2**32 - 1), 'int': (-2**31, 2**31 - 1), 'long': (-2**63, 2**63 - 1)}
nested = False
class Skip(Exception): pass

def gen(t, d):
    global nested
    if d > 5: raise Skip
    if t == 'Bool': return R.random() < .5
    if t in INTS: lo, hi = INTS[t]; return R.choice([lo, hi, 0, 1, R.randint(lo, hi)])
    if t in ('int128', 'int256'): return R.randbytes(S.base_types[t]).hex()
    if t == 'bytes':
        if R.random() < .1: nested = True; return obj(R.choice(S.list), d + 1)
        return R.randbytes(R.choice(LENS) if R.random() < .6 else R.randint(0, 40))
    if t == 'string': return ''.join(R.choice('abé世 z') for _ in range(R.choice(LENS[:-1])))
    if t in S.class_name_map: return obj(R.choice(S.class_name_map[t]), d + 1)
    if t.startswith('(vector '): return [gen(t.split()[1][:-1], d + 1) for _ in range(R.choice([0, 1, 2, 5]))]
    if t in S.name_map: return obj(S.name_map[t], d + 1)
    raise Skip

def obj(sch, d):
    if sch.is_empty() or S.name_map[sch.name] is not sch or S.id_map[sch.id] is not sch: raise Skip
    val, bits = {'@type': sch.name}, {}
    bit = {t.split('?')[0]: R.random() < .5 for t in sch.args.values() if '?' in t}
    opt = {f: bit[t.split('?')[0]] for f, t in sch.args.items() if '?' in t}
    for f, t in sch.args.items():
        if '?' in t:
            flag, idx = t.split('?')[0].split('.')
            if opt[f]: bits[flag] = bits.get(flag, 0) | (1 << int(idx))
    for f, t in sch.args.items():
        if '?' in t:
            if opt[f]: val[f] = gen(t.split('?')[1], d)
        elif f in ('mode', 'flags') and t in INTS: val[f] = bits.get(f, 0)
        else: val[f] = gen(t, d)
    return val

def strip(v):
    if isinstance(v, dict): return {k: strip(x) for k, x in v.items() if k != '@type'}
    return [strip(x) for x in v] if isinstance(v, list) else v

done = 0
for sch in S.list * 3:
    nested = False
    try: val = obj(sch, 0)
    except Skip: continue
    try:
        ser = S.serialize(sch, val)
        assert ser == RAW.serialize(sch.name, val) and ser[:4] == sch.id[::-1] and len(ser) % 4 == 0, sch.name
        out = [ser, S.deserialize(ser), RAW.deserialize(ser), S.serialize(sch, val, boxed=False)]
        assert out[3] == ser[4:] and RAW.deserialize(ser[4:], False, sch.args)[1] == len(ser) - 4
        if not nested:
            assert out[2][1] == len(ser) and strip(out[2][0]) == strip(val), sch.name
        done += 1
    except (AssertionError, RecursionError): raise
    except Exception: out = ['ERR', sch.name]
    cut = R.randbytes(R.randint(0, 12)) if R.random() < .2 else ser[:R.randint(0, len(ser))]  # truncated / unknown input
    for T in (S, RAW):
        try: out.append(T.deserialize(cut)); assert out[-1][0] is cut or isinstance(out[-1][0], dict)
        except AssertionError: raise
        except Exception as e: out.append(type(e).__name__)
    H.update(repr(out).encode())
# values of the wrong Python type are skipped silently, untouchable fields stay raw, class map lists every variant
for t in list(S.base_types) + ['PublicKey', 'adnl.Message', '(vector int)', '(foo int)']:
    for v in (None, 1.5, b'\x01\x02', 'ab', 7, True, [1, 2], (), {'@type': 'pub.aes', 'key': '11' * 32}):
        try: out = S.serialize_field(t, v)
        except Exception as e: out = type(e).__name__
        H.update(repr((t, v, out)).encode())
inner = S.serialize('dht.ping', {'random_id': 5})
for name, raw in (('adnl.message.part', True), ('adnl.message.custom', False), ('overlay.broadcastFec', True)):
    sch = S.get_by_name(name)
    val = {f: (inner if t == 'bytes' else gen(t, 0)) for f, t in sch.args.items()}
    res = S.deserialize(S.serialize(sch, val))[0]
    assert (res['data'] == inner) is raw and (raw or res['data'] == {'@type': 'dht.ping', 'random_id': 5})
    H.update(repr(res).encode())
for cls, variants in sorted(S.class_name_map.items()):
    assert S.get_by_class_name(cls) == variants == [x for x in S.list if not x.is_empty() and x.class_name == cls]
    H.update(repr((cls, [x.name for x in variants])).encode())
assert done > 1200, done
print(done, H.hexdigest())

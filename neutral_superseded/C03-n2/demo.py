import base64, hashlib, random
from bitarray import bitarray
from pytoniq_core.boc import Cell, Slice, Builder
from pytoniq_core.crypto.crc import crc32c, crc16

rnd = random.Random(30302)
H = hashlib.sha256()
OPTS = [(0, 0, 0), (0, 1, 0), (1, 0, 0), (1, 1, 0), (1, 0, 1), (1, 1, 1)]

def rbits(n):
    return bitarray([rnd.getrandbits(1) for _ in range(n)])

def exotic(pool):
    k = rnd.randrange(4)
    if k == 0:  # library reference
        return Cell(bitarray('00000010') + rbits(256), [], 2)
    if k == 1:  # pruned branch, level mask 1, 2 or 3 (one stored hash + depth per significant level)
        mask = rnd.choice([1, 2, 3]); n = bin(mask).count('1')
        b = bitarray('00000001'); b.frombytes(bytes([mask]) + rnd.randbytes(32 * n) + bytes([0, 7] * n))
        return Cell(b, [], 1)
    cs = [rnd.choice(pool) for _ in range(1 if k == 2 else 2)]  # merkle proof / merkle update
    b = bitarray('00000011' if k == 2 else '00000100')
    b.frombytes(b''.join(c.get_hash(0) for c in cs) + b''.join(c.get_depth(0).to_bytes(2, 'big') for c in cs))
    return Cell(b, cs, 3 if k == 2 else 4)

def dag(n):
    pool = [Cell(rbits(rnd.choice([0, 1, 7, 8, 9, 1016, 1022, 1023])), [], -1)]
    for _ in range(n - 1):
        if rnd.random() < 0.2:
            pool.append(exotic(pool)); continue
        refs = [rnd.choice(pool[-6:] if rnd.random() < (.7 if n < 300 else .02) else pool) for _ in range(rnd.randrange(5))]
        pool.append(Cell(rbits(rnd.choice([0, 3, 8, 64, 255, 256, 1023, rnd.randrange(1024)])), refs, -1))
    return Cell(rbits(rnd.randrange(40)), pool[-4:], -1), pool

def facts(c):  # everything the public accessors of one cell say
    H.update(c.hash + c.data + c.get_representation() + c.get_descriptors(c.level_mask) + bytes([c.level_mask.mask]))
    for lvl in range(4):
        H.update(c.get_hash(lvl) + c.get_depth(lvl).to_bytes(2, 'big'))
    assert c.data == c.get_data_bytes() and c.get_representation()[:2] == c.get_descriptors(c.level_mask)
    if c.level_mask.mask == 0:
        assert c.calculate_representation_hash() == c.hash == c.get_hash(0)
    idx = {r: rnd.randrange(256) for r in c.refs}
    for w in (1, 2, 4):
        ser = c.serialize(idx, w)
        assert ser == c.get_descriptors(c.level_mask) + c.data + b''.join(idx[r].to_bytes(w, 'big') for r in c.refs)
    H.update(repr(c).encode() + str(len(c.order())).encode() + b''.join(x.hash for x in c.order()))

for n in [1, 1, 2, 3, 5, 8, 13, 40, 120, 255, 256, 257, 600, 2500] + [rnd.randrange(1, 60) for _ in range(25)]:
    root, pool = dag(n)
    for c in rnd.sample(pool, min(len(pool), 40)) + [root]:
        facts(c)
    for idx, crc, cache in OPTS:
        for fl in (0, 1) if n < 20 else (0,):
            raw = root.to_boc(has_idx=bool(idx), hash_crc32=bool(crc), has_cache_bits=bool(cache), flags=fl)
            assert raw == root.to_boc(idx, crc, cache, fl)  # ints and bools are interchangeable here
            H.update(raw)
            if crc:
                assert raw[-4:] == crc32c(raw[:-4]) == crc32c(raw[:-4], 'big')[::-1]
            for f in (raw, raw.hex(), base64.b64encode(raw).decode()):
                got = Cell.one_from_boc(f)
                assert got.hash == root.hash and got.to_boc(idx, crc, cache, fl) == raw
                assert [x.hash for x in got.order()] == [x.hash for x in root.order()]
                assert Slice.one_from_boc(f).to_cell() == root and Builder.one_from_boc(f).end_cell() == root
            facts(got)
assert crc32c(b'123456789') == bytes.fromhex('839206e3') and crc16(b'123456789') == bytes.fromhex('31c3')
assert crc32c(b'') == bytes(4) and crc16(b'') == bytes(2)
for n in list(range(40)) + [255, 256, 257, 4096, 70000]:
    d = rnd.randbytes(n)
    H.update(crc32c(d) + crc32c(d, 'big') + crc16(d) + crc32c(bytearray(d)) + crc16(bytearray(d)))
print(H.hexdigest())

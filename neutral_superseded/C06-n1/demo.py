import hashlib
import random

from pytoniq_core import Builder, Cell, begin_cell

rnd = random.Random(60601)
dig = hashlib.sha256()


def note(*items):
    for it in items:
        dig.update(repr(it).encode() + b'|')


def chain_shape(cell):
    shape = []
    while True:
        shape.append((len(cell.bits), len(cell.refs)))
        if not cell.refs:
            return shape
        cell = cell.refs[-1]


leaf = begin_cell().store_uint(0xABCD, 16).end_cell()
lengths = [0, 1, 2, 126, 127, 128, 253, 254, 255, 381, 127 * 5, 127 * 5 + 1, 127 * 40 - 1, 127 * 300, 127 * 700 + 13]
lengths += [rnd.randrange(0, 2000) for _ in range(250)]
for n in lengths:
    data = rnd.randbytes(n)
    pre_bytes = rnd.choice([0, 0, 1, 5, 100, 126, 127])   # whole bytes already in the first cell
    pre_refs = rnd.choice([0, 0, 1, 2, 3])
    b = Builder().store_bytes(rnd.randbytes(pre_bytes))
    for _ in range(pre_refs):
        b.store_ref(leaf)
    b.store_snake_bytes(data)
    cell = b.end_cell()
    note(n, pre_bytes, pre_refs, cell.hash.hex(), chain_shape(cell)[:3], len(chain_shape(cell)))
    assert Cell.one_from_boc(cell.to_boc()).hash == cell.hash
    cs = cell.begin_parse()
    cs.skip_bits(pre_bytes * 8)
    for _ in range(pre_refs):
        assert cs.load_ref() is leaf
    out = cs.load_snake_bytes()
    assert type(out) is bytes and out == data
    assert cs.remaining_bits == 0 and cs.remaining_refs == 0
    note(hashlib.sha256(out).hexdigest())

# strings, with and without the zero prefix, including multi-byte characters split over cells
for n in [0, 1, 63, 64, 127, 128, 500, 3000]:
    for prefix in (False, True):
        text = ''.join(rnd.choice('aZ9 éЖ中\U0001F600') for _ in range(n))
        cell = begin_cell().store_uint(5, 8).store_snake_string(text, prefix).end_cell()
        cs = cell.begin_parse()
        assert cs.load_uint(8) == 5
        if prefix:
            assert cs.load_uint(8) == 0
        assert cs.load_snake_string() == text and cs.remaining_bits == 0 and cs.remaining_refs == 0
        note(n, prefix, cell.hash.hex())

# invalid inputs: same exception classes as before
full = Builder()
for _ in range(4):
    full.store_ref(leaf)
try:
    full.store_snake_bytes(b'x' * 200)
    raise SystemExit('no error on refs overflow')
except Exception as e:
    note(type(e).__name__, str(e), full.used_bits, len(full.refs))
for bad in (begin_cell().store_uint(1, 7).end_cell(),
            begin_cell().store_ref(leaf).store_ref(leaf).end_cell(),
            begin_cell().store_bytes(b'ab').store_ref(begin_cell().store_uint(1, 3).end_cell()).end_cell()):
    try:
        bad.begin_parse().load_snake_bytes()
        raise SystemExit('no error on malformed snake')
    except AssertionError as e:
        note('AssertionError', str(e))
print('digest', dig.hexdigest())

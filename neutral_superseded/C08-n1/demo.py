import hashlib, random
from bitarray import bitarray
from pytoniq_core.boc.cell import Cell
from pytoniq_core.boc.builder import Builder
from pytoniq_core.boc.tvm_bitarray import TvmBitarray

rnd = random.Random(808)
out = hashlib.sha256()
inputs = []  # (bit array handed to Cell, independent copy of its content)

def rbits(n, plain, prefix='', suffix=''):
    b = bitarray(prefix + ''.join(rnd.choice('01') for _ in range(n - len(prefix) - len(suffix))) + suffix)
    b = b if plain else TvmBitarray(1023, b)
    inputs.append((b, b.to01()))
    return b

def snap(c):
    parts = [c.hash, c.data, c.get_data_bytes(), c.get_representation(), c.get_descriptors(c.level_mask),
             c.calculate_representation_hash(), bytes([c.level_mask.mask]), c.__hash__().to_bytes(32, "big"), (hash(c) % 2**61).to_bytes(8, "big")]
    for lvl in range(4):
        parts += [c.get_hash(lvl), c.get_depth(lvl).to_bytes(2, 'big')]
    assert c.__hash__() == int.from_bytes(c.hash, 'big') and c.data == c.get_data_bytes()
    if c.type_ == -1 and c.level_mask.mask == 0:
        assert c.calculate_representation_hash() == c.hash == c.get_hash(0) == c.get_hash(3)
    return b'|'.join(parts)

def i2b(v, n):
    return format(v, '0%db' % n)

pool = [Cell(rbits(n, n % 2 == 0), []) for n in range(1024)]          # every data length, both bit array kinds
for i in range(300):                                                   # ordinary cells over random children
    refs = [rnd.choice(pool[-400:]) for _ in range(rnd.randint(1, 4))]
    if i % 3:
        pool.append(Cell(rbits(rnd.choice([0, 1, 7, 8, 9, 1015, 1016, 1017, 1023, rnd.randrange(1024)]), i % 2 == 0), refs))
    else:
        b = Builder().store_bits(rbits(rnd.randrange(900), True))
        for r in refs:
            b.store_ref(r)
        pool.append(b.end_cell())
for i in range(120):                                                   # exotic cells of every kind, nested
    kind = i % 4
    if kind == 0:
        mask = rnd.randint(1, 7); n = bin(mask).count('1')
        c = Cell(rbits(16 + 272 * n, i % 8 == 0, i2b(1, 8) + i2b(mask, 8),
                       ''.join(i2b(rnd.randrange(200), 16) for _ in range(n))), [], 1)
    elif kind == 1:
        c = Cell(rbits(8 + 256, True, i2b(2, 8)), [], 2)
    elif kind == 2:
        c = Cell(rbits(8 + 272, False, i2b(3, 8)), [rnd.choice(pool[-150:])], 3)
    else:
        c = Cell(rbits(8 + 544, True, i2b(4, 8)), [rnd.choice(pool[-150:]), rnd.choice(pool[-150:])], 4)
    pool.append(c)
    pool.append(Cell(rbits(rnd.randrange(1024), i % 2 == 1), [c] + [rnd.choice(pool[-60:]) for _ in range(rnd.randint(0, 3))]))

first = [snap(c) for c in pool]
lookup = {c: i for i, c in enumerate(pool)}
assert all(pool[lookup[c]].hash == c.hash for c in pool) and len(set(pool)) == len(lookup)
for c in pool[-200:] + pool[:1024:37]:
    for idx, crc, cache in [(0, 0, 0), (1, 0, 0), (0, 1, 0), (1, 1, 1)]:
        boc = c.to_boc(idx, crc, cache)
        assert boc == c.to_boc(idx, crc, cache)
        out.update(boc)
    back = Cell.one_from_boc(c.to_boc())
    assert back == c and snap(back) == snap(c) and back.to_boc() == c.to_boc()
    out.update(c.serialize({r: 5 for r in c.refs}, 2))
assert first == [snap(c) for c in pool], 'cells changed'
assert all(b.to01() == s for b, s in inputs), 'a bit array handed to Cell was modified'
for s in first:
    out.update(s)
print(len(pool), 'cells', out.hexdigest())

"""Demo for change 2: public behaviour of LevelMask and of Cell.get_hash/get_depth/level_mask on exotic trees."""
import hashlib, random
from bitarray import bitarray
from pytoniq_core.boc.cell import Cell, CellError
from pytoniq_core.boc.exotic import LevelMask, CellTypes
from pytoniq_core.boc.tvm_bitarray import TvmBitarray

rng = random.Random(2002)
dig = hashlib.sha256()

def mk(data: bytes, refs, t, nbits=None):
    b = bitarray(); b.frombytes(data)
    b = b[:nbits] if nbits is not None else b
    return Cell(TvmBitarray(1023, b) if rng.random() < .5 else b, list(refs), t)

def ordinary(refs):
    n = rng.choice([0, 1, 7, 8, 9, 255, 256, 1016, 1022, 1023, rng.randrange(1024)])
    return mk(rng.randbytes(128), refs, -1, n)

def sig(c):  # significant levels of c's own mask
    return [l for l in range(c.level_mask.level + 1) if c.level_mask.is_significant(l)]

def pruned(c, lvl):
    m = c.level_mask.mask | 1 << (lvl - 1)
    return mk(bytes([1, m]) + b''.join(c.get_hash(l) for l in sig(c))
              + b''.join(c.get_depth(l).to_bytes(2, 'big') for l in sig(c)), [], 1)

def proof(c): return mk(b'\x03' + c.get_hash(0) + c.get_depth(0).to_bytes(2, 'big'), [c], 3)
def update(a, b): return mk(b'\x04' + a.get_hash(0) + b.get_hash(0) + a.get_depth(0).to_bytes(2, 'big')
                            + b.get_depth(0).to_bytes(2, 'big'), [a, b], 4)

def gen(d, md):
    """-> (full tree, tree with pruned subtrees, level-0 hash must be invariant?)"""
    k = rng.random()
    if d == 0 or k < .15:
        c = mk(b'\x02' + rng.randbytes(32), [], 2) if k < .05 else ordinary([]); return c, c, True
    if k < .3 and md < 3:
        f, v, i = gen(d - 1, md + 1); return proof(f), proof(v), i
    if k < .4 and md < 3:
        (f1, v1, i1), (f2, v2, i2) = gen(d - 1, md + 1), gen(d - 1, md + 1)
        return update(f1, f2), update(v1, v2), i1 and i2
    subs = [gen(d - 1, md) for _ in range(rng.randrange(1, 5))]
    f, v, inv = ordinary([s[0] for s in subs]), None, all(s[2] for s in subs)
    v = Cell(f.bits.copy(), [s[1] for s in subs], -1)
    lo = max(md, v.level_mask.level + 1, 1)
    if lo <= 3 and rng.random() < .35:
        lvl = rng.randrange(lo, 4); return f, pruned(v, lvl), inv and lvl > md
    return f, v, inv

def record(c, seen):
    if c.hash in seen: return
    seen.add(c.hash)
    dig.update(bytes([c.level_mask.mask, c.level_mask.level, c.level_mask.hash_index]))
    for l in range(5):
        dig.update(c.get_hash(l) + c.get_depth(l).to_bytes(2, 'big'))
    assert c.get_hash(3) == c.hash == c.get_hash(4) and (c.level_mask.mask or c.hash == c.calculate_representation_hash())
    for r in c.refs: record(r, seen)

masks = set()
for n in range(400):
    f, v, inv = gen(rng.randrange(1, 6), 0)
    if inv: assert f.get_hash(0) == v.get_hash(0) and f.get_depth(0) == v.get_depth(0), n
    for c in (f, v):
        record(c, set()); boc = c.to_boc(hash_crc32=bool(n % 2)); dig.update(boc)
        c2 = Cell.one_from_boc(boc)
        assert [c2.get_hash(l) for l in range(4)] == [c.get_hash(l) for l in range(4)] and c2.to_boc() == c.to_boc()
        assert c2.level_mask.mask == c.level_mask.mask
    st = [v]
    while st: x = st.pop(); masks.add(x.level_mask.mask); st += x.refs
assert masks == set(range(8)), masks
for m in list(range(8)) + [rng.randrange(256) for _ in range(50)]:
    lm = LevelMask(m)
    assert (lm.mask, lm.level, lm.hash_index) == (m, lm.get_level(), lm.get_hash_index()) == (m, m.bit_length(), bin(m).count('1'))
    for l in range(10):
        a = lm.apply(l)
        assert isinstance(a, LevelMask) and a.mask == m & ((1 << l) - 1) and lm.mask == m
        dig.update(bytes([m, l, a.mask, a.level, a.hash_index, lm.is_significant(l)]))
assert (CellTypes.ordinary, CellTypes.pruned_branch, CellTypes.library_ref, CellTypes.merkle_proof, CellTypes.merkle_update) == (-1, 1, 2, 3, 4)
c = ordinary([]); h = [c.get_hash(l) for l in range(4)]
c.calculate_hashes(); assert h == [c.get_hash(l) for l in range(4)] and c.hash == h[3]  # recomputing is harmless
print(dig.hexdigest())

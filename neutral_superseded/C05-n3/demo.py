import hashlib, random
from pytoniq_core import Cell, Builder
from pytoniq_core.boc.deserialize import Boc
R, H = random.Random(50503), hashlib.sha256()
u = lambda v, k: v.to_bytes(k, 'big')
def ref_crc(b):  # independent bit-by-bit CRC32C (Castagnoli, reflected)
    c = 0xffffffff
    for x in b:
        c ^= x
        for _ in range(8): c = (c >> 1) ^ (0x82F63B78 if c & 1 else 0)
    return (c ^ 0xffffffff).to_bytes(4, 'little')
def dag(n, chain):  # cells in topological order: (bit string, refs to later cells)
    cs = []
    for i in range(n):
        refs = [R.randrange(i + 1, n) for _ in range(R.randint(0, min(4, n - 1 - i)))]
        if chain and i < n - 1: refs = ([i + 1] + refs)[:4]
        ln = R.choice([0, 1, 7, 8, 9, 64, 1016, 1023, R.randint(0, 300), R.randint(0, 40)])
        cs.append((''.join(R.choice('01') for _ in range(ln)), refs))
    exp = [None] * n
    for i in reversed(range(n)):
        b = Builder().store_bits(cs[i][0])
        for r in cs[i][1]: b.store_ref(exp[r])
        exp[i] = b.end_cell()
    return cs, exp
def enc(cs, exp, roots, sb, ob, idx, crc, cache, hashes, magic):  # foreign encoder with all freedoms
    body, ends = b'', []
    for (bits, refs), e in zip(cs, exp):
        n = len(bits); p = bits + ('1' + '0' * (7 - n % 8) if n % 8 else '')
        body += bytes([len(refs) | 16 * hashes, n // 8 * 2 + (n % 8 > 0)])
        if hashes: body += e.hash + u(e.get_depth(0), 2)
        body += u(int(p or '0', 2), len(p) // 8) + b''.join(u(r, sb) for r in refs)
        ends.append(len(body))
    index = b''.join(u(e * 2 + R.randint(0, 1) if cache else e, ob) for e in ends) if idx else b''
    if magic == 0: out = b'\xb5\xee\x9cr' + bytes([idx << 7 | crc << 6 | cache << 5 | sb, ob])
    else: out = (b'h\xffe\xf3', b'\xac\xc3\xa7(')[crc] + bytes([sb, ob])
    out += u(len(cs), sb) + u(len(roots), sb) + u(0, sb) + u(len(body), ob)
    if magic == 0: out += b''.join(u(r, sb) for r in roots)
    out += index + body
    return out + ref_crc(out) if crc else out
def outcome(data, also=Exception):  # how invalid input is reported is free: only "raises an Exception" is fixed
    keep = bytes(data)
    try: res = b'OK' + b''.join(c.hash for c in Cell.from_boc(data))
    except Exception as e: res = b'ERR'; assert isinstance(e, also), (type(e), also)
    assert data == keep
    return res
bad_refs = 0
for k in range(300):
    magic = R.choice([0, 0, 0, 1]); n = R.choice([1, 2, 3, 5, 17, R.randint(1, 60), 260 if k % 50 == 0 else 4])
    cs, exp = dag(n, chain=magic == 1 or R.random() < .3)
    inc = {r for _, rs in cs for r in rs}
    roots = [0] if magic else [i for i in range(n) if i not in inc] + [R.randrange(n) for _ in range(R.randint(0, 2))]
    R.shuffle(roots)
    idx = 1 if magic else R.randint(0, 1); cache = R.randint(0, 1) if idx and not magic else 0; crc = R.randint(0, 1)
    hashes = R.randint(0, 1)
    blen = sum(2 + 34 * hashes + (len(b) + 7) // 8 + 4 * len(r) for b, r in cs) * (2 if cache else 1)
    sb = R.randint((max(n, len(roots)).bit_length() + 7) // 8, 4); ob = R.randint((blen.bit_length() + 7) // 8, 8)
    args = (sb, ob, idx, crc, cache, hashes, magic)
    data = enc(cs, exp, roots, *args)
    got = outcome(data)
    assert got == b'OK' + b''.join(exp[r].hash for r in roots), k
    assert [c.hash for c in Boc(data).deserialize()] == [exp[r].hash for r in roots]
    H.update(got)  # the digest covers valid input only
    top = 256 ** sb - 1
    for kind in ('self', 'back', 'dangling', 'dangling-max', 'root'):  # reference-index corruptions, re-encoded
        i = R.randrange(n); bits, refs = cs[i]; refs = list(refs)
        v = {'self': i, 'back': R.randrange(i) if i else None, 'dangling': R.randint(n, min(top, n + 3)) if n <= top else None,
             'dangling-max': top if n <= top else None, 'root': R.randint(n, top) if n <= top and not magic else None}[kind]
        if v is None: continue
        cs2, roots2 = list(cs), list(roots)
        if kind == 'root': roots2[R.randrange(len(roots2))] = v
        else:
            if refs and (len(refs) == 4 or R.random() < .5): refs[R.randrange(len(refs))] = v
            else: refs.insert(R.randint(0, len(refs)), v)
            cs2[i] = (bits, refs)
        assert outcome(enc(cs2, exp, roots2, *args), IndexError if 'dangling' in kind or kind == 'root' else Exception) == b'ERR', (k, kind)
        bad_refs += 1
    cut = R.randrange(len(data)); bad = [data[:cut], data + bytes([R.getrandbits(8)]), data[:-1]]
    for _ in range(6 * crc):
        bit = R.randrange(len(data) * 8); m = bytearray(data); m[bit // 8] ^= 1 << bit % 8; bad.append(bytes(m))
    for b in bad: assert outcome(b) == b'ERR', k
assert bad_refs > 900
print(H.hexdigest())

import base64, hashlib, random
from bitarray import bitarray
from pytoniq_core.boc import Cell, Slice, Builder
from pytoniq_core.boc.deserialize import Boc, BocError

rnd = random.Random(30303)
H = hashlib.sha256()
OPTS = [(0, 0, 0), (0, 1, 0), (1, 0, 0), (1, 1, 0), (1, 0, 1), (1, 1, 1)]

def rbits(n):
    return bitarray([rnd.getrandbits(1) for _ in range(n)])

def dag(n):
    pool = [Cell(rbits(rnd.choice([0, 1, 7, 8, 1023])), [], -1)]
    for _ in range(n - 1):
        if rnd.random() < 0.1:
            pool.append(Cell(bitarray('00000010') + rbits(256), [], 2)); continue
        refs = [rnd.choice(pool[-6:] if rnd.random() < (.7 if n < 300 else .02) else pool) for _ in range(rnd.randrange(5))]
        pool.append(Cell(rbits(rnd.choice([0, 8, 255, 1023, rnd.randrange(1024)])), refs, -1))
    return Cell(rbits(rnd.randrange(40)), pool[-4:], -1)

def outcome(data, digest=True):  # hashes of the parsed roots, or the mere fact of a rejection (class/message are free)
    keep = data[:] if not isinstance(data, str) else data
    try:
        res = b''.join(c.hash + bytes([len(c.refs)]) for c in Cell.from_boc(data))
    except Exception as e:
        res = None
    assert data == keep and isinstance(repr(Boc(data)), str)
    if digest:
        H.update(b'rejected' if res is None else res)
    return res

def mk(cells, roots=(0,), cells_num=None, tail=b''):  # hand-made bag: 1-byte sizes, no index, no crc
    body = b''.join(bytes([len(r), 2 * len(d)]) + d + bytes(r) for d, r in cells) + tail
    n = len(cells) if cells_num is None else cells_num
    return b'\xb5\xee\x9cr' + bytes([1, 1, n, len(roots), 0, len(body)]) + bytes(roots) + body

for n in [1, 2, 3, 5, 8, 13, 40, 120, 255, 256, 257, 600, 2000] + [rnd.randrange(1, 60) for _ in range(25)]:
    root = dag(n)
    for idx, crc, cache in OPTS:
        raw = root.to_boc(has_idx=bool(idx), hash_crc32=bool(crc), has_cache_bits=bool(cache))
        H.update(raw)
        for f in (raw, raw.hex(), base64.b64encode(raw).decode()):
            assert outcome(f) == root.hash + bytes([len(root.refs)])
            assert Cell.one_from_boc(f).to_boc(idx, crc, cache) == raw
            assert Slice.one_from_boc(f).to_cell() == root and Builder.one_from_boc(f).end_cell() == root
A, B, C = b'\x01', b'\x02\x03', b''
good = mk([(A, [1, 2]), (B, [2]), (C, [])])
assert outcome(good) is not None and outcome(mk([(A, [1]), (B, [])], roots=(0, 1))) is not None
assert outcome(mk([(A, [])], tail=b'\x00\x00\x07')) is not None      # slack after the last cell stays accepted
bad = {'self': mk([(A, [0])]), 'back': mk([(A, [1]), (B, [0])]), 'back2': mk([(A, [1]), (B, [2]), (C, [1])]),
       'ref_oob': mk([(A, [1]), (B, [2])]), 'ref_oob255': mk([(A, [255])]), 'root_oob': mk([(A, [])], roots=(1,)),
       'root_oob2': mk([(A, [1]), (B, [])], roots=(0, 2)), 'more_cells': mk([(A, [])], cells_num=2),
       'more_cells_1byte': mk([(A, [])], cells_num=2, tail=b'\x00'), 'no_cells': mk([], cells_num=1),
       'short_roots': good[:7] + bytes([200]) + good[8:], 'magic': b'\x00' + good[1:], 'tiny': good[:3]}
for name, b in bad.items():
    for form in (b, b.hex(), base64.b64encode(b).decode()):
        assert outcome(form) is None, name
        for entry in (Cell.one_from_boc, Slice.one_from_boc, Builder.one_from_boc, Builder.from_boc):
            try:
                entry(form); raise SystemExit(f'{name} accepted by {entry}')
            except Exception as e:
                if name in ('ref_oob', 'ref_oob255', 'root_oob', 'root_oob2', 'more_cells', 'more_cells_1byte', 'no_cells'):
                    assert isinstance(e, IndexError), (name, e)   # what old callers may have been catching
                if name in ('magic', 'tiny'):
                    assert isinstance(e, BocError), (name, e)
src = [dag(5).to_boc(*o) for o in ((0, 0, 0), (1, 0, 0), (1, 1, 1))]
for t in range(600):                      # damaged real bags: same accept / reject decision, same result if accepted
    m = bytearray(src[t % 3])
    if t % 5 == 0:
        m = m[:rnd.randrange(len(m))]
    else:
        m[rnd.randrange(len(m))] = rnd.getrandbits(8)
    outcome(bytes(m))
print(H.hexdigest())

import hashlib, itertools, random
from pytoniq_core import HashMap, Builder, Address
from pytoniq_core.boc.hashmap.hashmap import DictError

rnd = random.Random(90903)
H = hashlib.sha256()
ld = lambda s: s.load_uint(16)


def note(*xs):
    H.update(repr(xs).encode() + b'\n')


def rejected(hm, call, base=DictError):
    """the call must raise (a subclass of) the documented exception and leave the map untouched; class and text are free"""
    before = list(hm.map.items())
    try:
        call()
    except base:
        assert list(hm.map.items()) == before
        return True
    raise AssertionError('not rejected')


def key_forms(width, k):  # the same key as int, bit string and (if whole bytes) bytes
    forms = [k, format(k, f'0{width}b')]
    if width % 8 == 0:
        forms.append(k.to_bytes(width // 8, 'big'))
    return forms


def check(width, pairs):
    hm = HashMap(width).with_uint_values(16)
    for k, v in pairs:
        form = rnd.choice(key_forms(width, k))
        assert (hm.set_int_key(form, v) if isinstance(form, int) and rnd.random() < .5 else hm.set(form, v)) is hm
    top = 1 << width
    for bad in (top, top + rnd.randrange(top), -1, -rnd.randrange(1, top + 1), top << 70, bin(top)[2:], '1' * (width + 1)):
        assert rejected(hm, lambda: hm.set(bad, 1))
        if isinstance(bad, int):
            assert rejected(hm, lambda: hm.set_int_key(bad, 1))
    assert rejected(hm, lambda: hm.set(b'\x01' + bytes((width + 7) // 8), 1))
    for bad in (1.5, None, (1, 2), bytearray(b'\x01')):
        assert rejected(hm, lambda: hm.set(bad, 1))
    expect = sorted(dict(pairs).items())
    assert sorted(hm.map.items()) == expect
    cell = hm.serialize()
    if not expect:
        assert cell is None
        return note(width, None)
    got = HashMap.parse(cell.begin_parse(), width, value_deserializer=ld)
    assert list(got.items()) == expect
    assert Builder().store_dict(cell).end_cell().begin_parse().load_dict(width, value_deserializer=ld) == got
    back = HashMap.from_cell(cell, width)
    assert list(back.map) == list(got) and [s.load_uint(16) for s in back.map.values()] == list(got.values())
    note(width, cell.hash.hex(), expect)
    # a cell whose label is longer than the key bits left is rejected with (a subclass of) ValueError
    for shorter in {0, width // 2, width - 1} - {width}:
        try:
            res = HashMap.parse(cell.begin_parse(), shorter, value_deserializer=ld)
            note('short', width, shorter, sorted(res.items()))
        except ValueError:
            note('short', width, shorter, 'ValueError')
        except Exception as e:  # any other failure is not touched by the change: class must stay
            note('short', width, shorter, type(e).__name__)


for width in (1, 2, 3):
    for r in range(0, 2 ** width + 1):
        for ks in itertools.combinations(range(2 ** width), r):
            for o in (itertools.permutations(ks) if r <= 3 else [ks[::-1]]):
                check(width, [(k, k * 3 + 1) for k in o])
for _ in range(100):
    ks = rnd.sample(range(16), rnd.randrange(0, 17))
    check(4, [(k, rnd.randrange(65536)) for k in ks] + [(k, 9) for k in ks[:2]])  # re-setting a key overwrites
for width in (7, 8, 16, 31, 32, 64, 255, 256, 267, 512, 900):
    for _ in range(4):
        ks = {0, (1 << width) - 1} | {rnd.getrandbits(width) for _ in range(rnd.randrange(12))}
        check(width, [(k, rnd.randrange(65536)) for k in rnd.sample(sorted(ks), len(ks))])
# hashed string keys, address keys, key serializer
hm = HashMap(256, value_serializer=lambda s, d: d.store_string(s))
hm.set('name', 'pytoniq', hash_key=True).set('description', 'the best lib', hash_key=True)
assert hm.map[int.from_bytes(hashlib.sha256(b'name').digest(), 'big')] == 'pytoniq'
note(hm.serialize().hash.hex())
ha, addrs = HashMap(267).with_coins_values(), [Address((rnd.choice([0, -1]), rnd.randbytes(32))) for _ in range(15)]
for a in addrs:
    ha.set(a, rnd.randrange(10 ** 15))
assert rejected(HashMap(266), lambda: HashMap(266).set(addrs[0], 1)) and rejected(HashMap(8), lambda: HashMap(8).set(addrs[0], 1))
note(ha.serialize().hash.hex(), [a.to_str() for a in ha.serialize().begin_parse().load_hashmap(267, lambda b: Builder().store_bits(b).end_cell().begin_parse().load_address())])
hs = HashMap(8, key_serializer=lambda k: k if isinstance(k, str) else k * 2, value_serializer=lambda s, d: d.store_uint(s, 8))
hs.set(5, 1).set(100, 2)
assert rejected(hs, lambda: hs.set(200, 3)) and rejected(hs, lambda: hs.set(-1, 3)) and rejected(hs, lambda: hs.set('x', 3))
note(sorted(hs.map.items()), hs.serialize().hash.hex())
print(H.hexdigest())
